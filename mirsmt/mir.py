"""Parser for rustc's `-Zunpretty=mir` text: functions, locals, basic blocks, statements, terminators,
places, operands and rvalues — the subset the encoded functions use (anything else raises Unsupported, which the
caller reports as inconclusive; nothing is silently skipped)."""
import re


class Unsupported(Exception):
    pass


class Fn:
    def __init__(self, name, params, ret, header_line):
        self.name = name
        self.params = params          # [(local, type)]
        self.ret = ret
        self.locals = {}              # local -> type
        self.blocks = {}              # 'bb0' -> Block
        self.header_line = header_line
        self.lines = 0
        self.debug = {}               # source variable name -> local (from `debug x => _N;`), first occurrence
        self.debug_all = []           # every (name, local) in declaration order

    def __repr__(self):
        return f"<Fn {self.name}>"


class Block:
    def __init__(self, name, cleanup):
        self.name = name
        self.cleanup = cleanup
        self.stmts = []               # raw statement strings (without trailing ';')
        self.term = None              # raw terminator string


CONST_RE = re.compile(r"^(?:const|static(?: mut)?) (.+?): (.+) = \{$")
FN_RE = re.compile(r"^fn (.+?)\((.*)\) -> (.+) \{$")
FN_RE_UNIT = re.compile(r"^fn (.+?)\((.*)\) \{$")


def split_top(s, sep=","):
    """Split on `sep` at nesting depth 0 of (), [], {}, <>; string literals are respected."""
    out, depth, cur, i, instr = [], 0, [], 0, False
    while i < len(s):
        c = s[i]
        if instr:
            cur.append(c)
            if c == "\\":
                cur.append(s[i + 1])
                i += 1
            elif c == '"':
                instr = False
        elif c == '"':
            instr = True
            cur.append(c)
        elif c == "'" and i + 2 < len(s) and (s[i + 2] == "'" or (s[i + 1] == "\\" and "'" in s[i + 2:i + 8])):
            # char literal (`'{'`, `'\n'`, `'\u{7f}'`): copied verbatim - not a lifetime, not a bracket
            j = i + 2 if s[i + 2] == "'" else s.index("'", i + 2)
            cur.append(s[i:j + 1])
            i = j
        elif c in "([{":
            depth += 1
            cur.append(c)
        elif c in ")]}":
            depth -= 1
            cur.append(c)
        elif c == "<":
            # generic bracket only if it looks like one (not a comparison; MIR has none in expressions)
            depth += 1
            cur.append(c)
        elif c == ">" and i > 0 and s[i - 1] != "-" and s[i - 1] != "=":
            depth -= 1
            cur.append(c)
        elif c == sep and depth == 0:
            out.append("".join(cur).strip())
            cur = []
        else:
            cur.append(c)
        i += 1
    last = "".join(cur).strip()
    if last:
        out.append(last)
    return out


def parse_mir(text):
    """-> {name: Fn}. Nested items (closures, promoted consts) are kept under their own names."""
    fns = {}
    cur = None
    block = None
    pending = None
    for line in text.split("\n"):
        if cur is None:
            cm = CONST_RE.match(line)
            if cm:
                # the name may itself contain ": " (`<impl at file:9:1: 9:20>`): split at the LAST ": " before " = {"
                body = re.sub(r"^(?:const|static(?: mut)?) ", "", line)[:-len(" = {")]
                cname, _, cty = body.rpartition(": ")
                cur = Fn(cname.strip(), [], cty.strip(), line)
                cur.is_const = True
                continue
            m = FN_RE.match(line) or FN_RE_UNIT.match(line)
            if m and not line.startswith(" "):
                name = m.group(1).strip()
                params = []
                for p in split_top(m.group(2)):
                    if ":" in p:
                        l, t = p.split(":", 1)
                        params.append((l.strip(), t.strip()))
                ret = m.group(3).strip() if m.re is FN_RE else "()"
                cur = Fn(name, params, ret, line)
                for l, t in params:
                    cur.locals[l] = t
            continue
        cur.lines += 1
        if line == "}":
            fns.setdefault(cur.name, cur)
            cur = None
            block = None
            continue
        s = line.strip()
        if not s or s.startswith("//"):
            continue
        dm = re.match(r"^debug (\w+) => (_\d+);$", s)
        if dm and block is None:
            cur.debug.setdefault(dm.group(1), dm.group(2))
            cur.debug_all.append((dm.group(1), dm.group(2)))
            continue
        m = re.match(r"^let (?:mut )?(_\d+): (.+);$", s)
        if m and block is None:
            cur.locals[m.group(1)] = m.group(2)
            continue
        m = re.match(r"^(bb\d+)( \(cleanup\))?: \{$", s)
        if m:
            block = Block(m.group(1), bool(m.group(2)))
            cur.blocks[block.name] = block
            pending = None
            continue
        if block is None:
            continue  # debug / scope lines
        if s == "}":
            block = None
            continue
        # statements may span several lines (long aggregates); join until ';'
        if pending is not None:
            s = pending + " " + s
            pending = None
        if not s.endswith(";"):
            pending = s
            continue
        s = s[:-1]
        if is_terminator(s):
            block.term = s
        else:
            block.stmts.append(s)
    return fns


def is_terminator(s):
    return (s.startswith(("goto ->", "switchInt(", "return", "resume", "unreachable", "assert(", "drop(", "falseEdge",
                          "falseUnwind", "yield", "tailcall", "terminate")) or " -> [return:" in s or s.endswith("-> unwind continue")
            or re.search(r"\) -> (bb\d+|unwind [a-z() ]+)$", s) is not None or re.search(r"-> \[.*\]$", s) is not None)


# ---- places / operands -----------------------------------------------------------------------------

class Place:
    """local + projections: ('deref',) | ('field', n) | ('downcast', Variant) | ('index', local)"""

    def __init__(self, local, proj=()):
        self.local = local
        self.proj = tuple(proj)

    def __repr__(self):
        return f"Place({self.local},{self.proj})"


def _match_paren(s, i):
    assert s[i] == "("
    depth = 0
    instr = False
    for j in range(i, len(s)):
        c = s[j]
        if instr:
            if c == '"' and s[j - 1] != "\\":
                instr = False
            continue
        if c == '"':
            instr = True
        elif c == "(":
            depth += 1
        elif c == ")":
            depth -= 1
            if depth == 0:
                return j
    raise Unsupported("unbalanced parens in " + s)


def parse_place(s):
    s = s.strip()
    p, rest = _parse_place(s)
    if rest.strip():
        raise Unsupported(f"trailing text after place: {s!r} -> {rest!r}")
    return p


def _parse_place(s):
    s = s.lstrip()
    m = re.match(r"^_\d+", s)
    if m:
        base = Place(m.group(0))
        rest = s[m.end():]
    elif s.startswith("("):
        j = _match_paren(s, 0)
        inner = s[1:j].strip()
        rest = s[j + 1:]
        if inner.startswith("*"):
            p, r = _parse_place(inner[1:])
            if r.strip():
                raise Unsupported("deref place: " + s)
            base = Place(p.local, p.proj + (("deref",),))
        else:
            p, r = _parse_place(inner)
            r = r.strip()
            m2 = re.match(r"^\.(\d+): (.*)$", r, re.S)
            m3 = re.match(r"^as (\w+)$", r)
            if m2 and re.match(r"^(std|core)::ptr::(Unique|NonNull)<", m2.group(2).strip()):
                # Box internals (`(box.0: Unique<T>).0: NonNull<T>`): a Box is modelled as its referent
                base = Place(p.local, p.proj)
            elif m2:
                base = Place(p.local, p.proj + (("field", int(m2.group(1))),))
            elif m3:
                base = Place(p.local, p.proj + (("downcast", m3.group(1)),))
            else:
                raise Unsupported("place projection: " + s)
    else:
        raise Unsupported("place: " + s)
    # trailing index projections  _1[_2]
    while True:
        m = re.match(r"^\[(_\d+)\]", rest)
        if m:
            base = Place(base.local, base.proj + (("index", m.group(1)),))
            rest = rest[m.end():]
            continue
        m = re.match(r"^\[(\d+) of (\d+)\]", rest)
        if m:
            base = Place(base.local, base.proj + (("constindex", int(m.group(1))),))
            rest = rest[m.end():]
            continue
        break
    return base, rest


class Operand:
    def __init__(self, kind, place=None, const=None):
        self.kind = kind      # 'copy' | 'move' | 'const'
        self.place = place
        self.const = const    # raw constant text

    def __repr__(self):
        return f"Operand({self.kind},{self.place or self.const})"


def parse_operand(s):
    s = s.strip()
    if s.startswith("no_retag "):
        s = s[len("no_retag "):]
    if s.startswith("copy "):
        return Operand("copy", parse_place(s[5:]))
    if s.startswith("move "):
        return Operand("move", parse_place(s[5:]))
    if s.startswith("const "):
        return Operand("const", const=s[6:].strip())
    raise Unsupported("operand: " + s)


BINOPS = {"Add", "Sub", "Mul", "Div", "Rem", "Eq", "Ne", "Lt", "Le", "Gt", "Ge", "BitAnd", "BitOr", "BitXor", "Shl", "Shr",
          "AddWithOverflow", "SubWithOverflow", "MulWithOverflow", "AddUnchecked", "SubUnchecked", "MulUnchecked", "Cmp",
          "Offset"}
UNOPS = {"Not", "Neg", "PtrMetadata"}


def parse_call(s):
    """`callee(args)` -> (callee text, [arg texts]); the callee may itself contain parens/generics."""
    s = s.strip()
    if not s.endswith(")"):
        raise Unsupported("call: " + s)
    # find the '(' matching the final ')'
    depth = 0
    instr = False
    for j in range(len(s) - 1, -1, -1):
        c = s[j]
        if c == '"' and (j == 0 or s[j - 1] != "\\"):
            instr = not instr
        if instr:
            continue
        if c == ")":
            depth += 1
        elif c == "(":
            depth -= 1
            if depth == 0:
                return s[:j].strip(), split_top(s[j + 1:-1])
    raise Unsupported("call: " + s)
