"""E2-X: enum-level symbolic execution of the compiler's pure "mapping" functions from the whole-crate MIR dump.
Values of enum/struct types are symbolic (tag + lazily created fields, types read from the sources); `quote!`
expansions are modelled as token pushes into a TokenStream value, so every feasible path carries the tokens it
emits."""
import re

import symex
from mir import Unsupported
from symex import Adt, Opaque, Ref, S, Scalar, Sym, Tokens, Unit


def _ret(v, st):
    return [("return", v, None, st)]


def st_clone(ex, callee, args, st):
    return _ret(ex.deref(args[0], st), st)


def st_tokens_new(ex, callee, args, st):
    return _ret(Tokens(), st)


def _push(ex, ref, toks, st):
    st2 = st.fork()
    if not isinstance(ref, Ref):
        raise Unsupported("token push into a TokenStream that is not a local")
    cur = ex.deref(ref, st2)
    if not isinstance(cur, Tokens):
        raise Unsupported(f"token push into non-TokenStream {cur!r}")
    ex._store(ref.frame, ref.place, Tokens(cur.toks + tuple(toks)), st2)
    return st2


PUNCT = {"push_colon2": "::", "push_dot": ".", "push_add": "+", "push_sub": "-", "push_star": "*", "push_div": "/",
         "push_rem": "%", "push_eq_eq": "==", "push_ne": "!=", "push_lt": "<", "push_le": "<=", "push_gt": ">", "push_ge": ">=",
         "push_and_and": "&&", "push_or_or": "||", "push_and": "&", "push_or": "|", "push_caret": "^", "push_shl": "<<",
         "push_shr": ">>", "push_comma": ",", "push_semi": ";", "push_colon": ":", "push_eq": "=", "push_bang": "!",
         "push_question": "?", "push_pound": "#", "push_rarrow": "->", "push_fat_arrow": "=>", "push_underscore": "_",
         "push_add_eq": "+=", "push_sub_eq": "-=", "push_mul_eq": "*=", "push_div_eq": "/=", "push_rem_eq": "%=",
         "push_dot2": "..", "push_dot_dot_eq": "..=", "push_at": "@", "push_tilde": "~", "push_dollar": "$"}


def st_quote_push(ex, callee, args, st):
    name = callee.split("::")[-1]
    name = re.sub(r"_spanned$", "", name)
    if name in ("push_ident", "push_lifetime"):
        arg = ex.deref(args[-1], st)
        txt = arg.text if isinstance(arg, Opaque) else repr(arg)
        m = re.match(r'^const "(.*)"$', txt)
        tok = m.group(1) if m else f"<{txt}>"
        return _ret(Unit(), _push(ex, args[0], [tok], st))
    if name == "push_group":
        delim = ex.deref(args[-2], st)
        inner = ex.deref(args[-1], st)
        d = repr(delim)
        op, cl = ("(", ")") if "Parenthesis" in d else ("{", "}") if "Brace" in d else ("[", "]") if "Bracket" in d else ("", "")
        toks = [op] + (list(inner.toks) if isinstance(inner, Tokens) else [f"<{inner!r}>"]) + [cl]
        return _ret(Unit(), _push(ex, args[0], toks, st))
    if name in PUNCT:
        return _ret(Unit(), _push(ex, args[0], [PUNCT[name]], st))
    if name == "parse":
        arg = ex.deref(args[-1], st)
        return _ret(Unit(), _push(ex, args[0], [f"<parse {arg!r}>"], st))
    raise Unsupported("quote helper " + callee)


def st_to_tokens(ex, callee, args, st):
    src = ex.deref(args[0], st)
    if isinstance(src, Tokens):
        toks = list(src.toks)
    else:
        toks = [f"<tokens of {src!r}>"]
    return _ret(Unit(), _push(ex, args[1], toks, st))


def st_discriminant_value(ex, callee, args, st):
    return _ret(ex._discriminant(ex.deref(args[0], st)), st)


def st_panic(ex, callee, args, st):
    return [("panic", None, "panic: " + callee, st)]


def _opt_split(ex, v, st):
    """-> [(is_some: bool, payload, state)] for an Option value (concrete or symbolic)"""
    v = ex.deref(v, st)
    if isinstance(v, Adt):
        if v.variant == "Some":
            f = v.fields[0]
            return [(True, f[1] if isinstance(f, tuple) else f, st)]
        return [(False, None, st)]
    if isinstance(v, Sym):
        t = v.tag()
        out = []
        for k, some in ((0, False), (1, True)):
            st2 = ex._assume_switch(st, t, str(k), [])
            if st2 is not None:
                out.append((some, v.child("Some", 0) if some else None, st2))
        return out
    raise Unsupported(f"Option operation on {v!r}")


def st_opt_expect(ex, callee, args, st):
    res = []
    for some, payload, st2 in _opt_split(ex, args[0], st):
        if some:
            res.append(("return", payload, None, st2))
        else:
            res.append(("panic", None, "panic: " + symex.strip_generics(callee) + " on None", st2))
    return res


def st_opt_is(which):
    def h(ex, callee, args, st):
        return [("return", S("bool", "true" if some == which else "false"), None, st2) for some, _, st2 in _opt_split(ex, args[0], st)]
    return h


def st_opt_unwrap_or(ex, callee, args, st):
    return [("return", payload if some else args[1], None, st2) for some, payload, st2 in _opt_split(ex, args[0], st)]


def st_opt_map(ex, callee, args, st):
    """Option::map(opt, f): f is a capture-less fn item (`Box::new`) or a closure whose body is in the dump."""
    res = []
    cm = re.search(r"(\{closure@[^}]+\})", callee)
    for some, payload, st2 in _opt_split(ex, args[0], st):
        if not some:
            res.append(("return", Adt("Option", "None", []), None, st2))
            continue
        if cm:
            ctext = cm.group(1)
            cands = [f for f in ex.p.fns.values() if f.params and ctext in f.params[0][1] and "{closure#" in f.name]
            if len(cands) != 1:
                raise Unsupported(f"cannot resolve closure of {callee}")
            for o in ex.run(cands[0], [args[1], payload], {}, 1, st2):
                if o.kind == "return":
                    res.append(("return", Adt("Option", "Some", [o.value]), None, o.state))
                else:
                    res.append((o.kind, o.value, o.info, o.state))
        elif re.search(r"\{(std::boxed::|alloc::boxed::)?Box::<.*>::new\}>$", callee):
            res.append(("return", Adt("Option", "Some", [payload]), None, st2))
        else:
            fm = re.search(r"\{([\w:<>', ]+)\}>$", callee)      # a named fn item: `map::<U, fn(..) -> .. {path::name}>`
            if not fm:
                raise Unsupported(f"Option::map with {callee}")

            class _F:
                name = "Option::map"
            for kind, val, info, st3 in ex._call(_F, fm.group(1), [payload], 1, st2):
                if kind == "return":
                    res.append(("return", Adt("Option", "Some", [val]), None, st3))
                else:
                    res.append((kind, val, info, st3))
    return res


def st_opt_transpose(ex, callee, args, st):
    res = []
    for some, payload, st2 in _opt_split(ex, args[0], st):
        if not some:
            res.append(("return", Adt("Result", "Ok", [Adt("Option", "None", [])]), None, st2))
            continue
        v = ex.deref(payload, st2)
        if isinstance(v, Adt) and v.variant == "Ok":
            f = v.fields[0]
            res.append(("return", Adt("Result", "Ok", [Adt("Option", "Some", [f[1] if isinstance(f, tuple) else f])]), None, st2))
        elif isinstance(v, Adt) and v.variant == "Err":
            res.append(("return", Adt("Result", "Err", list(v.fields)), None, st2))
        elif isinstance(v, Sym) and v.tdef is not None and v.tdef.name == "Result":
            s_ok = ex._assume_switch(st2, v.tag(), "0", [])
            if s_ok is not None:
                res.append(("return", Adt("Result", "Ok", [Adt("Option", "Some", [v.child("Ok", 0)])]), None, s_ok))
            s_err = ex._assume_switch(st2, v.tag(), "1", [])
            if s_err is not None:
                res.append(("return", Adt("Result", "Err", [v.child("Err", 0)]), None, s_err))
        else:
            raise Unsupported(f"transpose of {v!r}")
    return res


def st_try_branch(ex, callee, args, st):
    v = ex.deref(args[0], st)
    if isinstance(v, Adt) and v.variant in ("Ok", "Some"):
        f = v.fields[0]
        return _ret(Adt("ControlFlow", "Continue", [f[1] if isinstance(f, tuple) else f]), st)
    if isinstance(v, Adt) and v.variant == "Err":
        return _ret(Adt("ControlFlow", "Break", [Adt("Result", "Err", list(v.fields))]), st)
    if isinstance(v, Adt) and v.variant == "None":
        return _ret(Adt("ControlFlow", "Break", [Adt("Option", "None", [])]), st)
    if isinstance(v, Sym) and v.tdef is not None and v.tdef.name == "Result":
        out = []
        st_ok = ex._assume_switch(st, v.tag(), "0", [])
        if st_ok is not None:
            out.append(("return", Adt("ControlFlow", "Continue", [v.child("Ok", 0)]), None, st_ok))
        st_err = ex._assume_switch(st, v.tag(), "1", [])
        if st_err is not None:
            out.append(("return", Adt("ControlFlow", "Break", [Adt("Result", "Err", [v.child("Err", 0)])]), None, st_err))
        return out
    if isinstance(v, Sym) and v.tdef is not None and v.tdef.name == "Option":
        out = []
        st_none = ex._assume_switch(st, v.tag(), "0", [])
        if st_none is not None:
            out.append(("return", Adt("ControlFlow", "Break", [Adt("Option", "None", [])]), None, st_none))
        st_some = ex._assume_switch(st, v.tag(), "1", [])
        if st_some is not None:
            out.append(("return", Adt("ControlFlow", "Continue", [v.child("Some", 0)]), None, st_some))
        return out
    raise Unsupported(f"`?` on {v!r}")


def st_from_residual(ex, callee, args, st):
    return _ret(ex.deref(args[0], st), st)


class SeqIter(symex.Val):
    """`slice::Iter` (optionally reversed) over a symbolic sequence whose length is fixed on this path."""

    def __init__(self, seq, lo, hi, rev=False, enum=False):
        self.seq, self.lo, self.hi, self.rev, self.enum = seq, lo, hi, rev, enum

    def __repr__(self):
        return f"iter<{self.seq!r}[{self.lo}..{self.hi}]{' rev' if self.rev else ''}{' enum' if self.enum else ''}>"


def seq_elem_type(ty_text):
    t = re.sub(r"^&\s*('\w+\s+)?(mut\s+)?", "", ty_text.strip())
    m = re.match(r"^\[(.*?)(?:; \d+)?\]$", t) or re.match(r"^(?:std::vec::|alloc::vec::)?Vec<(.*)>$", t)
    if not m:
        raise Unsupported(f"element type of {ty_text}")
    return m.group(1)


def seq_elem(ex, seq, k):
    if isinstance(seq, Adt):          # a constructed vector
        return seq.fields[k]
    key = ("elem", str(k))
    if key not in seq._children:
        seq._children[key] = ex.sym_value(seq_elem_type(seq.ty_text), f"{seq.name}.e{k}", seq.tdef.modpath if seq.tdef else None)
    return seq._children[key]


def iter_elem(ex, it, k):
    """k-th element of the underlying sequence as the iterator yields it ((index, elem) when enumerated)"""
    el = seq_elem(ex, it.seq, k)
    if it.enum:
        return symex.Tup([S("int", ex.enc.int_const(k - 0), 64, False), el])
    return el


def seq_elem_at(ex, seq, idx_term):
    """Element of a symbolic slice at a symbolic index (one symbolic element per distinct index term)."""
    key = ("elem", idx_term)
    if key not in seq._children:
        ex.sym_counter += 1
        el = ex.sym_value(seq_elem_type(seq.ty_text), f"{seq.name}.at{ex.sym_counter}", seq.tdef.modpath if seq.tdef else None)
        seq._children[key] = el
        hook = getattr(ex, "elem_axiom", None)
        if hook:
            hook(seq, idx_term, el)
    return seq._children[key]


def seq_lengths(ex, seq, st):
    """-> [(n, state)]: the length of a symbolic sequence is decided once per path, 0..=ex.seq_bound"""
    key = "len:" + seq.name
    if key in st.facts:
        return [(st.facts[key], st)]
    out = []
    bound = getattr(ex, "seq_bounds", {}).get(seq.name, getattr(ex, "seq_bound", 3))     # per-sequence override of the list bound
    for n in range(bound + 1):
        st2 = st.fork()
        st2.facts[key] = n
        out.append((n, st2))
    return out


def _fallback(ex, callee, args, st, why):
    """Not a value of the sequence model: behave as before the model existed (opaque call, or unsupported)."""
    if ex.opaque_calls:
        r = ex.opaque_calls(ex, callee, args, st)
        if r is not None:
            return r
    raise Unsupported(why)


def st_str_to_string(ex, callee, args, st):
    if getattr(ex, "strings_identity", False):
        return _ret(ex.deref(args[0], st), st)
    return _fallback(ex, callee, args, st, "to_string")


def st_vec_deref(ex, callee, args, st):
    v = ex.deref(args[0], st)
    if isinstance(v, (Sym, Adt)) and getattr(ex, "model_sequences", False):
        return _ret(v, st)
    return _fallback(ex, callee, args, st, f"deref of {v!r}")


class Outcome_:
    def __init__(self, kind, value, info, state):
        self.kind, self.value, self.info, self.state = kind, value, info, state


class MapIter(symex.Val):
    def __init__(self, inner, env, ctext):
        self.inner, self.env, self.ctext = inner, env, ctext

    def __repr__(self):
        return f"map<{self.inner!r}>"


def _closure_fn(ex, ctext):
    cands = [f for f in ex.p.fns.values() if f.params and ctext in f.params[0][1] and "{closure#" in f.name]
    if len(cands) != 1:
        raise Unsupported(f"cannot resolve closure {ctext}")
    return cands[0]


def st_iter_map(ex, callee, args, st):
    it = ex.deref(args[0], st)
    cm = re.search(r"(\{closure@[^}]+\})", callee)
    if not isinstance(it, SeqIter) or not cm:
        return _fallback(ex, callee, args, st, f"map over {it!r}")
    return _ret(MapIter(it, args[1], cm.group(1)), st)


def st_collect_result_vec(ex, callee, args, st):
    """`iter.map(f).collect::<Result<Vec<_>, _>>()`: f on each element in order, the first Err ends the collection."""
    mi = ex.deref(args[0], st)
    if not isinstance(mi, MapIter) or mi.inner.rev:
        return _fallback(ex, callee, args, st, f"collect of {mi!r}")
    f = _closure_fn(ex, mi.ctext)
    res = []
    work = [(mi.inner.lo, [], st)]
    while work:
        k, acc, s1 = work.pop()
        if k >= mi.inner.hi:
            res.append(("return", Adt("Result", "Ok", [Adt("Vec", "lit", acc)]), None, s1))
            continue
        if mi.inner.enum and getattr(ex, "opaque_enum_closures", False) and ex.opaque_calls:
            # the per-element closure is summarised: an event (index, element) with an arbitrary Result
            saved = ex.dest_type
            ex.dest_type = f.ret if getattr(f, "ret", None) else "std::result::Result<TokenStream, EmitError>"
            try:
                runs = [Outcome_(kind, val, info, st_) for kind, val, info, st_ in
                        ex.opaque_calls(ex, f.name, [mi.env, iter_elem(ex, mi.inner, k)], s1)]
            finally:
                ex.dest_type = saved
        else:
            runs = ex.run(f, [mi.env, iter_elem(ex, mi.inner, k)], {}, 1, s1)
        for o in runs:
            if o.kind != "return":
                res.append((o.kind, o.value, o.info, o.state))
                continue
            v = ex.deref(o.value, o.state)
            if isinstance(v, Sym) and v.tdef is not None and v.tdef.name == "Result":
                s_ok = ex._assume_switch(o.state, v.tag(), "0", [])
                if s_ok is not None:
                    work.append((k + 1, acc + [v.child("Ok", 0)], s_ok))
                s_err = ex._assume_switch(o.state, v.tag(), "1", [])
                if s_err is not None:
                    res.append(("return", Adt("Result", "Err", [v.child("Err", 0)]), None, s_err))
            elif isinstance(v, Adt) and v.variant == "Ok":
                x = v.fields[0]
                work.append((k + 1, acc + [x[1] if isinstance(x, tuple) else x], o.state))
            elif isinstance(v, Adt) and v.variant == "Err":
                res.append(("return", v, None, o.state))
            else:
                raise Unsupported(f"collect: closure returned {v!r}")
    return res


def st_collect_vec(ex, callee, args, st):
    """`iter.map(f).collect::<Vec<_>>()`"""
    mi = ex.deref(args[0], st)
    if not isinstance(mi, MapIter) or mi.inner.rev:
        return _fallback(ex, callee, args, st, f"collect of {mi!r}")
    f = _closure_fn(ex, mi.ctext)
    res = []
    work = [(mi.inner.lo, [], st)]
    while work:
        k, acc, s1 = work.pop()
        if k >= mi.inner.hi:
            res.append(("return", Adt("Vec", "lit", acc), None, s1))
            continue
        for o in ex.run(f, [mi.env, iter_elem(ex, mi.inner, k)], {}, 1, s1):
            if o.kind != "return":
                res.append((o.kind, o.value, o.info, o.state))
            else:
                work.append((k + 1, acc + [o.value], o.state))
    return res


class FilterIter(symex.Val):
    def __init__(self, inner, env, ctext):
        self.inner, self.env, self.ctext = inner, env, ctext

    def __repr__(self):
        return f"filter<{self.inner!r}>"


def st_iter_filter(ex, callee, args, st):
    it = ex.deref(args[0], st)
    cm = re.search(r"(\{closure@[^}]+\})", callee)
    if not isinstance(it, SeqIter) or it.rev or not cm:
        return _fallback(ex, callee, args, st, f"filter over {it!r}")
    return _ret(FilterIter(it, args[1], cm.group(1)), st)


def st_filter_cloned(ex, callee, args, st):
    it = ex.deref(args[0], st)
    if not isinstance(it, FilterIter):
        return _fallback(ex, callee, args, st, f"cloned of {it!r}")
    return _ret(it, st)


def st_collect_filter(ex, callee, args, st):
    """`iter.filter(p)[.cloned()].collect::<Vec<_>>()`: p on each element in order; an element is kept on the paths where p holds"""
    fi = ex.deref(args[0], st)
    if not isinstance(fi, FilterIter):
        return _fallback(ex, callee, args, st, f"collect of {fi!r}")
    f = _closure_fn(ex, fi.ctext)
    res = []
    work = [(fi.inner.lo, [], st)]
    while work:
        k, acc, s1 = work.pop()
        if k >= fi.inner.hi:
            res.append(("return", Adt("Vec", "lit", acc), None, s1))
            continue
        el = seq_elem(ex, fi.inner.seq, k)
        for o in ex.run(f, [fi.env, el], {}, 1, s1):
            if o.kind != "return":
                res.append((o.kind, o.value, o.info, o.state))
                continue
            v = ex.deref(o.value, o.state)
            if not (isinstance(v, Scalar) and v.sort == "bool"):
                raise Unsupported(f"filter: closure returned {v!r}")
            t = symex.simplify_bool(v.term)
            if t != "false":
                s_t = o.state.fork()
                if t != "true" and t not in s_t.pc:
                    s_t.pc.append(t)
                work.append((k + 1, acc + [el], s_t))
            if t != "true":
                s_f = o.state.fork()
                nt = symex.simplify_bool(symex.neg(t))
                if nt != "true" and nt not in s_f.pc:
                    s_f.pc.append(nt)
                work.append((k + 1, acc, s_f))
    return res


def st_iter_enumerate(ex, callee, args, st):
    it = ex.deref(args[0], st)
    if not isinstance(it, SeqIter) or it.rev:
        return _fallback(ex, callee, args, st, f"enumerate of {it!r}")
    return _ret(SeqIter(it.seq, it.lo, it.hi, False, True), st)


def _lit_index(ex, v):
    v = v if isinstance(v, Scalar) else None
    return symex._int_lit(v.term) if v is not None else None


def st_vec_new(ex, callee, args, st):
    if not getattr(ex, "model_vecs", False):
        return _fallback(ex, callee, args, st, "Vec::new")
    return _ret(Adt("Vec", "lit", []), st)


def st_vec_push(ex, callee, args, st):
    cur = ex.deref(args[0], st)
    if not (isinstance(cur, Adt) and cur.ty == "Vec" and cur.variant == "lit" and isinstance(args[0], Ref)):
        return _fallback(ex, callee, args, st, f"push into {cur!r}")
    st2 = st.fork()
    ex._store(args[0].frame, args[0].place, Adt("Vec", "lit", list(cur.fields) + [args[1]]), st2)
    return _ret(Unit(), st2)


def st_vec_index(ex, callee, args, st):
    v = ex.deref(args[0], st)
    k = _lit_index(ex, ex.deref(args[1], st))
    if isinstance(v, Adt) and v.ty == "Vec" and v.variant == "lit" and k is not None:
        if 0 <= k < len(v.fields):
            return _ret(v.fields[k], st)
        return [("panic", None, "index out of bounds on a constructed vector", st)]
    if isinstance(v, Sym) and k is not None and getattr(ex, "model_sequences", False):
        return [("return", seq_elem(ex, v, k), None, st2) if 0 <= k < n else ("panic", None, "index out of bounds", st2)
                for n, st2 in seq_lengths(ex, v, st)]
    iv = ex.deref(args[1], st)
    if isinstance(v, Sym) and isinstance(iv, Scalar) and iv.sort == "int" and getattr(ex, "model_sequences", False):
        # symbolic index into a sequence of known length: in bounds -> some element, out of bounds -> panic
        res = []
        for n, st2 in seq_lengths(ex, v, st):
            inb = f"(and (<= 0 {iv.term}) (< {iv.term} {n}))"
            s_ok, s_bad = st2.fork(), st2.fork()
            s_ok.pc.append(inb)
            s_bad.pc.append(symex.neg(inb))
            if n > 0:
                res.append(("return", seq_elem_at(ex, v, iv.term), None, s_ok))
            res.append(("panic", None, f"index out of bounds: the len is {n} but the index is {iv.term}", s_bad))
        return res
    return _fallback(ex, callee, args, st, f"index into {v!r}")


def st_slice_get(ex, callee, args, st):
    v = ex.deref(args[0], st)
    k = _lit_index(ex, ex.deref(args[1], st))
    if k is None:
        return _fallback(ex, callee, args, st, f"get on {v!r}")
    if isinstance(v, Adt) and v.ty == "Vec" and v.variant == "lit":
        return _ret(Adt("Option", "Some", [v.fields[k]]) if 0 <= k < len(v.fields) else Adt("Option", "None", []), st)
    if isinstance(v, Sym) and getattr(ex, "model_sequences", False):
        return [("return", Adt("Option", "Some", [seq_elem(ex, v, k)]) if 0 <= k < n else Adt("Option", "None", []), None, st2)
                for n, st2 in seq_lengths(ex, v, st)]
    return _fallback(ex, callee, args, st, f"get on {v!r}")


# ---- maps keyed by strings: entries in insertion order; key equality is equality of symbolic string ids ---------------------
def str_id(ex, v, st):
    v = ex.deref(v, st)
    if not hasattr(ex, "str_ids"):
        ex.str_ids = {}
    key = v.name if isinstance(v, Sym) else repr(v)
    if key not in ex.str_ids:
        nm = "sid!" + re.sub(r"[^A-Za-z0-9_.!]", "_", key)
        ex.enc.decls.append(f"(declare-const {nm} Int)")
        ex.str_ids[key] = nm
    return ex.str_ids[key]


def st_map_new(ex, callee, args, st):
    if not getattr(ex, "model_maps", False):
        return _fallback(ex, callee, args, st, "HashMap::new")
    return _ret(Adt("Map", "lit", []), st)


def st_map_insert(ex, callee, args, st):
    cur = ex.deref(args[0], st)
    if not (isinstance(cur, Adt) and cur.ty == "Map" and isinstance(args[0], Ref)):
        return _fallback(ex, callee, args, st, f"insert into {cur!r}")
    st2 = st.fork()
    ex._store(args[0].frame, args[0].place, Adt("Map", "lit", list(cur.fields) + [symex.Tup([args[1], args[2]])]), st2)
    return _ret(Opaque("displaced"), st2)


def st_map_get(ex, callee, args, st):
    cur = ex.deref(args[0], st)
    if not (isinstance(cur, Adt) and cur.ty == "Map"):
        return _fallback(ex, callee, args, st, f"get on {cur!r}")
    kid = str_id(ex, args[1], st)
    res = []
    s1 = st
    for ent in reversed(cur.fields):      # the latest insertion of an equal key wins
        eq = f"(= {str_id(ex, ent.items[0], s1)} {kid})"
        s_hit = s1.fork()
        if symex.simplify_bool(symex.neg(eq)) not in s_hit.pc:
            if eq not in s_hit.pc:
                s_hit.pc.append(eq)
            res.append(("return", Adt("Option", "Some", [ent.items[1]]), None, s_hit))
        if eq in s1.pc:
            s1 = None
            break
        s1 = s1.fork()
        ne = symex.neg(eq)
        if ne not in s1.pc:
            s1.pc.append(ne)
    if s1 is not None:
        res.append(("return", Adt("Option", "None", []), None, s1))
    return res


def st_set_new(ex, callee, args, st):
    if not getattr(ex, "model_maps", False):
        return _fallback(ex, callee, args, st, "HashSet::new")
    return _ret(Adt("Set", "lit", []), st)


def st_set_insert(ex, callee, args, st):
    cur = ex.deref(args[0], st)
    if not (isinstance(cur, Adt) and cur.ty == "Set" and isinstance(args[0], Ref)):
        return _fallback(ex, callee, args, st, f"insert into {cur!r}")
    st2 = st.fork()
    ex._store(args[0].frame, args[0].place, Adt("Set", "lit", list(cur.fields) + [args[1]]), st2)
    return _ret(Opaque("was-new"), st2)


def st_set_contains(ex, callee, args, st):
    cur = ex.deref(args[0], st)
    if not (isinstance(cur, Adt) and cur.ty == "Set"):
        return _fallback(ex, callee, args, st, f"contains on {cur!r}")
    kid = str_id(ex, args[1], st)
    eqs = [f"(= {str_id(ex, m, st)} {kid})" for m in cur.fields]
    return _ret(S("bool", symex.disj(eqs) if eqs else "false"), st)


def st_set_is_empty(ex, callee, args, st):
    cur = ex.deref(args[0], st)
    if not (isinstance(cur, Adt) and cur.ty == "Set"):
        return _fallback(ex, callee, args, st, f"is_empty on {cur!r}")
    return _ret(S("bool", "true" if not cur.fields else "false"), st)


def _tag_term(ex, v):
    """tag of a value of a payload-free enum (symbolic or constructed) as an SMT term, or None"""
    if isinstance(v, Sym) and v.tdef is not None and v.tdef.kind == "enum" and all(not flds for _, flds in v.tdef.variants):
        return v.tag().term
    if isinstance(v, Adt) and v.variant is not None and not v.fields:
        try:
            return str(ex.variant_index(v.ty, v.variant))
        except Unsupported:
            return None
    return None


def st_option_enum_eq(ex, callee, args, st):
    """`Option<E> == Option<E>` for a payload-free enum E (std's generic impl is not in the dump): structural equality on the tags"""
    a, b = ex.deref(args[0], st), ex.deref(args[1], st)

    def parts(v):
        if isinstance(v, Adt) and v.variant == "None":
            return "0", None
        if isinstance(v, Adt) and v.variant == "Some":
            f = v.fields[0]
            return "1", _tag_term(ex, ex.deref(f[1] if isinstance(f, tuple) else f, st))
        if isinstance(v, Sym) and v.tdef is not None and v.tdef.name == "Option":
            return v.tag().term, _tag_term(ex, v.child("Some", 0))
        return None, None
    ta, pa = parts(a)
    tb, pb = parts(b)
    if ta is None or tb is None or (ta != "0" and pa is None) or (tb != "0" and pb is None):
        return _fallback(ex, callee, args, st, f"== on {a!r}, {b!r}")
    inner = f"(= {pa} {pb})" if (pa is not None and pb is not None) else "true"
    term = symex.simplify_bool(f"(and (= {ta} {tb}) (or (= {ta} 0) {inner}))")
    if callee.endswith("::ne"):
        term = symex.simplify_bool(symex.neg(term))
    return _ret(S("bool", term), st)


# ---- a symbolic String-keyed map handed in from outside: a sequence of (key, value) entries with pairwise distinct keys ----------
def symmap_entries(ex, m, st):
    """-> [(n, state)]; entry j has key `<m>.k<j>` (a symbolic string) and value `<m>.v<j>`"""
    return seq_lengths(ex, m, st)


def symmap_key(ex, m, j):
    key = ("mapkey", str(j))
    if key not in m._children:
        m._children[key] = ex.sym_value("std::string::String", f"{m.name}.k{j}")
    return m._children[key]


def symmap_val(ex, m, j):
    key = ("mapval", str(j))
    if key not in m._children:
        mt = re.match(r"^(?:&\s*)?(?:std::collections::)?HashMap<(.*)>$", m.ty_text.strip())
        vt = symex.split_top(mt.group(1))[1].strip() if mt else None
        if vt is None:
            raise Unsupported(f"value type of {m.ty_text}")
        m._children[key] = ex.sym_value(vt, f"{m.name}.v{j}", m.tdef.modpath if m.tdef else None)
    return m._children[key]


def st_symmap_get(ex, callee, args, st):
    m = ex.deref(args[0], st)
    if not (isinstance(m, Sym) and getattr(ex, "model_symmaps", False)):
        return _fallback(ex, callee, args, st, f"get on {m!r}")
    kid = str_id(ex, args[1], st)
    res = []
    for n, st2 in symmap_entries(ex, m, st):
        s1 = st2
        for j in range(n):
            eq = f"(= {str_id(ex, symmap_key(ex, m, j), s1)} {kid})"
            s_hit = s1.fork()
            s_hit.pc.append(eq)
            res.append(("return", Adt("Option", "Some", [symmap_val(ex, m, j)]), None, s_hit))
            s1 = s1.fork()
            s1.pc.append(symex.neg(eq))
        res.append(("return", Adt("Option", "None", []), None, s1))
    return res


def st_symmap_into_iter(ex, callee, args, st):
    m = ex.deref(args[0], st)
    if not (isinstance(m, Sym) and getattr(ex, "model_symmaps", False)):
        return _fallback(ex, callee, args, st, f"iteration over {m!r}")
    out = []
    for n, st2 in symmap_entries(ex, m, st):
        ents = Adt("Vec", "lit", [symex.Tup([symmap_key(ex, m, j), symmap_val(ex, m, j)]) for j in range(n)])
        out.append(("return", SeqIter(ents, 0, n), None, st2))
    return out


def st_map_contains_key(ex, callee, args, st):
    cur = ex.deref(args[0], st)
    if not (isinstance(cur, Adt) and cur.ty == "Map"):
        return _fallback(ex, callee, args, st, f"contains_key on {cur!r}")
    kid = str_id(ex, args[1], st)
    eqs = [f"(= {str_id(ex, ent.items[0], st)} {kid})" for ent in cur.fields]
    return _ret(S("bool", symex.disj(eqs) if eqs else "false"), st)


def st_opt_is_some_and(ex, callee, args, st):
    """Option::is_some_and(f) / is_none_or(f)"""
    cm = re.search(r"(\{closure@[^}]+\})", callee)
    none_val = "true" if "is_none_or" in callee else "false"
    res = []
    for some, payload, st2 in _opt_split(ex, args[0], st):
        if not some:
            res.append(("return", S("bool", none_val), None, st2))
        elif cm:
            for o in ex.run(_closure_fn(ex, cm.group(1)), [args[1], payload], {}, 1, st2):
                res.append((o.kind, o.value, o.info, o.state))
        else:
            raise Unsupported(f"is_some_and with {callee}")
    return res


def st_opt_filter(ex, callee, args, st):
    cm = re.search(r"(\{closure@[^}]+\})", callee)
    res = []
    for some, payload, st2 in _opt_split(ex, args[0], st):
        if not some:
            res.append(("return", Adt("Option", "None", []), None, st2))
            continue
        if not cm:
            raise Unsupported(f"filter with {callee}")
        for o in ex.run(_closure_fn(ex, cm.group(1)), [args[1], payload], {}, 1, st2):
            if o.kind != "return":
                res.append((o.kind, o.value, o.info, o.state))
                continue
            v = ex.deref(o.value, o.state)
            if not (isinstance(v, Scalar) and v.sort == "bool"):
                raise Unsupported(f"filter: closure returned {v!r}")
            t = symex.simplify_bool(v.term)
            if t != "false":
                s_t = o.state.fork()
                if t != "true" and t not in s_t.pc:
                    s_t.pc.append(t)
                res.append(("return", Adt("Option", "Some", [payload]), None, s_t))
            if t != "true":
                s_f = o.state.fork()
                nt = symex.simplify_bool(symex.neg(t))
                if nt != "true" and nt not in s_f.pc:
                    s_f.pc.append(nt)
                res.append(("return", Adt("Option", "None", []), None, s_f))
    return res


def st_opt_and_then(ex, callee, args, st):
    cm = re.search(r"(\{closure@[^}]+\})", callee)
    res = []
    for some, payload, st2 in _opt_split(ex, args[0], st):
        if not some:
            res.append(("return", Adt("Option", "None", []), None, st2))
        elif cm:
            for o in ex.run(_closure_fn(ex, cm.group(1)), [args[1], payload], {}, 1, st2):
                res.append((o.kind, o.value, o.info, o.state))
        else:
            fm = re.search(r"\{([\w:]+)\}>$", callee)      # a named fn item: `and_then::<T, fn(..) -> .. {path::name}>`
            target = ex.p.lookup(fm.group(1)) if fm else None
            if target is None and fm:
                cands = [f for n, f in ex.p.fns.items() if n.endswith("::" + fm.group(1)) or n == fm.group(1)]
                target = cands[0] if len(cands) == 1 else None
            if target is None:
                raise Unsupported(f"and_then with {callee}")
            for o in ex.run(target, [payload], {}, 1, st2):
                res.append((o.kind, o.value, o.info, o.state))
    return res


def st_quote_into_iter(ex, callee, args, st):
    v = ex.deref(args[0], st)
    if isinstance(v, Adt) and v.ty == "Vec" and v.variant == "lit":
        return _ret(symex.Tup([SeqIter(v, 0, len(v.fields)), Opaque("HasIterator")]), st)
    return _fallback(ex, callee, args, st, f"quote repetition over {v!r}")


def st_unit(ex, callee, args, st):
    return _ret(Opaque("marker"), st)


def st_rep_to_tokens(ex, callee, args, st):
    src = ex.deref(args[0], st)
    if isinstance(src, Adt) and src.fields:
        f = src.fields[0]
        src = ex.deref(f[1] if isinstance(f, tuple) else f, st)
    toks = list(src.toks) if isinstance(src, Tokens) else [f"<tokens of {src!r}>"]
    return _ret(Unit(), _push(ex, args[1], toks, st))


def st_slice_iter(ex, callee, args, st):
    seq = ex.deref(args[0], st)
    if isinstance(seq, Adt) and seq.ty == "Vec" and seq.variant == "lit":
        return _ret(SeqIter(seq, 0, len(seq.fields)), st)
    if not isinstance(seq, Sym) or not getattr(ex, "model_sequences", False):
        return _fallback(ex, callee, args, st, f"iteration over {seq!r}")
    return [("return", SeqIter(seq, 0, n), None, st2) for n, st2 in seq_lengths(ex, seq, st)]


def st_iter_rev(ex, callee, args, st):
    it = ex.deref(args[0], st)
    if not isinstance(it, SeqIter):
        return _fallback(ex, callee, args, st, f"rev of {it!r}")
    return _ret(SeqIter(it.seq, it.lo, it.hi, not it.rev), st)


def st_into_iter(ex, callee, args, st):
    v = ex.deref(args[0], st)
    if isinstance(v, SeqIter):
        return _ret(v, st)
    if isinstance(v, Adt) and str(v.ty).split("::")[-1].startswith("Range") and "Range<" in callee:
        return _ret(v, st)          # a range is its own iterator
    if isinstance(v, Sym) and "HashMap<" in v.ty_text and getattr(ex, "model_symmaps", False):
        return st_symmap_into_iter(ex, callee, args, st)
    if isinstance(v, Sym) and "HashMap<" in v.ty_text:
        return _fallback(ex, callee, args, st, f"into_iter of {v!r}")
    if isinstance(v, Sym) and re.search(r"^<&", callee) and getattr(ex, "model_sequences", False):
        return st_slice_iter(ex, callee, args, st)
    return _fallback(ex, callee, args, st, f"into_iter of {v!r}")


def st_iter_next(ex, callee, args, st):
    ref = args[0]
    it = ex.deref(ref, st)
    if not isinstance(it, SeqIter) or not isinstance(ref, Ref):
        return _fallback(ex, callee, args, st, f"next on {it!r}")
    if it.lo >= it.hi:
        return _ret(Adt("Option", "None", []), st)
    st2 = st.fork()
    if it.rev:
        k, new = it.hi - 1, SeqIter(it.seq, it.lo, it.hi - 1, True)
    else:
        k, new = it.lo, SeqIter(it.seq, it.lo + 1, it.hi, False, it.enum)
    ex._store(ref.frame, ref.place, new, st2)
    return _ret(Adt("Option", "Some", [iter_elem(ex, it, k) if it.enum else seq_elem(ex, it.seq, k)]), st2)


def st_iter_any(ex, callee, args, st):
    """`iter.any(f)`: f on each element in iteration order, short-circuiting on the first true."""
    it = ex.deref(args[0], st)
    cm = re.search(r"(\{closure@[^}]+\})", callee)
    fm = re.search(r"any::<(?:for<[^>]*> )?fn\([^)]*\) -> bool \{([\w:]+)\}>$", callee)
    if not isinstance(it, SeqIter) or not (cm or fm):
        return _fallback(ex, callee, args, st, f"any over {it!r}")
    f = _closure_fn(ex, cm.group(1)) if cm else None
    order = list(range(it.lo, it.hi))
    if it.rev:
        order.reverse()
    res = []
    work = [(0, st)]

    def apply(elem, s1):
        if f is not None:
            return ex.run(f, [args[1], elem], {}, 1, s1)
        # a plain function item: the named function applied to the element (summarised or executed like any other call)
        return [Outcome_(k_, v_, i_, s_) for (k_, v_, i_, s_) in ex._call(None, fm.group(1), [elem], 1, s1)]
    while work:
        j, s1 = work.pop()
        if j >= len(order):
            res.append(("return", S("bool", "false"), None, s1))
            continue
        for o in apply(seq_elem(ex, it.seq, order[j]), s1):
            if o.kind != "return":
                res.append((o.kind, o.value, o.info, o.state))
                continue
            v = ex.deref(o.value, o.state)
            if not (isinstance(v, Scalar) and v.sort == "bool"):
                raise Unsupported(f"any: closure returned {v!r}")
            t = symex.simplify_bool(v.term)
            if t != "false":
                s_t = o.state.fork()
                if t != "true" and t not in s_t.pc:
                    s_t.pc.append(t)
                res.append(("return", S("bool", "true"), None, s_t))
            if t != "true":
                s_f = o.state.fork()
                nt = symex.simplify_bool(symex.neg(t))
                if nt != "true" and nt not in s_f.pc:
                    s_f.pc.append(nt)
                work.append((j + 1, s_f))
    return res


def st_iter_find(ex, callee, args, st):
    """`iter.find(f)` / `iter.find_map(f)`: f on each element in order; the first element accepted (resp. the first Some) is the result."""
    it = ex.deref(args[0], st)
    cm = re.search(r"(\{closure@[^}]+\})", callee)
    if not isinstance(it, SeqIter) or not cm:
        return _fallback(ex, callee, args, st, f"find over {it!r}")
    f = _closure_fn(ex, cm.group(1))
    is_map = "find_map" in callee
    order = list(range(it.lo, it.hi))
    if it.rev:
        order.reverse()
    res = []
    work = [(0, st)]
    while work:
        j, s1 = work.pop()
        if j >= len(order):
            res.append(("return", Adt("Option", "None", []), None, s1))
            continue
        el = seq_elem(ex, it.seq, order[j])
        # `find` passes `&&T` (a reference to the item, which is itself a reference); references to symbolic values are the values
        for o in ex.run(f, [args[1], el], {}, 1, s1):
            if o.kind != "return":
                res.append((o.kind, o.value, o.info, o.state))
                continue
            v = ex.deref(o.value, o.state)
            if is_map:
                for is_some, payload, s2 in _opt_split(ex, v, o.state):
                    if is_some:
                        res.append(("return", Adt("Option", "Some", [payload]), None, s2))
                    else:
                        work.append((j + 1, s2))
                continue
            if not (isinstance(v, Scalar) and v.sort == "bool"):
                raise Unsupported(f"find: closure returned {v!r}")
            t = symex.simplify_bool(v.term)
            if t != "false":
                s_t = o.state.fork()
                if t != "true" and t not in s_t.pc:
                    s_t.pc.append(t)
                res.append(("return", Adt("Option", "Some", [el]), None, s_t))
            if t != "true":
                s_f = o.state.fork()
                nt = symex.simplify_bool(symex.neg(t))
                if nt != "true" and nt not in s_f.pc:
                    s_f.pc.append(nt)
                work.append((j + 1, s_f))
    return res


def st_range_next(ex, callee, args, st):
    """`Range<usize>::next` on a range whose bounds are literals on this path (loop counters of `for _ in 0..n` with a fixed n)"""
    ref = args[0]
    rg = ex.deref(ref, st)
    if not (isinstance(rg, Adt) and len(rg.fields) == 2 and isinstance(ref, Ref)):
        return _fallback(ex, callee, args, st, f"next on {rg!r}")
    vals = [f[1] if isinstance(f, tuple) else f for f in rg.fields]
    lits = [symex._int_lit(v.term) if isinstance(v, Scalar) else None for v in vals]
    if None in lits:
        return _fallback(ex, callee, args, st, f"next on a range with symbolic bounds {rg!r}")
    lo, hi = lits
    if lo >= hi:
        return _ret(Adt("Option", "None", []), st)
    st2 = st.fork()
    names = [f[0] if isinstance(f, tuple) else None for f in rg.fields]
    new_lo = S("int", str(lo + 1), 64, False)
    fields = [(names[0], new_lo) if names[0] is not None else new_lo, rg.fields[1]]
    r = ref
    while isinstance(ex._load(r.frame, r.place, st2), Ref):
        r = ex._load(r.frame, r.place, st2)
    ex._store(r.frame, r.place, Adt(rg.ty, rg.variant, fields), st2)
    return _ret(Adt("Option", "Some", [S("int", str(lo), 64, False)]), st2)


class FilterMapIter(symex.Val):
    def __init__(self, inner, env, ctext):
        self.inner, self.env, self.ctext = inner, env, ctext

    def __repr__(self):
        return f"filter_map<{self.inner!r}>"


def st_iter_filter_map(ex, callee, args, st):
    it = ex.deref(args[0], st)
    cm = re.search(r"(\{closure@[^}]+\})", callee)
    if not isinstance(it, SeqIter) or not cm:
        return _fallback(ex, callee, args, st, f"filter_map over {it!r}")
    return _ret(FilterMapIter(it, args[1], cm.group(1)), st)


def st_collect_filter_map(ex, callee, args, st):
    """`iter.filter_map(f).collect::<Vec<_>>()`: the payloads of the Some results, in order"""
    fm = ex.deref(args[0], st)
    if not isinstance(fm, FilterMapIter) or fm.inner.rev:
        return _fallback(ex, callee, args, st, f"collect of {fm!r}")
    f = _closure_fn(ex, fm.ctext)
    res, work = [], [(fm.inner.lo, [], st)]
    while work:
        k, acc, s1 = work.pop()
        if k >= fm.inner.hi:
            res.append(("return", Adt("Vec", "lit", acc), None, s1))
            continue
        for o in ex.run(f, [fm.env, iter_elem(ex, fm.inner, k)], {}, 1, s1):
            if o.kind != "return":
                res.append((o.kind, o.value, o.info, o.state))
                continue
            for is_some, payload, s2 in _opt_split(ex, o.value, o.state):
                work.append((k + 1, acc + [payload] if is_some else acc, s2))
    return res


def st_vec_pop(ex, callee, args, st):
    cur = ex.deref(args[0], st)
    if not (isinstance(cur, Adt) and cur.ty == "Vec" and cur.variant == "lit" and isinstance(args[0], Ref)):
        return _fallback(ex, callee, args, st, f"pop from {cur!r}")
    if not cur.fields:
        return _ret(Adt("Option", "None", []), st)
    st2 = st.fork()
    r = args[0]
    while isinstance(ex._load(r.frame, r.place, st2), Ref):
        r = ex._load(r.frame, r.place, st2)
    ex._store(r.frame, r.place, Adt("Vec", "lit", list(cur.fields[:-1])), st2)
    return _ret(Adt("Option", "Some", [cur.fields[-1]]), st2)


def st_slice_last(ex, callee, args, st):
    seq = ex.deref(args[0], st)
    if not isinstance(seq, Sym) or not getattr(ex, "model_sequences", False):
        return _fallback(ex, callee, args, st, f"last of {seq!r}")
    return [("return", Adt("Option", "Some", [seq_elem(ex, seq, n - 1)]) if n > 0 else Adt("Option", "None", []), None, st2)
            for n, st2 in seq_lengths(ex, seq, st)]


def st_opt_unwrap_or_else(ex, callee, args, st):
    cm = re.search(r"(\{closure@[^}]+\})", callee)
    res = []
    for some, payload, st2 in _opt_split(ex, args[0], st):
        if some:
            res.append(("return", payload, None, st2))
        elif cm:
            for o in ex.run(_closure_fn(ex, cm.group(1)), [args[1]], {}, 1, st2):
                res.append((o.kind, o.value, o.info, o.state))
        else:
            raise Unsupported(f"unwrap_or_else with {callee}")
    return res


def st_seq_is_empty(ex, callee, args, st):
    seq = ex.deref(args[0], st)
    if isinstance(seq, Adt) and seq.ty == "Vec" and seq.variant == "lit":
        return _ret(S("bool", "true" if not seq.fields else "false"), st)
    if not isinstance(seq, Sym) or not getattr(ex, "model_sequences", False):
        return _fallback(ex, callee, args, st, f"is_empty of {seq!r}")
    return [("return", S("bool", "true" if n == 0 else "false"), None, st2) for n, st2 in seq_lengths(ex, seq, st)]


def st_seq_len(ex, callee, args, st):
    seq = ex.deref(args[0], st)
    if isinstance(seq, Adt) and seq.ty == "Vec" and seq.variant == "lit":
        return _ret(S("int", ex.enc.int_const(len(seq.fields))), st)
    if not isinstance(seq, Sym) or not getattr(ex, "model_sequences", False):
        return _fallback(ex, callee, args, st, f"len of {seq!r}")
    return [("return", S("int", ex.enc.int_const(n)), None, st2) for n, st2 in seq_lengths(ex, seq, st)]


def st_box_new_uninit(ex, callee, args, st):
    return _ret(Adt("BoxUninit", None, [Opaque("uninit")]), st)


def st_box_into_vec(ex, callee, args, st):
    b = ex.deref(args[0], st)
    if isinstance(b, Adt) and b.ty == "BoxUninit":
        arr = ex.deref(b.fields[0], st)
        if isinstance(arr, symex.Tup):
            return _ret(Adt("Vec", "lit", list(arr.items)), st)
    raise Unsupported(f"into_vec of {b!r}")


STATE_INTRINSICS = {
    r"^<(std::vec::)?Vec<.*> as (std::ops::)?Deref>::deref$": st_vec_deref,
    r"^core::slice::<impl \[.*\]>::iter$": st_slice_iter,
    r"^<(std::slice::)?Iter<.*> as (std::iter::)?Iterator>::rev$": st_iter_rev,
    r"^<.* as (std::iter::)?IntoIterator>::into_iter$": st_into_iter,
    r"^<(Rev<)?(std::slice::)?Iter<.*>>? as (std::iter::)?Iterator>::next$": st_iter_next,
    r"^<(std::slice::)?Iter<.*> as (std::iter::)?Iterator>::map::<.*>$": st_iter_map,
    r"^<Map<.*> as (std::iter::)?Iterator>::collect::<(std::result::)?Result<(std::vec::)?Vec<.*>, .*>>$": st_collect_result_vec,
    r"RepAsIteratorExt<.*>>::quote_into_iter$": st_quote_into_iter,
    r"quote::__private::HasIterator<.*> as .*>::(bitor|check)$": st_unit,
    r"^<quote::__private::RepInterp<.*> as (quote::)?ToTokens>::to_tokens$": st_rep_to_tokens,
    r"^<(std::vec::)?Vec<.*> as (std::ops::)?DerefMut>::deref_mut$": st_vec_deref,
    r"^<(Rev<)?(std::slice::)?Iter<.*>>? as (std::iter::)?Iterator>::any::<.*>$": st_iter_any,
    r"^<(Rev<)?(std::slice::)?Iter<.*>>? as (std::iter::)?Iterator>::(find|find_map)::<.*>$": st_iter_find,
    r"^core::slice::<impl \[.*\]>::(last|last_mut)$": st_slice_last,
    r"Option::<.*>::unwrap_or_else::<.*>$": st_opt_unwrap_or_else,
    r"Option::<.*>::(copied|cloned)$": st_clone,
    r"^(std::vec::)?Vec::<.*>::is_empty$|^core::slice::<impl \[.*\]>::is_empty$": st_seq_is_empty,
    r"^(std::vec::)?Vec::<.*>::len$|^core::slice::<impl \[.*\]>::len$": st_seq_len,
    r"^<Map<.*> as (std::iter::)?Iterator>::collect::<(std::result::)?Result<_, .*>>$": st_collect_result_vec,
    r"^<Map<.*> as (std::iter::)?Iterator>::collect::<(std::vec::)?Vec<.*>>$": st_collect_vec,
    r"^<(std::slice::)?Iter<.*> as (std::iter::)?Iterator>::enumerate$": st_iter_enumerate,
    r"^<(std::slice::)?Iter<.*> as (std::iter::)?Iterator>::filter::<.*>$": st_iter_filter,
    r"^<Filter<.*> as (std::iter::)?Iterator>::cloned::<.*>$": st_filter_cloned,
    r"^<(Cloned<)?Filter<.*>>? as (std::iter::)?Iterator>::collect::<(std::vec::)?Vec<.*>>$": st_collect_filter,
    r"^<(std::iter::)?Enumerate<.*> as (std::iter::)?Iterator>::map::<.*>$": st_iter_map,
    r"^<(std::iter::)?Enumerate<(std::slice::)?Iter<.*>> as (std::iter::)?Iterator>::next$": st_iter_next,
    r"^(std::vec::)?Vec::<.*>::new$": st_vec_new,
    r"^(std::vec::)?Vec::<.*>::push$": st_vec_push,
    r"^(std::vec::)?Vec::<.*>::pop$": st_vec_pop,
    r"^<(std::ops::)?Range<usize> as (std::iter::)?Iterator>::next$": st_range_next,
    r"^<(std::slice::)?Iter<.*> as (std::iter::)?Iterator>::filter_map::<.*>$": st_iter_filter_map,
    r"^<FilterMap<.*> as (std::iter::)?Iterator>::collect::<(std::vec::)?Vec<.*>>$": st_collect_filter_map,
    r"^<(std::vec::)?Vec<.*> as (std::ops::)?Index<usize>>::index$": st_vec_index,
    r"^core::slice::<impl \[.*\]>::get::<usize>$": st_slice_get,
    r"HashSet::<(std::string::)?String>::new$": st_set_new,
    r"HashSet::<(std::string::)?String>::insert$": st_set_insert,
    r"HashSet::<(std::string::)?String>::contains::<.*>$": st_set_contains,
    r"HashSet::<(std::string::)?String>::is_empty$": st_set_is_empty,
    r"HashMap::<(std::string::)?String, .*>::get::<.*>$": st_symmap_get,
    r"^<&(std::collections::)?HashMap<(std::string::)?String, .*> as (std::iter::)?IntoIterator>::into_iter$": st_symmap_into_iter,
    r"^<(std::collections::)?hash_map::Iter<.*> as (std::iter::)?Iterator>::next$": st_iter_next,
    r"HashMap::<&str, .*>::contains_key::<.*>$": st_map_contains_key,
    r"HashMap::<&str, .*>::new$": st_map_new,
    r"HashMap::<&str, .*>::insert$": st_map_insert,
    r"HashMap::<&str, .*>::get::<.*>$": st_map_get,
    r"^<(std::option::)?Option<[\w:]+> as (std::cmp::)?PartialEq>::(eq|ne)$": st_option_enum_eq,
    r"Option::<.*>::and_then::<.*>$": st_opt_and_then,
    r"Option::<.*>::filter::<.*>$": st_opt_filter,
    r"Option::<.*>::(is_some_and|is_none_or)::<.*>$": st_opt_is_some_and,
    r"Option::<(std::string::)?String>::as_deref$": st_clone,
    r"^(std::string::)?String::as_str$": st_clone,
    r"^<str as (std::string::)?ToString>::to_string$": st_str_to_string,
    r"^<(std::string::)?String as (std::ops::)?Deref>::deref$": st_clone,
    r"Box::<\[.*; \d+\]>::new_uninit$": st_box_new_uninit,
    r"box_assume_init_into_vec_unsafe::<.*>$": st_box_into_vec,
    r"(^|::)Box::<.*>::new$": st_clone,
    r"Option::<.*>::as_ref$": st_clone,
    r"Option::<.*>::map::<.*>$": st_opt_map,
    r"Option::<.*>::transpose$": st_opt_transpose,
    r"Option::<.*>::(expect|unwrap)$": st_opt_expect,
    r"Option::<.*>::is_some$": st_opt_is(True),
    r"Option::<.*>::is_none$": st_opt_is(False),
    r"Option::<.*>::unwrap_or$": st_opt_unwrap_or,
    r"as (std::ops::)?Try>::branch$": st_try_branch,
    r"as (std::ops::)?FromResidual<.*>>::from_residual$": st_from_residual,
    r"^<std::boxed::Box<.*> as (std::convert::)?AsRef<.*>>::as_ref$": st_clone,
    r"^<std::boxed::Box<.*> as (std::ops::)?Deref>::deref$": st_clone,
    r"^<std::boxed::Box<.*> as (std::borrow::)?Borrow<.*>>::borrow$": st_clone,
    r"as (std::clone::)?Clone>::clone$": st_clone,
    r"(^|::)TokenStream::new$": st_tokens_new,
    r"quote::__private::push_\w+$": st_quote_push,
    r"quote::__private::parse$": st_quote_push,
    r"<TokenStream as (quote::)?ToTokens>::to_tokens$": st_to_tokens,
    r"intrinsics::discriminant_value": st_discriminant_value,
    r"(^|::)panic(king)?(::\w+)*(::<.*>)?$": st_panic,
    r"core::panicking::": st_panic,
    r"unreachable_display|panic_fmt|panic_explicit|unwrap_failed|expect_failed": st_panic,
}


def short(callee):
    c = symex.strip_generics(callee)
    c = re.sub(r"<impl at [^>]*>::", "", c)
    return "::".join(c.split("::")[-2:]) if "::" in c else c


def slice_opaque(ex, callee, args, st):
    """Un-modelled call inside a slice: an event `(callee, shown args)` and an arbitrary result of the destination type."""
    if getattr(ex, "diverging", False):
        return [("panic", None, "diverging call " + callee, st)]
    st2 = st.fork()
    t = (ex.dest_type or "").strip()
    ex.sym_counter += 1
    nm = f"ev{ex.sym_counter}"
    budget = getattr(ex, "event_budget", None)
    if budget is not None and t == "bool" and len(st.events) >= budget:
        # bounded exploration of token loops: beyond the budget no further token matches (recorded as a truncation)
        ex.truncated = getattr(ex, "truncated", set()) | {"event budget"}
        st2.events.append((short(callee), tuple(show(a, ex, st) for a in args), "false"))
        return [("return", S("bool", "false"), None, st2)]
    st2.events.append((short(callee), tuple(show(a, ex, st) for a in args), nm))
    if t == "bool":
        v = ex.enc.bool_var(nm)
    elif t in ("()", ""):
        v = Unit()
    else:
        try:
            v = ex.sym_value(t, nm)
        except Unsupported:
            v = Opaque(nm)
    return [("return", v, None, st2)]


def make_executor(program, types, enc=None, max_paths=200000):
    enc = enc or symex.Enc("int")
    ex = symex.Executor(program, enc, max_paths=max_paths, intrinsics=symex.NUMERIC_INTRINSICS, types=types)
    ex.state_intrinsics = STATE_INTRINSICS
    return ex


def show(v, ex=None, st=None):
    """Canonical text of a value (for comparing outcomes)."""
    if ex is not None and st is not None:
        v = ex.deref(v, st)
    if isinstance(v, Adt):
        fs = ", ".join((f"{f[0]}: {show(f[1], ex, st)}" if isinstance(f, tuple) else show(f, ex, st)) for f in v.fields)
        return f"{v.ty}" + (f"::{v.variant}" if v.variant else "") + (f"({fs})" if v.fields else "")
    if isinstance(v, Tokens):
        return "`" + " ".join(v.toks) + "`"
    if isinstance(v, Scalar):
        return v.term
    if isinstance(v, symex.Tup):
        return "(" + ", ".join(show(x, ex, st) for x in v.items) + ")"
    return repr(v)
