"""E2-X: enum-level symbolic execution of the compiler's pure "mapping" functions from the whole-crate MIR dump.
Values of enum/struct types are symbolic (tag + lazily created fields, types read from the sources); `quote!`
expansions are modelled as token pushes into a TokenStream value, so every feasible path carries the tokens it
emits."""
import re

import symex
from mir import Unsupported
from symex import Adt, Opaque, Ref, S, Scalar, Sym, Tokens, Unit


def _ret(v, st):
    return [("return", v, None, st)]


def st_clone(ex, callee, args, st):
    return _ret(ex.deref(args[0], st), st)


def st_tokens_new(ex, callee, args, st):
    return _ret(Tokens(), st)


def _push(ex, ref, toks, st):
    st2 = st.fork()
    if not isinstance(ref, Ref):
        raise Unsupported("token push into a TokenStream that is not a local")
    cur = ex.deref(ref, st2)
    if not isinstance(cur, Tokens):
        raise Unsupported(f"token push into non-TokenStream {cur!r}")
    ex._store(ref.frame, ref.place, Tokens(cur.toks + tuple(toks)), st2)
    return st2


PUNCT = {"push_colon2": "::", "push_dot": ".", "push_add": "+", "push_sub": "-", "push_star": "*", "push_div": "/",
         "push_rem": "%", "push_eq_eq": "==", "push_ne": "!=", "push_lt": "<", "push_le": "<=", "push_gt": ">", "push_ge": ">=",
         "push_and_and": "&&", "push_or_or": "||", "push_and": "&", "push_or": "|", "push_caret": "^", "push_shl": "<<",
         "push_shr": ">>", "push_comma": ",", "push_semi": ";", "push_colon": ":", "push_eq": "=", "push_bang": "!",
         "push_question": "?", "push_pound": "#", "push_rarrow": "->", "push_fat_arrow": "=>", "push_underscore": "_",
         "push_add_eq": "+=", "push_sub_eq": "-=", "push_mul_eq": "*=", "push_div_eq": "/=", "push_rem_eq": "%=",
         "push_dot2": "..", "push_dot_dot_eq": "..=", "push_at": "@", "push_tilde": "~", "push_dollar": "$"}


def st_quote_push(ex, callee, args, st):
    name = callee.split("::")[-1]
    name = re.sub(r"_spanned$", "", name)
    if name in ("push_ident", "push_lifetime"):
        arg = ex.deref(args[-1], st)
        txt = arg.text if isinstance(arg, Opaque) else repr(arg)
        m = re.match(r'^const "(.*)"$', txt)
        tok = m.group(1) if m else f"<{txt}>"
        return _ret(Unit(), _push(ex, args[0], [tok], st))
    if name == "push_group":
        delim = ex.deref(args[-2], st)
        inner = ex.deref(args[-1], st)
        d = repr(delim)
        op, cl = ("(", ")") if "Parenthesis" in d else ("{", "}") if "Brace" in d else ("[", "]") if "Bracket" in d else ("", "")
        toks = [op] + (list(inner.toks) if isinstance(inner, Tokens) else [f"<{inner!r}>"]) + [cl]
        return _ret(Unit(), _push(ex, args[0], toks, st))
    if name in PUNCT:
        return _ret(Unit(), _push(ex, args[0], [PUNCT[name]], st))
    if name == "parse":
        arg = ex.deref(args[-1], st)
        return _ret(Unit(), _push(ex, args[0], [f"<parse {arg!r}>"], st))
    raise Unsupported("quote helper " + callee)


def st_to_tokens(ex, callee, args, st):
    src = ex.deref(args[0], st)
    if isinstance(src, Tokens):
        toks = list(src.toks)
    else:
        toks = [f"<tokens of {src!r}>"]
    return _ret(Unit(), _push(ex, args[1], toks, st))


def st_discriminant_value(ex, callee, args, st):
    return _ret(ex._discriminant(ex.deref(args[0], st)), st)


def st_panic(ex, callee, args, st):
    return [("panic", None, "panic: " + callee, st)]


def _opt_split(ex, v, st):
    """-> [(is_some: bool, payload, state)] for an Option value (concrete or symbolic)"""
    v = ex.deref(v, st)
    if isinstance(v, Adt):
        if v.variant == "Some":
            f = v.fields[0]
            return [(True, f[1] if isinstance(f, tuple) else f, st)]
        return [(False, None, st)]
    if isinstance(v, Sym):
        t = v.tag()
        out = []
        for k, some in ((0, False), (1, True)):
            st2 = ex._assume_switch(st, t, str(k), [])
            if st2 is not None:
                out.append((some, v.child("Some", 0) if some else None, st2))
        return out
    raise Unsupported(f"Option operation on {v!r}")


def st_opt_expect(ex, callee, args, st):
    res = []
    for some, payload, st2 in _opt_split(ex, args[0], st):
        if some:
            res.append(("return", payload, None, st2))
        else:
            res.append(("panic", None, "panic: " + symex.strip_generics(callee) + " on None", st2))
    return res


def st_opt_is(which):
    def h(ex, callee, args, st):
        return [("return", S("bool", "true" if some == which else "false"), None, st2) for some, _, st2 in _opt_split(ex, args[0], st)]
    return h


def st_opt_unwrap_or(ex, callee, args, st):
    return [("return", payload if some else args[1], None, st2) for some, payload, st2 in _opt_split(ex, args[0], st)]


def st_opt_map(ex, callee, args, st):
    """Option::map(opt, f): f is a capture-less fn item (`Box::new`) or a closure whose body is in the dump."""
    res = []
    cm = re.search(r"(\{closure@[^}]+\})", callee)
    for some, payload, st2 in _opt_split(ex, args[0], st):
        if not some:
            res.append(("return", Adt("Option", "None", []), None, st2))
            continue
        if cm:
            ctext = cm.group(1)
            cands = [f for f in ex.p.fns.values() if f.params and ctext in f.params[0][1] and "{closure#" in f.name]
            if len(cands) != 1:
                raise Unsupported(f"cannot resolve closure of {callee}")
            for o in ex.run(cands[0], [args[1], payload], {}, 1, st2):
                if o.kind == "return":
                    res.append(("return", Adt("Option", "Some", [o.value]), None, o.state))
                else:
                    res.append((o.kind, o.value, o.info, o.state))
        elif re.search(r"\{(std::boxed::|alloc::boxed::)?Box::<.*>::new\}>$", callee):
            res.append(("return", Adt("Option", "Some", [payload]), None, st2))
        else:
            raise Unsupported(f"Option::map with {callee}")
    return res


def st_opt_transpose(ex, callee, args, st):
    res = []
    for some, payload, st2 in _opt_split(ex, args[0], st):
        if not some:
            res.append(("return", Adt("Result", "Ok", [Adt("Option", "None", [])]), None, st2))
            continue
        v = ex.deref(payload, st2)
        if isinstance(v, Adt) and v.variant == "Ok":
            f = v.fields[0]
            res.append(("return", Adt("Result", "Ok", [Adt("Option", "Some", [f[1] if isinstance(f, tuple) else f])]), None, st2))
        elif isinstance(v, Adt) and v.variant == "Err":
            res.append(("return", Adt("Result", "Err", list(v.fields)), None, st2))
        elif isinstance(v, Sym) and v.tdef is not None and v.tdef.name == "Result":
            s_ok = ex._assume_switch(st2, v.tag(), "0", [])
            if s_ok is not None:
                res.append(("return", Adt("Result", "Ok", [Adt("Option", "Some", [v.child("Ok", 0)])]), None, s_ok))
            s_err = ex._assume_switch(st2, v.tag(), "1", [])
            if s_err is not None:
                res.append(("return", Adt("Result", "Err", [v.child("Err", 0)]), None, s_err))
        else:
            raise Unsupported(f"transpose of {v!r}")
    return res


def st_try_branch(ex, callee, args, st):
    v = ex.deref(args[0], st)
    if isinstance(v, Adt) and v.variant in ("Ok", "Some"):
        f = v.fields[0]
        return _ret(Adt("ControlFlow", "Continue", [f[1] if isinstance(f, tuple) else f]), st)
    if isinstance(v, Adt) and v.variant == "Err":
        return _ret(Adt("ControlFlow", "Break", [Adt("Result", "Err", list(v.fields))]), st)
    if isinstance(v, Adt) and v.variant == "None":
        return _ret(Adt("ControlFlow", "Break", [Adt("Option", "None", [])]), st)
    if isinstance(v, Sym) and v.tdef is not None and v.tdef.name == "Result":
        out = []
        st_ok = ex._assume_switch(st, v.tag(), "0", [])
        if st_ok is not None:
            out.append(("return", Adt("ControlFlow", "Continue", [v.child("Ok", 0)]), None, st_ok))
        st_err = ex._assume_switch(st, v.tag(), "1", [])
        if st_err is not None:
            out.append(("return", Adt("ControlFlow", "Break", [Adt("Result", "Err", [v.child("Err", 0)])]), None, st_err))
        return out
    raise Unsupported(f"`?` on {v!r}")


def st_from_residual(ex, callee, args, st):
    return _ret(ex.deref(args[0], st), st)


STATE_INTRINSICS = {
    r"(^|::)Box::<.*>::new$": st_clone,
    r"Option::<.*>::as_ref$": st_clone,
    r"Option::<.*>::map::<.*>$": st_opt_map,
    r"Option::<.*>::transpose$": st_opt_transpose,
    r"Option::<.*>::(expect|unwrap)$": st_opt_expect,
    r"Option::<.*>::is_some$": st_opt_is(True),
    r"Option::<.*>::is_none$": st_opt_is(False),
    r"Option::<.*>::unwrap_or$": st_opt_unwrap_or,
    r"as (std::ops::)?Try>::branch$": st_try_branch,
    r"as (std::ops::)?FromResidual<.*>>::from_residual$": st_from_residual,
    r"^<std::boxed::Box<.*> as (std::convert::)?AsRef<.*>>::as_ref$": st_clone,
    r"^<std::boxed::Box<.*> as (std::ops::)?Deref>::deref$": st_clone,
    r"^<std::boxed::Box<.*> as (std::borrow::)?Borrow<.*>>::borrow$": st_clone,
    r"as (std::clone::)?Clone>::clone$": st_clone,
    r"(^|::)TokenStream::new$": st_tokens_new,
    r"quote::__private::push_\w+$": st_quote_push,
    r"quote::__private::parse$": st_quote_push,
    r"<TokenStream as (quote::)?ToTokens>::to_tokens$": st_to_tokens,
    r"intrinsics::discriminant_value": st_discriminant_value,
    r"(^|::)panic(king)?(::\w+)*(::<.*>)?$": st_panic,
    r"core::panicking::": st_panic,
    r"unreachable_display|panic_fmt|panic_explicit|unwrap_failed|expect_failed": st_panic,
}


def short(callee):
    c = symex.strip_generics(callee)
    c = re.sub(r"<impl at [^>]*>::", "", c)
    return "::".join(c.split("::")[-2:]) if "::" in c else c


def slice_opaque(ex, callee, args, st):
    """Un-modelled call inside a slice: an event `(callee, shown args)` and an arbitrary result of the destination type."""
    if getattr(ex, "diverging", False):
        return [("panic", None, "diverging call " + callee, st)]
    st2 = st.fork()
    t = (ex.dest_type or "").strip()
    ex.sym_counter += 1
    nm = f"ev{ex.sym_counter}"
    budget = getattr(ex, "event_budget", None)
    if budget is not None and t == "bool" and len(st.events) >= budget:
        # bounded exploration of token loops: beyond the budget no further token matches (recorded as a truncation)
        ex.truncated = getattr(ex, "truncated", set()) | {"event budget"}
        st2.events.append((short(callee), tuple(show(a, ex, st) for a in args), "false"))
        return [("return", S("bool", "false"), None, st2)]
    st2.events.append((short(callee), tuple(show(a, ex, st) for a in args), nm))
    if t == "bool":
        v = ex.enc.bool_var(nm)
    elif t in ("()", ""):
        v = Unit()
    else:
        try:
            v = ex.sym_value(t, nm)
        except Unsupported:
            v = Opaque(nm)
    return [("return", v, None, st2)]


def make_executor(program, types, enc=None, max_paths=200000):
    enc = enc or symex.Enc("int")
    ex = symex.Executor(program, enc, max_paths=max_paths, intrinsics=symex.NUMERIC_INTRINSICS, types=types)
    ex.state_intrinsics = STATE_INTRINSICS
    return ex


def show(v, ex=None, st=None):
    """Canonical text of a value (for comparing outcomes)."""
    if ex is not None and st is not None:
        v = ex.deref(v, st)
    if isinstance(v, Adt):
        fs = ", ".join((f"{f[0]}: {show(f[1], ex, st)}" if isinstance(f, tuple) else show(f, ex, st)) for f in v.fields)
        return f"{v.ty}" + (f"::{v.variant}" if v.variant else "") + (f"({fs})" if v.fields else "")
    if isinstance(v, Tokens):
        return "`" + " ".join(v.toks) + "`"
    if isinstance(v, Scalar):
        return v.term
    if isinstance(v, symex.Tup):
        return "(" + ", ".join(show(x, ex, st) for x in v.items) + ")"
    return repr(v)
