"""Regenerate MIR text from /repo's current working tree (never cached across runs)."""
import os
import subprocess
import time

CRATES = {
    "incan_core": "crates/incan_core",
    "incan_stdlib": "crates/incan_stdlib",
    "incan_syntax": "crates/incan_syntax",
    "incan": ".",
}


class DumpError(Exception):
    pass


def dump_mir(crate, repo="/repo", work="/verif/work/mir", timeout=1500):
    """`cargo +nightly rustc --lib -- -Zunpretty=mir` for one crate of the working tree. A fresh `--cfg` nonce makes
    cargo recompile exactly that crate (and so print its MIR) without touching any file in /repo."""
    os.makedirs(work, exist_ok=True)
    nonce = f"verif_nonce_{int(time.time() * 1000)}_{os.getpid()}"
    env = dict(os.environ)
    env.update({"CARGO_NET_OFFLINE": "true", "CARGO_TARGET_DIR": os.path.join(work, "target")})
    env.pop("RUSTFLAGS", None)
    cmd = ["cargo", "+nightly", "rustc", "--offline", "--lib", "--", "-Zunpretty=mir", "-C", "debug-assertions=off",
           "-C", "overflow-checks=on", "--cfg", nonce, "-A", "unexpected_cfgs"]
    t0 = time.time()
    p = subprocess.run(cmd, cwd=os.path.join(repo, CRATES[crate]), env=env, capture_output=True, text=True,
                       timeout=timeout)
    if p.returncode != 0 or "fn " not in p.stdout:
        raise DumpError(f"MIR dump of {crate} failed (rc={p.returncode}): " + "\n".join(p.stderr.splitlines()[-25:]))
    path = os.path.join(work, crate + ".mir")
    with open(path, "w") as f:
        f.write(p.stdout)
    return p.stdout, time.time() - t0, path
