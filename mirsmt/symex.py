"""Symbolic execution of loop-free MIR bodies into SMT-LIB terms.

A function is executed path by path (the bodies handled here are small DAGs); calls to other dumped functions are
inlined, generic calls are resolved through the impl table, a few std functions are modelled as intrinsics, calls
to diverging functions end the path with a `panic` outcome.  The result of executing a function on symbolic
arguments is a list of Outcome(path condition, kind, value) — its complete input/output relation within the
encoding named by `Enc`.
"""
import re

from mir import (BINOPS, UNOPS, Place, Unsupported, parse_call, parse_operand, parse_place, split_top)


# ---- values ---------------------------------------------------------------------------------------------

class Val:
    pass


class Scalar(Val):
    def __init__(self, sort, term):
        self.sort = sort      # 'bool' | 'int' (machine integer; width in .bits) | 'fp'
        self.term = term
        self.bits = 64
        self.signed = True

    def __repr__(self):
        return f"{self.sort}:{self.term}"


def S(sort, term, bits=64, signed=True):
    v = Scalar(sort, term)
    v.bits = bits
    v.signed = signed
    return v


class Tup(Val):
    def __init__(self, items):
        self.items = list(items)

    def __repr__(self):
        return "(" + ", ".join(map(repr, self.items)) + ")"


class Adt(Val):
    """An enum/struct value with a known constructor."""

    def __init__(self, ty, variant, fields):
        self.ty = ty
        self.variant = variant
        self.fields = list(fields)   # Val or (name, Val)

    def __repr__(self):
        return f"{self.ty}::{self.variant}{self.fields}"


class Opaque(Val):
    """A value we do not interpret (result of an un-modelled call); compared syntactically."""

    def __init__(self, text):
        self.text = text

    def __repr__(self):
        return f"opaque<{self.text}>"


class Unit(Val):
    def __repr__(self):
        return "()"


class Outcome:
    def __init__(self, pc, kind, value=None, info=None, events=None):
        self.pc = pc          # list of bool terms
        self.kind = kind      # 'return' | 'panic'
        self.value = value
        self.info = info      # panic: description
        self.events = events or []

    def cond(self):
        return conj(self.pc)

    def __repr__(self):
        return f"Outcome({self.kind}, pc={self.pc}, value={self.value}, info={self.info})"


def conj(ts):
    ts = [t for t in ts if t != "true"]
    if not ts:
        return "true"
    if len(ts) == 1:
        return ts[0]
    return "(and " + " ".join(ts) + ")"


def disj(ts):
    if not ts:
        return "false"
    if len(ts) == 1:
        return ts[0]
    return "(or " + " ".join(ts) + ")"


def neg(t):
    if t == "true":
        return "false"
    if t == "false":
        return "true"
    return f"(not {t})"


# ---- encodings of machine numbers -----------------------------------------------------------------------

class Enc:
    """int_mode: 'int' (mathematical integers + range constraints + truncated-division lemma) or 'bv' (bit-exact at
    `int_bits`); floats are (_ FloatingPoint eb sb)."""

    def __init__(self, int_mode="int", int_bits=64, eb=11, sb=53):
        self.int_mode = int_mode
        self.int_bits = int_bits
        self.eb, self.sb = eb, sb
        self.decls = []           # SMT declarations
        self.side = []            # side constraints (ranges, division lemma)
        self.divs = {}            # (a, b) -> (q, r)
        self.counter = 0
        self.shared = {}

    # -- naming
    def fresh(self, base):
        self.counter += 1
        return f"{base}!{self.counter}"

    def share(self, sort, term):
        """Name a large term once (define-fun) so that scripts stay linear in the size of the code."""
        if len(term) < 80:
            return term
        key = (sort, term)
        if key in self.shared:
            return self.shared[key]
        n = self.fresh("t")
        self.decls.append(f"(define-fun {n} () {sort} {term})")
        self.shared[key] = n
        return n

    def name(self):
        if self.int_mode == "int":
            i = "Int+division-lemma (full i64 range)"
        else:
            i = f"BitVec{self.int_bits} (bit-exact)"
        return f"ints: {i}; floats: FloatingPoint({self.eb},{self.sb})"

    # -- integers
    def imin(self, bits=None):
        return -(1 << ((bits or self.int_bits) - 1))

    def imax(self, bits=None):
        return (1 << ((bits or self.int_bits) - 1)) - 1

    def int_sort(self):
        return "Int" if self.int_mode == "int" else f"(_ BitVec {self.int_bits})"

    def int_const(self, n):
        if self.int_mode == "int":
            return str(n) if n >= 0 else f"(- {-n})"
        w = self.int_bits
        return f"(_ bv{n % (1 << w)} {w})"

    def int_var(self, name):
        self.decls.append(f"(declare-const {name} {self.int_sort()})")
        if self.int_mode == "int":
            self.side.append(f"(and (<= {self.int_const(self.imin())} {name}) (<= {name} {self.int_const(self.imax())}))")
        return S("int", name, self.int_bits)

    def bool_var(self, name):
        self.decls.append(f"(declare-const {name} Bool)")
        return S("bool", name)

    def in_range(self, t):
        return f"(and (<= {self.int_const(self.imin())} {t}) (<= {t} {self.int_const(self.imax())}))"

    def wrap(self, t):
        m = 1 << self.int_bits
        h = 1 << (self.int_bits - 1)
        return f"(- (mod (+ {t} {h}) {m}) {h})"

    def arith_ovf(self, op, a, b):
        """-> (wrapped result term, overflow flag term)"""
        if self.int_mode == "int":
            sym = {"Add": "+", "Sub": "-", "Mul": "*"}[op]
            s = f"({sym} {a} {b})"
            ovf = neg(self.in_range(s))
            return f"(ite {ovf} {self.wrap(s)} {s})", ovf
        w = self.int_bits
        sym = {"Add": "bvadd", "Sub": "bvsub", "Mul": "bvmul"}[op]
        ext = (w if op == "Mul" else 1)
        ea = f"((_ sign_extend {ext}) {a})"
        eb = f"((_ sign_extend {ext}) {b})"
        wide = f"({sym} {ea} {eb})"
        res = f"({sym} {a} {b})"
        ovf = f"(not (= {wide} ((_ sign_extend {ext}) {res})))"
        return res, ovf

    def divrem(self, a, b):
        """Truncated division: fresh q, r tied to (a, b) by the lemma (Int mode) or bvsdiv/bvsrem (BV mode)."""
        key = (a, b)
        if key in self.divs:
            return self.divs[key]
        if self.int_mode == "bv":
            qr = (f"(bvsdiv {a} {b})", f"(bvsrem {a} {b})")
        else:
            q, r = self.fresh("q"), self.fresh("r")
            self.decls.append(f"(declare-const {q} Int)")
            self.decls.append(f"(declare-const {r} Int)")
            self.side.append(
                f"(=> (not (= {b} 0)) (and (= {a} (+ (* {q} {b}) {r})) (< (abs {r}) (abs {b})) "
                f"(or (= {r} 0) (= (< {r} 0) (< {a} 0)))))")
            qr = (q, r)
        self.divs[key] = qr
        return qr

    def icmp(self, op, a, b):
        if op == "Eq":
            return f"(= {a} {b})"
        if op == "Ne":
            return f"(not (= {a} {b}))"
        if self.int_mode == "int":
            return f"({ {'Lt': '<', 'Le': '<=', 'Gt': '>', 'Ge': '>='}[op]} {a} {b})"
        return f"({ {'Lt': 'bvslt', 'Le': 'bvsle', 'Gt': 'bvsgt', 'Ge': 'bvsge'}[op]} {a} {b})"

    # -- floats
    def fp_sort(self):
        return f"(_ FloatingPoint {self.eb} {self.sb})"

    def fp_var(self, name):
        self.decls.append(f"(declare-const {name} {self.fp_sort()})")
        return S("fp", name)

    def fp_const(self, text):
        """`0f64`, `-1.5f64`, `1E-10f64`, `inf`? -> term"""
        t = text.replace("_", "")
        m = re.match(r"^(-?)([0-9.]+(?:[eE][-+]?\d+)?)f(?:32|64)$", t)
        if not m:
            raise Unsupported("float constant: " + text)
        from fractions import Fraction
        fr = Fraction(m.group(2))
        if fr == 0:
            return f"(_ {'-' if m.group(1) else '+'}zero {self.eb} {self.sb})"
        real = f"(/ {fr.numerator}.0 {fr.denominator}.0)"
        if m.group(1):
            real = f"(- {real})"
        return f"((_ to_fp {self.eb} {self.sb}) RNE {real})"

    def fmod(self, a, b):
        """Rust `a % b` on floats is C fmod: exact; result has the sign of `a` and magnitude < |b|.
        IEEE remainder r0 = rem(|a|, |b|) lies in [-|b|/2, |b|/2]; fmod = r0 < 0 ? r0 + |b| : r0 (the sum is exactly
        representable because fmod's result always is), then the sign of `a` is copied."""
        r0 = f"(fp.rem (fp.abs {a}) (fp.abs {b}))"
        m = f"(ite (fp.lt {r0} (_ +zero {self.eb} {self.sb})) (fp.add RNE {r0} (fp.abs {b})) {r0})"
        return f"(ite (fp.isNegative {a}) (fp.neg (fp.abs {m})) (fp.abs {m}))"

    def int_to_fp(self, v):
        if self.int_mode == "int":
            return f"((_ to_fp {self.eb} {self.sb}) RNE (to_real {v.term}))"
        return f"((_ to_fp {self.eb} {self.sb}) RNE {v.term})"

    def preamble(self, logic="ALL"):
        return [f"(set-logic {logic})"] + self.decls


# ---- the executor ------------------------------------------------------------------------------------------

class Program:
    """All functions of one or more MIR dumps + the impl table used to resolve trait calls."""

    def __init__(self):
        self.fns = {}
        self.impls = []   # (trait, self_ty, method, fn)
        self.sources = {}

    def add(self, fns, repo_root=None):
        for name, f in fns.items():
            self.fns.setdefault(name, f)
            m = re.search(r"<impl at ([^:>]+):(\d+):(\d+): (\d+):(\d+)>::(\w+)$", name)
            if m and repo_root:
                path, line, method = m.group(1), int(m.group(2)), m.group(6)
                hdr = self._source_line(repo_root, path, line)
                if hdr and "derive(" in hdr and int(m.group(4)) == line:
                    # derive-generated impl: the span covers the trait name inside #[derive(...)]; the type follows
                    trait = hdr[int(m.group(3)) - 1:int(m.group(5)) - 1].strip()
                    tyname = None
                    for k in range(line, line + 12):
                        nxt = self._source_line(repo_root, path, k + 1)
                        tm = re.match(r"\s*(?:pub(?:\([^)]*\))?\s+)?(?:enum|struct)\s+(\w+)", nxt or "")
                        if tm:
                            tyname = tm.group(1)
                            break
                    if trait and tyname:
                        self.impls.append((trait, tyname, method, f))
                    continue
                hm = re.match(r"\s*impl(?:<[^>]*>)?\s+(.+?)\s+for\s+(.+?)\s*\{?\s*$", hdr or "")
                if hm:
                    self.impls.append((norm_ty(hm.group(1)), norm_ty(hm.group(2)), method, f))
                else:
                    hm = re.match(r"\s*impl(?:<[^>]*>)?\s+(.+?)\s*\{?\s*$", hdr or "")
                    if hm:
                        self.impls.append((None, norm_ty(hm.group(1)), method, f))

    def _source_line(self, root, path, line):
        import os
        key = os.path.join(root, path)
        if key not in self.sources:
            try:
                self.sources[key] = open(key).read().split("\n")
            except OSError:
                self.sources[key] = []
        ls = self.sources[key]
        return ls[line - 1] if 0 < line <= len(ls) else None

    def lookup(self, callee):
        """Resolve a call target text to a dumped function: exact name, or a unique function whose path ends with the whole
        given path (never with a shorter suffix of it: `fmt::format` must not resolve to some `...::format`)."""
        c = strip_generics(callee)
        if c in self.fns:
            return self.fns[c]
        if "::" not in c:
            # a bare name only ever resolves exactly (`format` is alloc::fmt::format, not some method) - in this crate or,
            # for re-exported items, at the root of a dependency crate loaded under its crate prefix
            for pre in getattr(self, "crate_prefixes", ("incan_core::",)):
                if pre + c in self.fns:
                    return self.fns[pre + c]
            return None
        cands = [f for n, f in self.fns.items() if n.endswith("::" + c)]
        if len(cands) == 1:
            return cands[0]
        if len(cands) > 1:
            return None
        # the dump prints crate-local paths relative to the crate root; a call may carry a longer (absolute) path
        parts = c.split("::")
        for k in range(1, len(parts) - 1):
            suffix = "::".join(parts[k:])
            if suffix in self.fns and len(parts) - k >= 2:
                return self.fns[suffix]
        return None

    def resolve_inherent(self, callee):
        """`IncanError::<'_>::zero_division` -> the method of `impl IncanError<'a>` named zero_division."""
        im = re.search(r"<impl ([\w:]+)(?:<[^>]*>)?>::(\w+)$", callee)
        if im:
            ty, method = im.group(1).split("::")[-1], im.group(2)
        else:
            c = strip_generics(callee).split("::")
            if len(c) < 2:
                return None
            ty, method = c[-2], c[-1]
        cands = [f for (t, s, m, f) in self.impls if t is None and m == method and type_head(s) == ty]
        return cands[0] if len(cands) == 1 else None

    def resolve_trait_call(self, self_ty, trait, method):
        last = trait.split("::")[-1] if trait else None
        self_ty = re.sub(r"^&\s*('\w+\s+)?(mut\s+)?", "", self_ty.strip())
        c = [f for (t, s, m, f) in self.impls
             if m == method and (s == norm_ty(self_ty) or type_head(s) == type_head(self_ty)) and (t is None or last is None or t.split("::")[-1] == last or
                                                           norm_ty(t).split("::")[-1] == norm_ty(last))]
        if len(c) == 1:
            return c[0]
        # trait with generic args: compare fully
        c2 = [f for (t, s, m, f) in self.impls if m == method and s == norm_ty(self_ty) and t and
              norm_ty(t).split("::")[-1] == norm_ty(trait).split("::")[-1]]
        if len(c2) == 1:
            return c2[0]
        return None


def norm_ty(t):
    t = t.strip()
    t = re.sub(r"\s+", "", t)
    return t


def strip_generics(s):
    """drop turbofish / generic args from a path: `raise::<IncanError<'_>>` -> `raise`"""
    out, depth = [], 0
    i = 0
    while i < len(s):
        c = s[i]
        if c == "<" and (i == 0 or s[i - 1] == ":" or depth > 0) and not s.startswith("<impl", i):
            # turbofish or nested generic
            depth += 1
        elif c == "<" and s.startswith("<impl", i) and depth == 0:
            j = s.index(">", i)
            out.append(s[i:j + 1])
            i = j + 1
            continue
        elif c == ">" and depth > 0:
            depth -= 1
            if depth == 0 and out and "".join(out).endswith("::"):
                del out[-2:]
        elif depth == 0:
            out.append(c)
        i += 1
    return "".join(out)


class PathExplosion(Exception):
    pass


class Ref(Val):
    """A pointer to a place of some frame (only created for `&`/`&mut` of locals; references handed in from outside
    are represented by the referent itself)."""

    def __init__(self, frame, place):
        self.frame = frame
        self.place = place

    def __repr__(self):
        return f"&{self.frame}.{self.place.local}{list(self.place.proj)}"


class Tokens(Val):
    """Model of a proc_macro2::TokenStream under construction: the list of tokens pushed so far."""

    def __init__(self, toks=()):
        self.toks = tuple(toks)

    def __repr__(self):
        return "ts[" + " ".join(map(str, self.toks)) + "]"


class Sym(Val):
    """A symbolic value of an ADT type: tag and fields are created on demand (and cached, so that two reads of the
    same field see the same value)."""

    def __init__(self, ty_text, name, ex, ctx=None):
        self.ty_text = ty_text
        self.name = name
        self.ex = ex
        self.tdef = ex.types.resolve(ty_text, ctx)      # TypeDef or None (opaque)
        self._tag = None
        self._children = {}

    def __repr__(self):
        return f"sym<{self.name}:{type_head(self.ty_text)}>"

    def tag(self):
        if self.tdef is None or self.tdef.kind != "enum":
            raise Unsupported(f"discriminant of non-enum symbolic value {self!r} ({self.ty_text})")
        if self._tag is None:
            e = self.ex.enc
            t = f"{self.name}!tag"
            e.decls.append(f"(declare-const {t} Int)")
            e.side.append(f"(and (<= 0 {t}) (< {t} {len(self.tdef.variants)}))")
            self._tag = S("tag", t)
            self._tag.owner = self
        return self._tag

    def child(self, variant, idx):
        key = (variant, idx)
        if key not in self._children:
            if self.tdef is None:
                raise Unsupported(f"field of opaque symbolic value {self!r}")
            fty = self.tdef.field_type(variant, idx, self.ty_text)
            nm = f"{self.name}.{variant + '.' if variant else ''}{idx}"
            self._children[key] = self.ex.sym_value(fty, nm, self.tdef.modpath)
            hook = getattr(self.ex, "child_axiom", None)
            if hook:
                hook(self, variant, idx, self._children[key])
        return self._children[key]


class State:
    __slots__ = ("store", "pc", "facts", "events")

    def __init__(self, store=None, pc=None, facts=None, events=None):
        self.store = store if store is not None else {}
        self.pc = pc if pc is not None else []
        self.facts = facts if facts is not None else {}     # tag term -> ('eq', k) | ('ne', {k..})
        self.events = events if events is not None else []

    def fork(self):
        return State({f: dict(l) for f, l in self.store.items()}, list(self.pc), dict(self.facts), list(self.events))


class Executor:
    def __init__(self, program, enc, max_paths=20000, intrinsics=None, opaque_calls=None, types=None):
        self.p = program
        self.enc = enc
        self.max_paths = max_paths
        self.paths = 0
        self.encoded = []
        self.intrinsics = intrinsics or {}
        self.opaque_calls = opaque_calls
        self.types = types
        self.frame_counter = 0
        self.sym_counter = 0

    # ---- symbolic inputs ---------------------------------------------------------------------------------
    def sym_value(self, ty_text, name, ctx=None):
        """A fully symbolic value of the given Rust type."""
        t = ty_text.strip()
        while t.startswith("&"):
            t = re.sub(r"^&\s*('\w+\s+)?(mut\s+)?", "", t)
        m = re.match(r"^(?:std::boxed::|alloc::boxed::)?Box<(.*)>$", t)
        if m:
            return self.sym_value(m.group(1), name, ctx)
        e = self.enc
        nm = re.sub(r"[^A-Za-z0-9_.!]", "_", name)
        if t in ("i64", "isize", "i32", "i128", "usize", "u64", "u32", "u8"):
            v = e.int_var(nm)
            if t.startswith("u") and e.int_mode == "int":
                e.side.append(f"(>= {v.term} 0)")       # unsigned
            return v
        if t == "bool":
            return e.bool_var(nm)
        if t in ("f64", "f32"):
            return e.fp_var(nm)
        if t == "()":
            return Unit()
        if t.startswith("(") and t.endswith(")"):
            return Tup([self.sym_value(x, f"{nm}.{k}", ctx) for k, x in enumerate(split_top(t[1:-1]))])
        if self.types is None:
            return Opaque(nm)
        return Sym(t, nm, self, ctx)

    # ---- entry -------------------------------------------------------------------------------------------
    def run(self, fn, args, subst=None, depth=0, state=None):
        """Execute `fn` on argument values; returns [Outcome] (Outcome.state carries the final store/facts)."""
        if depth > 24:
            raise Unsupported("call depth > 24 in " + fn.name)
        stack = getattr(self, "call_stack", None)
        if stack is None:
            stack = self.call_stack = []
        if stack.count(fn.name) > getattr(self, "recursion_bound", 2):
            # bounded recursion: deeper instances are outside the stated bound (path dropped, recorded)
            if not hasattr(self, "truncated"):
                self.truncated = set()
            self.truncated.add(fn.name)
            return []
        stack.append(fn.name)
        try:
            return self._run(fn, args, subst, depth, state)
        finally:
            stack.pop()

    def _run(self, fn, args, subst, depth, state, entry="bb0", preset=None):
        if fn.name not in self.encoded:
            self.encoded.append(fn.name)
        subst = subst or {}
        st = state.fork() if state is not None else State()
        self.frame_counter += 1
        frame = self.frame_counter
        st.store[frame] = {}
        if not hasattr(self, "frame_fn"):
            self.frame_fn = {}
        self.frame_fn[frame] = (fn, subst, entry != "bb0")
        for (l, _), a in zip(fn.params, args):
            st.store[frame][l] = a
        for l, t in fn.locals.items():
            # capture-less closures / zero-sized values are never assigned in MIR but may be borrowed
            if l not in st.store[frame] and (t.startswith("{closure@") or t.startswith("[closure@")):
                st.store[frame][l] = Opaque("closure " + t)
        for l, v in (preset or {}).items():
            st.store[frame][l] = v
        outs = []
        self._block(fn, frame, entry, st, subst, outs, depth, 0)
        for o in outs:
            o.state.store.pop(frame, None)
        return outs

    def run_slice(self, fn, entry_bb, preset, args=()):
        """Execute `fn` from the start of block `entry_bb` with the given locals preset (parameters from `args`): the code
        before the entry block (e.g. recursive checks of sub-expressions) is summarised by arbitrary values of its results."""
        self.call_stack = [fn.name]
        try:
            return self._run(fn, list(args), {}, 0, None, entry=entry_bb, preset=preset)
        finally:
            self.call_stack = []

    def _ty(self, fn, local, subst):
        return apply_subst(fn.locals.get(local, "?"), subst)

    def _out(self, st, kind, value=None, info=None):
        o = Outcome(list(st.pc), kind, value, info, list(st.events))
        o.state = st
        return o

    def _block(self, fn, frame, bb, st, subst, outs, depth, steps):
        while True:
            if steps > getattr(self, "max_steps", 600):
                raise Unsupported(f"more than {getattr(self, 'max_steps', 600)} blocks on one path in {fn.name} (loop?)")
            self.paths += 1
            if self.paths > self.max_paths:
                raise PathExplosion(fn.name)
            lb = getattr(self, "loop_bound", None)
            if lb is not None:
                key = f"visit:{frame}:{bb}"
                c = st.facts.get(key, 0) + 1
                st.facts[key] = c
                if c > lb:
                    # bounded loop unrolling: deeper iterations are outside the stated bound (path dropped, recorded)
                    if not hasattr(self, "truncated"):
                        self.truncated = set()
                    self.truncated.add("loop bound in " + fn.name)
                    return
            blk = fn.blocks[bb]
            for stt in blk.stmts:
                self._stmt(fn, frame, stt, st, subst)
            t = blk.term
            if t is None:
                raise Unsupported(f"{fn.name}:{bb} has no terminator")
            if t == "return":
                outs.append(self._out(st, "return", st.store[frame].get("_0", Unit())))
                return
            if t == "unreachable":
                return
            if t == "resume" or t.startswith("terminate"):
                outs.append(self._out(st, "panic", info="unwind"))
                return
            m = re.match(r"^goto -> (bb\d+)$", t) or re.match(r"^(?:falseEdge|falseUnwind) -> \[real: (bb\d+),", t) \
                or re.match(r"^drop\(.*\) -> \[return: (bb\d+), unwind.*\]$", t)
            if m:
                bb = m.group(1)
                steps += 1
                continue
            m = re.match(r"^switchInt\((.*)\) -> \[(.*)\]$", t)
            if m:
                v = self._operand(fn, frame, parse_operand(m.group(1)), st, subst)
                arms = [a.strip() for a in m.group(2).split(",")]
                taken = []
                for a in arms:
                    k, tgt = [x.strip() for x in a.split(":")]
                    st2 = self._assume_switch(st, v, k, taken)
                    if k != "otherwise":
                        taken.append(k)
                    if st2 is None:
                        continue
                    if getattr(self, "tolerate_unsupported", False) and depth == 0:
                        try:
                            self._block(fn, frame, tgt, st2, subst, outs, depth, steps + 1)
                        except Unsupported as e:
                            # this branch leaves the supported fragment: recorded, so that an obligation whose domain
                            # intersects it is reported inconclusive instead of silently narrowed
                            outs.append(self._out(st2, "unsupported", info=str(e)))
                    else:
                        self._block(fn, frame, tgt, st2, subst, outs, depth, steps + 1)
                return
            m = re.match(r"^assert\((!?)(.*?), (\".*\")(?:, .*)?\) -> \[success: (bb\d+), unwind.*\]$", t)
            if m:
                negated, opnd, msg, tgt = m.groups()
                v = self._operand(fn, frame, parse_operand(opnd), st, subst)
                ok = simplify_bool(neg(v.term) if negated else v.term)
                bad = simplify_bool(neg(ok))
                if msg.startswith('"index out of bounds') and getattr(self, "assume_index_in_bounds", False):
                    # precondition of the slice: positions the code computes from its own cursor are inside the buffer
                    if ok not in st.pc and ok != "true":
                        st.pc.append(ok)
                    bb = tgt
                    steps += 1
                    continue
                if ok != "true" and ok not in st.pc and bad != "false" and bad not in [simplify_bool(neg(c)) for c in st.pc]:
                    sb = st.fork()
                    sb.pc.append(bad)
                    outs.append(self._out(sb, "panic", info="assert: " + msg.strip('"')))
                if ok == "false" or bad in st.pc:
                    return
                if ok != "true" and ok not in st.pc:
                    st.pc.append(ok)
                bb = tgt
                steps += 1
                continue
            # calls
            m = re.match(r"^(?:(.+?) = )?(.+\)) -> (.*)$", t)
            if m:
                dest, call, targets = m.groups()
                rm = re.search(r"return: (bb\d+)", targets)
                ret_bb = rm.group(1) if rm else None
                callee, argtexts = parse_call(call)
                args = []
                for a in argtexts:
                    if a.startswith(("copy ", "move ", "const ", "no_retag ")):
                        args.append(self._operand(fn, frame, parse_operand(a), st, subst))
                    else:
                        args.append(Opaque("fn " + a))      # a function item passed by name (e.g. `Box::new`)
                callee = apply_subst(callee, subst)
                self.dest_type = None
                if dest:
                    dp = parse_place(dest)
                    self.dest_type = self._ty(fn, dp.local, subst) if not dp.proj else None
                self.diverging = ret_bb is None
                results = self._call(fn, callee, args, depth, st)
                for (kind, val, info, st2) in results:
                    if kind == "panic" or ret_bb is None:
                        outs.append(self._out(st2, "panic", info=info or f"diverging call {callee}"))
                        continue
                    if dest:
                        self._write(fn, frame, parse_place(dest), val, st2, subst)
                    self._block(fn, frame, ret_bb, st2, subst, outs, depth, steps + 1)
                return
            raise Unsupported(f"terminator in {fn.name}:{bb}: {t}")

    # ---- branching with simple path facts --------------------------------------------------------------------
    def _assume_switch(self, st, v, k, taken):
        """-> forked state with the branch condition added, or None if the branch is infeasible on this path."""
        if not isinstance(v, Scalar):
            raise Unsupported(f"switchInt on {v!r}")
        if v.sort == "bool":
            cond = simplify_bool(v.term if (k != "0" and k != "otherwise") else neg(v.term))
            if k == "otherwise":
                cond = simplify_bool(v.term) if "0" in taken else cond
            if cond == "false" or simplify_bool(neg(cond)) in st.pc:
                return None
            st2 = st.fork()
            if cond != "true" and cond not in st2.pc:
                st2.pc.append(cond)
            return st2
        const = re.match(r"^-?\d+$", v.term) is not None and v.sort == "tag"
        if const:
            val = int(v.term)
            if k == "otherwise":
                return st.fork() if str(val) not in taken else None
            return st.fork() if int(k) == val else None
        term = v.term
        fact = st.facts.get(term)
        if k == "otherwise":
            ks = [int(x) for x in taken]
            if fact and fact[0] == "eq":
                return st.fork() if fact[1] not in ks else None
            owner = getattr(v, "owner", None)
            if owner is not None and owner.tdef is not None and len(set(ks)) >= len(owner.tdef.variants) and \
                    set(range(len(owner.tdef.variants))) <= set(ks):
                return None
            st2 = st.fork()
            ne = set(fact[1]) if fact else set()
            ne |= set(ks)
            st2.facts[term] = ("ne", ne)
            for x in ks:
                c = neg(self._eq_const(v, x))
                if c not in st2.pc:
                    st2.pc.append(c)
            return st2
        kv = int(k)
        if fact:
            if fact[0] == "eq":
                return st.fork() if fact[1] == kv else None
            if kv in fact[1]:
                return None
        owner = getattr(v, "owner", None)
        if owner is not None and owner.tdef is not None and not (0 <= kv < len(owner.tdef.variants)):
            return None
        st2 = st.fork()
        st2.facts[term] = ("eq", kv)
        st2.pc.append(self._eq_const(v, kv))
        return st2

    def _eq_const(self, v, k):
        if v.sort == "tag":
            return f"(= {v.term} {k})"
        return self.enc.icmp("Eq", v.term, self.enc.int_const(k))

    # ---- calls -----------------------------------------------------------------------------------------------
    def _call(self, fn, callee, args, depth, st):
        """-> [(kind, value, info, state)]"""
        for pat, h in self.intrinsics.items():
            if re.search(pat, callee):
                res = h(self, callee, [self.deref(a, st) for a in args] if getattr(h, "deref_args", True) else args)
                if res and len(res[0]) == 5:   # scalar-style intrinsic: (pc, kind, value, info, events)
                    out = []
                    for (cpc, kind, val, info, evs) in res:
                        st2 = st.fork()
                        skip = False
                        for c in cpc:
                            c = simplify_bool(c)
                            if c == "false" or simplify_bool(neg(c)) in st2.pc:
                                skip = True
                                break
                            if c != "true" and c not in st2.pc:
                                st2.pc.append(c)
                        if skip:
                            continue
                        st2.events += evs
                        out.append((kind, val, info, st2))
                    return out
                return res
        for pat, h in getattr(self, "state_intrinsics", {}).items():
            if re.search(pat, callee):
                return h(self, callee, args, st)
        for pat in getattr(self, "summarize", ()):
            if re.search(pat, callee) and self.opaque_calls:
                return self.opaque_calls(self, callee, args, st)
        cm = re.match(r"^<&?(?:mut )?(\{closure@[^}]+\}) as .*Fn(?:Mut|Once)?<.*>>::call(?:_mut|_once)?$", callee)
        if cm:
            ctext = cm.group(1)
            cands = [f for f in self.p.fns.values() if f.params and ctext in f.params[0][1] and "{closure#" in f.name]
            if len(cands) != 1:
                raise Unsupported(f"cannot resolve closure call {callee}")
            packed = self.deref(args[1], st)
            cargs = [args[0]] + (list(packed.items) if isinstance(packed, Tup) else [packed])
            outs = self.run(cands[0], cargs, {}, depth + 1, st)
            return [(o.kind, o.value, o.info, o.state) for o in outs]
        m = re.match(r"^<(.+) as (.+)>::(\w+)$", callee)
        target = None
        if m and m.group(3) == "ne" and m.group(2).split("<")[0].split("::")[-1] == "PartialEq":
            # default method: a != b  is  !(a == b)
            eqf = self.p.resolve_trait_call(m.group(1), m.group(2), "eq")
            if eqf is not None:
                outs = self.run(eqf, args, {}, depth + 1, st)
                return [(o.kind, S("bool", simplify_bool(neg(o.value.term))) if o.kind == "return" else o.value, o.info, o.state)
                        for o in outs]
        if m:
            target = self.p.resolve_trait_call(m.group(1), m.group(2), m.group(3))
            if target is None and not self.opaque_calls:
                raise Unsupported(f"cannot resolve trait call {callee}")
        else:
            target = self.p.lookup(callee)
            if target is None:
                target = self.p.resolve_inherent(callee)
        if target is not None:
            outs = self.run(target, args, {}, depth + 1, st)
            return [(o.kind, o.value, o.info, o.state) for o in outs]
        if self.opaque_calls:
            r = self.opaque_calls(self, callee, args, st)
            if r is not None:
                return r
        raise Unsupported(f"call to un-modelled function {callee} from {fn.name}")

    # ---- memory -------------------------------------------------------------------------------------------------
    def deref(self, v, st):
        while isinstance(v, Ref):
            v = self._load(v.frame, v.place, st)
        return v

    def _load(self, frame, place, st):
        loc = st.store.get(frame, {})
        if place.local not in loc:
            fn, subst, sliced = getattr(self, "frame_fn", {}).get(frame, (None, None, False))
            if not sliced or fn is None or place.local not in fn.locals:
                raise Unsupported(f"read of unassigned local {place.local}")
            # slice mode: a local assigned before the entry block holds an arbitrary value of its type
            self.sym_counter += 1
            loc[place.local] = self.sym_value(apply_subst(fn.locals[place.local], subst), f"pre{self.sym_counter}{place.local}")
        v = loc[place.local]
        for pr in place.proj:
            v = self.deref(v, st)
            if pr[0] == "deref":
                continue
            if pr[0] == "field":
                v = self._field(v, pr[1], None)
            elif pr[0] == "downcast":
                v = self._downcast(v, pr[1])
            elif pr[0] == "constindex":
                if isinstance(v, Tup):
                    v = v.items[pr[1]]
                elif isinstance(v, Adt) and v.ty == "Vec":
                    v = v.fields[pr[1]]
                elif isinstance(v, Sym) and getattr(self, "model_sequences", False) and f"len:{v.name}" in st.facts \
                        and pr[1] < st.facts[f"len:{v.name}"]:
                    # slice pattern `[a, b, ..]` on a symbolic sequence whose length is fixed on this path
                    import mirx
                    v = mirx.seq_elem(self, v, pr[1])
                else:
                    v = self._unsup(f"const index on {v!r}")
            elif pr[0] == "index" and isinstance(v, Sym):
                import mirx as _mirx
                idx = self.deref(loc.get(pr[1]), st)
                v = _mirx.seq_elem_at(self, v, idx.term if isinstance(idx, Scalar) else repr(idx))
            else:
                raise Unsupported(f"projection {pr}")
        return v

    def _unsup(self, msg):
        raise Unsupported(msg)

    def _field(self, v, idx, variant):
        if isinstance(v, _Down):
            return self._field(v.inner, idx, v.variant)
        if isinstance(v, Tup):
            return v.items[idx]
        if isinstance(v, Adt):
            f = v.fields[idx]
            return f[1] if isinstance(f, tuple) else f
        if isinstance(v, Sym):
            return v.child(variant, idx)
        raise Unsupported(f"field .{idx} of {v!r}")

    def _downcast(self, v, variant):
        if isinstance(v, Adt):
            return v
        if isinstance(v, Sym):
            return _Down(v, variant)
        raise Unsupported(f"downcast of {v!r}")

    def _read(self, fn, frame, place, st, subst):
        return self._load(frame, place, st)

    def _store(self, frame, place, val, st):
        loc = st.store[frame]
        if not place.proj:
            loc[place.local] = val
            return
        # find the last deref through a Ref: redirect
        base = loc.get(place.local)
        proj = list(place.proj)
        if proj and proj[0] == ("deref",) and isinstance(base, Ref):
            tgt = base
            return self._store(tgt.frame, Place(tgt.place.local, tuple(tgt.place.proj) + tuple(proj[1:])), val, st)
        if proj and proj[0] == ("deref",):
            return self._store(frame, Place(place.local, tuple(proj[1:])), val, st)
        cur0 = loc.get(place.local)
        if isinstance(cur0, Adt) and cur0.ty == "BoxUninit" and all(pr[0] == "field" for pr in proj):
            # initialisation of the box's contents through MaybeUninit / ManuallyDrop / MaybeDangling wrappers
            loc[place.local] = Adt("BoxUninit", None, [val])
            return
        if len(proj) == 1 and proj[0][0] == "field":
            cur = loc.get(place.local)
            if isinstance(cur, Tup):
                items = list(cur.items)
                items[proj[0][1]] = val
                loc[place.local] = Tup(items)
                return
            if isinstance(cur, Adt):
                fields = list(cur.fields)
                old = fields[proj[0][1]]
                fields[proj[0][1]] = (old[0], val) if isinstance(old, tuple) else val
                loc[place.local] = Adt(cur.ty, cur.variant, fields)
                return
            if cur is None:
                # field-wise initialisation of a tuple local
                n = proj[0][1] + 1
                items = [Opaque("uninit")] * n
                items[proj[0][1]] = val
                loc[place.local] = Tup(items)
                return
        if len(proj) > 1 and all(pr[0] == "field" for pr in proj):
            # nested field write into a concrete struct / tuple value: functional update along the path
            def upd(cur, path):
                if not path:
                    return val
                k = path[0][1]
                if isinstance(cur, Tup):
                    items = list(cur.items)
                    items[k] = upd(items[k], path[1:])
                    return Tup(items)
                if isinstance(cur, Adt) and k < len(cur.fields):
                    fields = list(cur.fields)
                    old = fields[k]
                    inner = old[1] if isinstance(old, tuple) else old
                    new = upd(inner, path[1:])
                    fields[k] = (old[0], new) if isinstance(old, tuple) else new
                    return Adt(cur.ty, cur.variant, fields)
                raise Unsupported(f"write to projected place {place}")
            loc[place.local] = upd(loc.get(place.local), proj)
            return
        raise Unsupported(f"write to projected place {place}")

    def _write(self, fn, frame, place, val, st, subst):
        self._store(frame, place, val, st)

    def _operand(self, fn, frame, op, st, subst):
        if op.kind in ("copy", "move"):
            return self._load(frame, op.place, st)
        return self._const(op.const)

    def _const(self, c):
        e = self.enc
        if c in ("true", "false"):
            return S("bool", c)
        m = re.match(r"^(-?[\d_]+)_(i|u)(8|16|32|64|128|size)$", c)
        if m:
            return S("int", e.int_const(int(m.group(1).replace("_", ""))), e.int_bits, m.group(2) == "i")
        m = re.match(r"^(i|u)(8|16|32|64|size)::(MIN|MAX)$", c)
        if m:
            if m.group(1) == "i":
                n = e.imin() if m.group(3) == "MIN" else e.imax()
            else:
                n = 0 if m.group(3) == "MIN" else (1 << e.int_bits) - 1
            return S("int", e.int_const(n), e.int_bits, m.group(1) == "i")
        if re.match(r"^-?[0-9.][0-9._eE+-]*f(32|64)$", c):
            return S("fp", e.fp_const(c))
        if c == "()":
            return Unit()
        m = re.match(r"^'(\\?.|\\u\{[0-9a-fA-F]+\})'$", c, re.S)
        if m and getattr(self, "char_consts_as_int", False):       # opt-in (the lexer obligations); elsewhere a char constant stays an opaque text atom
            t = m.group(1)
            esc = {"\\n": 10, "\\t": 9, "\\r": 13, "\\0": 0, "\\'": 39, "\\\\": 92, '\\"': 34}
            n = esc.get(t) if t in esc else (int(t[3:-1], 16) if t.startswith("\\u{") else (ord(t) if len(t) == 1 else None))
            if n is not None:
                return S("int", e.int_const(n), e.int_bits, False)
        item = self.p.fns.get(c) or self.p.fns.get("incan_core::" + c)
        if item is None:
            pm = re.match(r"^(?:.*::)?(\w+(?:::\{closure#\d+\})*)::promoted\[(\d+)\]$", c)
            if pm:
                suffix = f"::{pm.group(1)}::promoted[{pm.group(2)}]"
                cands = [f for n, f in self.p.fns.items() if n.endswith(suffix) and getattr(f, "is_const", False)]
                if len(cands) == 1:
                    item = cands[0]
        if item is not None and getattr(item, "is_const", False):
            return self.eval_const_item(item)
        return Opaque("const " + c)

    def eval_const_item(self, item):
        """Evaluate a promoted constant / const item body (no inputs) to its value; references are looked through."""
        if not hasattr(self, "_const_cache"):
            self._const_cache = {}
        if item.name in self._const_cache:
            return self._const_cache[item.name]
        st = State()
        self.frame_counter += 1
        frame = self.frame_counter
        st.store[frame] = {}
        outs = []
        self._block(item, frame, "bb0", st, {}, outs, 0, 0)
        rets = [o for o in outs if o.kind == "return"]
        if len(rets) != 1:
            raise Unsupported(f"constant {item.name} has {len(rets)} evaluation paths")
        v = self.deref(rets[0].value, rets[0].state)
        self._const_cache[item.name] = v
        return v

    # ---- statements -----------------------------------------------------------------------------------------
    def _stmt(self, fn, frame, stt, st, subst):
        if stt.startswith(("StorageLive", "StorageDead", "nop", "FakeRead", "PlaceMention", "Retag", "AscribeUserType",
                           "Coverage", "ConstEvalCounter", "BackwardIncompatibleDropHint", "Deinit")):
            return
        m = re.match(r"^(.+?) = (.*)$", stt)
        if not m:
            raise Unsupported("statement: " + stt)
        lhs, rhs = m.group(1), m.group(2)
        place = parse_place(lhs)
        hint = self._ty(fn, place.local, subst) if not place.proj else None
        val = self._rvalue(fn, frame, rhs, st, subst, hint)
        self._store(frame, place, val, st)

    def _rvalue(self, fn, frame, rhs, st, subst, hint=None):
        e = self.enc
        rhs = rhs.strip()
        m = re.match(r"^(.*) as (.+?) \((\w+)(?:\(.*\))?\)$", rhs)
        if m and m.group(1).startswith(("copy ", "move ", "const ")):
            op0 = parse_operand(m.group(1))
            v = self.deref(self._operand(fn, frame, op0, st, subst), st)
            kind = m.group(3)
            if kind == "Transmute" and isinstance(v, Adt) and v.ty == "BoxUninit" and op0.kind in ("copy", "move"):
                # `Box::new_uninit()` written through its raw pointer (expansion of `vec![x]`): point at the box's local
                return Ref(frame, Place(op0.place.local, tuple(pr for pr in op0.place.proj if pr[0] != "field")))
            if kind == "IntToFloat":
                return S("fp", e.int_to_fp(v))
            if kind in ("PointerCoercion", "Transmute", "PtrToPtr", "IntToInt") and not (isinstance(v, Scalar) and v.sort == "fp"):
                return v
            raise Unsupported(f"cast {kind} in {fn.name}: {rhs}")
        m = re.match(r"^(\w+)\((.*)\)$", rhs)
        if m and m.group(1) in BINOPS:
            a, b = [self.deref(self._operand(fn, frame, parse_operand(x), st, subst), st) for x in split_top(m.group(2))]
            return self._binop(fn, m.group(1), a, b)
        if m and m.group(1) == "PtrMetadata":
            # length of a slice we do not model: an arbitrary non-negative value, the same for the same slice
            a = self.deref(self._operand(fn, frame, parse_operand(m.group(2)), st, subst), st)
            if isinstance(a, Sym) and ("len:" + a.name) in st.facts:
                return S("int", e.int_const(st.facts["len:" + a.name]), 64, False)      # a modelled sequence: its length on this path
            if isinstance(a, Adt) and a.ty == "Vec" and a.variant == "lit":
                return S("int", e.int_const(len(a.fields)), 64, False)
            key = ("len", id(a) if not isinstance(a, Sym) else a.name)
            if not hasattr(self, "slice_lens"):
                self.slice_lens = {}
            if key not in self.slice_lens:
                self.sym_counter += 1
                v = e.int_var(f"len{self.sym_counter}")
                e.side.append(e.icmp("Ge", v.term, e.int_const(0)))
                self.slice_lens[key] = v
            return self.slice_lens[key]
        if m and m.group(1) in UNOPS:
            a = self.deref(self._operand(fn, frame, parse_operand(m.group(2)), st, subst), st)
            if m.group(1) == "Not" and a.sort == "bool":
                return S("bool", neg(a.term))
            if m.group(1) == "Neg" and a.sort == "fp":
                return S("fp", f"(fp.neg {a.term})")
            if m.group(1) == "Neg" and a.sort == "int":
                r, _ = e.arith_ovf("Sub", e.int_const(0), a.term)
                return S("int", r)
            raise Unsupported("unop " + rhs)
        if m and m.group(1) == "discriminant":
            return self._discriminant(self.deref(self._load(frame, parse_place(m.group(2)), st), st))
        if rhs.startswith("&"):
            r = re.sub(r"^&(raw (const|mut) (\(fake\) )?|mut |fake shallow |fake )?", "", rhs)
            return self._borrow(frame, parse_place(r), st)
        if rhs.startswith(("copy ", "move ", "const ", "no_retag ")):
            return self._operand(fn, frame, parse_operand(rhs), st, subst)
        if rhs.startswith("(") and rhs.endswith(")"):
            inner = rhs[1:-1].strip()
            if not inner:
                return Unit()
            parts = split_top(inner)
            if all(p.startswith(("copy ", "move ", "const ")) for p in parts):
                return Tup([self._operand(fn, frame, parse_operand(p), st, subst) for p in parts])
        return self._aggregate(fn, frame, rhs, st, subst, hint)

    def _borrow(self, frame, place, st):
        """`&P`: a Ref to the place when it stays inside this frame's locals; when the place goes through a value that
        was handed in as a plain referent (symbolic input), the referent itself."""
        loc = st.store[frame]
        v = loc.get(place.local)
        if v is None:
            raise Unsupported(f"borrow of unassigned local {place.local}")
        for k, pr in enumerate(place.proj):
            if pr[0] == "deref":
                if isinstance(v, Ref):
                    # reborrow through a reference: point to the same target + remaining projections
                    tgt = v
                    rest = tuple(place.proj[k + 1:])
                    return self._borrow(tgt.frame, Place(tgt.place.local, tuple(tgt.place.proj) + rest), st)
                # a referent handed in by value: the rest is a pure read
                return self._load(frame, place, st)
            if isinstance(v, (Sym, _Down)):
                return self._load(frame, place, st)
            if pr[0] == "field":
                v = self._field(self.deref(v, st), pr[1], None)
            elif pr[0] == "downcast":
                v = self._downcast(self.deref(v, st), pr[1])
        return Ref(frame, place)

    def _aggregate(self, fn, frame, rhs, st, subst, hint):
        """`Path::Variant`, `Path::Variant(ops)`, `Path { f: op, .. }`, `Path::Variant { f: op }`, `[ops]`."""
        if rhs.startswith("[") and rhs.endswith("]"):
            parts = split_top(rhs[1:-1])
            return Tup([self._operand(fn, frame, parse_operand(x), st, subst) for x in parts])
        hint_name = type_head(hint) if hint else None
        cm = re.match(r"^(\{closure@[^}]*\})\s*\{(.*)\}$", rhs)
        if cm:
            fields = []
            for part in split_top(cm.group(2)):
                fname, fop = part.split(":", 1)
                fields.append((fname.strip(), self._operand(fn, frame, parse_operand(fop), st, subst)))
            return Adt(cm.group(1), None, fields)
        m = re.match(r"^([\w:<>', &\[\]()*]+?)\s*\{(.*)\}$", rhs)
        if m:
            path = strip_generics(m.group(1).strip())
            fields = []
            for part in split_top(m.group(2)):
                fname, fop = part.split(":", 1)
                fields.append((fname.strip(), self._operand(fn, frame, parse_operand(fop), st, subst)))
            ty, variant = split_variant(path, hint_name)
            return Adt(ty, variant, fields)
        m = re.match(r"^([\w:<>', &\[\]*]+?)\((.*)\)$", rhs)
        if m and m.group(1).count("<") != m.group(1).count(">"):
            # the first `(` sits inside the generic arguments (`Result::<(A, B), E>::Ok(x)`): split at the first `(` outside `<..>`
            depth, cut = 0, None
            for i_, ch in enumerate(rhs):
                if ch == "<":
                    depth += 1
                elif ch == ">" and i_ > 0 and rhs[i_ - 1] != "-":
                    depth -= 1
                elif ch == "(" and depth == 0:
                    cut = i_
                    break
            m = re.match(r"^(.*)$", rhs[:cut]) if cut is not None and rhs.endswith(")") else None
            if m:
                class _M:
                    def __init__(self, a, b):
                        self.a, self.b = a, b

                    def group(self, k):
                        return self.a if k == 1 else self.b
                m = _M(rhs[:cut], rhs[cut + 1:-1])
        if m and not rhs.startswith(("copy ", "move ", "const ")):
            path = strip_generics(m.group(1).strip())
            vals = [self._operand(fn, frame, parse_operand(x), st, subst) for x in split_top(m.group(2))]
            ty, variant = split_variant(path, hint_name)
            return Adt(ty, variant, vals)
        if re.match(r"^[\w:<>', &]+$", rhs) and "::" in rhs:
            path = strip_generics(rhs)
            ty, variant = split_variant(path, hint_name)
            return Adt(ty, variant, [])
        if re.match(r"^[A-Z]\w*$", rhs) and hint_name:
            return Adt(hint_name, rhs, [])     # unit variant printed without its path (e.g. `Parenthesis`)
        raise Unsupported(f"rvalue in {fn.name}: {rhs}")

    def _discriminant(self, v):
        if isinstance(v, _Down):
            v = v.inner
        if isinstance(v, Adt) and v.variant is not None:
            return S("tag", str(self.variant_index(v.ty, v.variant)))
        if isinstance(v, Sym):
            return v.tag()
        raise Unsupported(f"discriminant of {v!r}")

    BUILTIN_ENUMS = {"Option": ["None", "Some"], "Result": ["Ok", "Err"], "Ordering": ["Less", "Equal", "Greater"],
                     "ControlFlow": ["Continue", "Break"]}

    def variant_index(self, ty, variant):
        order = self.BUILTIN_ENUMS.get(ty)
        if order is None and self.types is not None:
            td = self.types.resolve(ty)
            order = [v[0] for v in td.variants] if td is not None and td.kind == "enum" else None
        if order and variant in order:
            return order.index(variant)
        raise Unsupported(f"variant order of {ty}::{variant} unknown")

    def _binop(self, fn, op, a, b):
        e = self.enc
        if not isinstance(a, Scalar) or not isinstance(b, Scalar):
            raise Unsupported(f"binop {op} on non-scalars in {fn.name}: {a!r}, {b!r}")
        if a.sort == "bool":
            t = {"BitAnd": "and", "BitOr": "or", "Eq": "=", "Ne": "distinct", "BitXor": "xor"}.get(op)
            if not t:
                raise Unsupported("bool binop " + op)
            return S("bool", f"({t} {a.term} {b.term})")
        if a.sort == "tag" or b.sort == "tag":
            lit = re.match(r"^-?\d+$", a.term) and re.match(r"^-?\d+$", b.term)
            if op == "Eq":
                return S("bool", ("true" if int(a.term) == int(b.term) else "false") if lit else f"(= {a.term} {b.term})")
            if op == "Ne":
                return S("bool", ("false" if int(a.term) == int(b.term) else "true") if lit else f"(not (= {a.term} {b.term}))")
            raise Unsupported("tag binop " + op)
        if a.sort == "fp":
            x, y = a.term, b.term
            if op == "Rem":
                return S("fp", e.share(e.fp_sort(), e.fmod(x, y)))
            if op in ("Add", "Sub", "Mul", "Div"):
                return S("fp", e.share(e.fp_sort(), f"(fp.{op.lower()} RNE {x} {y})"))
            if op in ("Lt", "Le", "Gt", "Ge"):
                return S("bool", f"(fp.{ {'Lt': 'lt', 'Le': 'leq', 'Gt': 'gt', 'Ge': 'geq'}[op]} {x} {y})")
            if op == "Eq":
                return S("bool", f"(fp.eq {x} {y})")
            if op == "Ne":
                return S("bool", f"(not (fp.eq {x} {y}))")
            raise Unsupported("fp binop " + op)
        x, y = a.term, b.term
        lx, ly = _int_lit(x), _int_lit(y)
        if lx is not None and ly is not None and e.int_mode == "int":
            # constant folding (loop counters of macro expansions): keeps concrete control flow concrete
            if op in ("Eq", "Ne", "Lt", "Le", "Gt", "Ge"):
                v = {"Eq": lx == ly, "Ne": lx != ly, "Lt": lx < ly, "Le": lx <= ly, "Gt": lx > ly, "Ge": lx >= ly}[op]
                return S("bool", "true" if v else "false")
            if op in ("AddWithOverflow", "SubWithOverflow", "Add", "Sub", "AddUnchecked", "SubUnchecked"):
                v = lx + ly if op.startswith("Add") else lx - ly
                if e.imin() <= v <= e.imax() and (a.signed or v >= 0):
                    res = S("int", e.int_const(v), a.bits, a.signed)
                    return Tup([res, S("bool", "false")]) if op.endswith("WithOverflow") else res
            if op in ("MulWithOverflow", "Mul", "MulUnchecked"):
                v = lx * ly
                if e.imin() <= v <= e.imax() and (a.signed or v >= 0):
                    res = S("int", e.int_const(v), a.bits, a.signed)
                    return Tup([res, S("bool", "false")]) if op.endswith("WithOverflow") else res
        if op in ("Eq", "Ne", "Lt", "Le", "Gt", "Ge"):
            return S("bool", e.icmp(op, x, y))
        if op in ("AddWithOverflow", "SubWithOverflow", "MulWithOverflow"):
            r, o = e.arith_ovf(op[:3], x, y)
            return Tup([S("int", e.share(e.int_sort(), r)), S("bool", e.share("Bool", o))])
        if op in ("Add", "Sub", "Mul", "AddUnchecked", "SubUnchecked", "MulUnchecked"):
            r, _ = e.arith_ovf(op[:3], x, y)
            return S("int", e.share(e.int_sort(), r))
        if op == "Div":
            return S("int", e.divrem(x, y)[0])
        if op == "Rem":
            return S("int", e.divrem(x, y)[1])
        raise Unsupported("int binop " + op)


class _Down(Val):
    """A symbolic enum value viewed as one of its variants (`(x as Variant)`)."""

    def __init__(self, inner, variant):
        self.inner = inner
        self.variant = variant

    def __repr__(self):
        return f"({self.inner!r} as {self.variant})"


def _int_lit(t):
    m = re.fullmatch(r"-?\d+", t)
    if m:
        return int(t)
    m = re.fullmatch(r"\(- (\d+)\)", t)
    return -int(m.group(1)) if m else None


def type_head(t):
    """`errors::ErrorArgs<'_>` -> `ErrorArgs`; `&T`/`Box<T>` are looked through by the caller."""
    t = t.strip().lstrip("&").replace("mut ", "").strip()
    out, depth = [], 0
    for c in t:
        if c == "<":
            depth += 1
        elif c == ">":
            depth -= 1
        elif depth == 0:
            out.append(c)
    return "".join(out).split("::")[-1].strip()


def split_variant(path, hint_name):
    """(`ErrorArgs::Static`, hint ErrorArgs) -> (ErrorArgs, Static); (`IncanError`, hint IncanError) -> (IncanError, None)"""
    segs = path.split("::")
    if hint_name and segs[-1] == hint_name:
        return hint_name, None
    if len(segs) >= 2:
        return segs[-2], segs[-1]
    return segs[-1], None


def apply_subst(t, subst):
    if not subst:
        return t
    for k, v in subst.items():
        t = re.sub(r"(?<![\w:])" + re.escape(k) + r"(?![\w])", v, t)
    return t


def simplify_bool(t):
    t = t.strip()
    if t == "(not true)":
        return "false"
    if t == "(not false)":
        return "true"
    m = re.match(r"^\(not \(not (.*)\)\)$", t)
    if m and balanced(m.group(1)):
        return m.group(1)
    return t


def balanced(s):
    d = 0
    for c in s:
        if c == "(":
            d += 1
        elif c == ")":
            d -= 1
            if d < 0:
                return False
    return d == 0


# ---- std intrinsics used by the numeric kernels -------------------------------------------------------------

def intr_wrapping_rem(ex, callee, args):
    e = ex.enc
    a, b = args[0].term, args[1].term
    zero = e.icmp("Eq", b, e.int_const(0))
    m1 = e.icmp("Eq", b, e.int_const(-1))
    r = e.divrem(a, b)[1]
    val = S("int", e.share(e.int_sort(), f"(ite {m1} {e.int_const(0)} {r})"))
    return [([zero], "panic", None, "assert: attempt to calculate the remainder with a divisor of zero", []),
            ([neg(zero)], "return", val, None, [])]


def intr_floor(ex, callee, args):
    return [([], "return", S("fp", f"(fp.roundToIntegral RTN {args[0].term})"), None, [])]


def intr_fp_unary(name):
    def h(ex, callee, args):
        return [([], "return", S("fp", f"({name} {args[0].term})"), None, [])]
    return h


def _ret(v):
    return [([], "return", v, None, [])]


def _int_arith(op, wrapping):
    def h(ex, callee, args):
        e = ex.enc
        r, o = e.arith_ovf(op, args[0].term, args[1].term)
        r = e.share(e.int_sort(), r)
        if wrapping:
            return _ret(S("int", r))
        return [([o], "panic", None, "assert: arithmetic overflow in " + callee, []), ([neg(o)], "return", S("int", r), None, [])]
    return h


def intr_wrapping_neg(ex, callee, args):
    e = ex.enc
    r, _ = e.arith_ovf("Sub", e.int_const(0), args[0].term)
    return _ret(S("int", e.share(e.int_sort(), r)))


def intr_neg(ex, callee, args):
    e = ex.enc
    r, o = e.arith_ovf("Sub", e.int_const(0), args[0].term)
    return [([o], "panic", None, "assert: attempt to negate with overflow", []),
            ([neg(o)], "return", S("int", e.share(e.int_sort(), r)), None, [])]


def _int_minmax(which):
    def h(ex, callee, args):
        e = ex.enc
        a, b = args[0].term, args[1].term
        c = e.icmp("Le" if which == "min" else "Ge", a, b)
        return _ret(S("int", f"(ite {c} {a} {b})"))
    return h


def intr_abs(ex, callee, args):
    e = ex.enc
    x = args[0].term
    isneg = e.icmp("Lt", x, e.int_const(0))
    r, o = e.arith_ovf("Sub", e.int_const(0), x)
    val = S("int", e.share(e.int_sort(), f"(ite {isneg} {r} {x})"))
    bad = f"(and {isneg} {o})"
    if "wrapping_abs" in callee:
        return _ret(val)
    return [([bad], "panic", None, "assert: attempt to negate with overflow", []), ([neg(bad)], "return", val, None, [])]


def intr_signum(ex, callee, args):
    e = ex.enc
    x = args[0].term
    z = e.int_const(0)
    return _ret(S("int", f"(ite {e.icmp('Gt', x, z)} {e.int_const(1)} (ite {e.icmp('Lt', x, z)} {e.int_const(-1)} {z}))"))


def _int_pred(op):
    def h(ex, callee, args):
        e = ex.enc
        return _ret(S("bool", e.icmp(op, args[0].term, e.int_const(0))))
    return h


def _euclid(which, wrapping=False):
    def h(ex, callee, args):
        e = ex.enc
        a, b = args[0].term, args[1].term
        zero = e.icmp("Eq", b, e.int_const(0))
        ovf = f"(and {e.icmp('Eq', a, e.int_const(e.imin()))} {e.icmp('Eq', b, e.int_const(-1))})"
        q, r = e.divrem(a, b)
        rneg = e.icmp("Lt", r, e.int_const(0))
        bpos = e.icmp("Gt", b, e.int_const(0))
        one = e.int_const(1)
        if which == "rem":
            # r < 0 ? (b < 0 ? r - b : r + b) : r      (std: uses wrapping ops after the overflow check)
            add = e.arith_ovf("Add", r, b)[0]
            sub = e.arith_ovf("Sub", r, b)[0]
            val = f"(ite {rneg} (ite {bpos} {add} {sub}) {r})"
            val = f"(ite {ovf} {e.int_const(0)} {val})"
        else:
            qm = e.arith_ovf("Sub", q, one)[0]
            qp = e.arith_ovf("Add", q, one)[0]
            val = f"(ite {rneg} (ite {bpos} {qm} {qp}) {q})"
        v = S("int", e.share(e.int_sort(), val))
        outs = [([zero], "panic", None, "assert: attempt to divide by zero", [])]
        if wrapping:
            outs.append(([neg(zero)], "return", v, None, []))
        else:
            outs.append(([neg(zero), ovf], "panic", None, "assert: attempt to divide with overflow", []))
            outs.append(([neg(zero), neg(ovf)], "return", v, None, []))
        return outs
    return h


def intr_wrapping_div(ex, callee, args):
    e = ex.enc
    a, b = args[0].term, args[1].term
    zero = e.icmp("Eq", b, e.int_const(0))
    ovf = f"(and {e.icmp('Eq', a, e.int_const(e.imin()))} {e.icmp('Eq', b, e.int_const(-1))})"
    q = e.divrem(a, b)[0]
    v = S("int", e.share(e.int_sort(), f"(ite {ovf} {e.int_const(e.imin())} {q})"))
    return [([zero], "panic", None, "assert: attempt to divide by zero", []), ([neg(zero)], "return", v, None, [])]


def _checked(which):
    def h(ex, callee, args):
        e = ex.enc
        a, b = args[0].term, args[1].term
        if which in ("Add", "Sub", "Mul"):
            r, o = e.arith_ovf(which, a, b)
            none_c = o
            val = r
        else:
            zero = e.icmp("Eq", b, e.int_const(0))
            ovf = f"(and {e.icmp('Eq', a, e.int_const(e.imin()))} {e.icmp('Eq', b, e.int_const(-1))})"
            none_c = f"(or {zero} {ovf})"
            val = e.divrem(a, b)[0 if which == "Div" else 1]
        some = Adt("Option", "Some", [S("int", e.share(e.int_sort(), val))])
        return [([none_c], "return", Adt("Option", "None", []), None, []), ([neg(none_c)], "return", some, None, [])]
    return h


def intr_checked_neg(ex, callee, args):
    e = ex.enc
    r, o = e.arith_ovf("Sub", e.int_const(0), args[0].term)
    some = Adt("Option", "Some", [S("int", e.share(e.int_sort(), r))])
    return [([o], "return", Adt("Option", "None", []), None, []), ([neg(o)], "return", some, None, [])]


def _sat(which):
    def h(ex, callee, args):
        e = ex.enc
        a, b = args[0].term, args[1].term
        r, o = e.arith_ovf(which, a, b)
        # on overflow saturate towards the sign of the exact result
        if which == "Add":
            up = e.icmp("Gt", b, e.int_const(0))
        else:
            up = e.icmp("Lt", b, e.int_const(0))
        val = f"(ite {o} (ite {up} {e.int_const(e.imax())} {e.int_const(e.imin())}) {r})"
        return _ret(S("int", e.share(e.int_sort(), val)))
    return h


def _fp1(fmt):
    def h(ex, callee, args):
        return _ret(S("fp", fmt.format(x=args[0].term)))
    return h


def _fpb(fmt):
    def h(ex, callee, args):
        return _ret(S("bool", fmt.format(x=args[0].term)))
    return h


def intr_copysign(ex, callee, args):
    x, y = args[0].term, args[1].term
    return _ret(S("fp", f"(ite (fp.isNegative {y}) (fp.neg (fp.abs {x})) (fp.abs {x}))"))


def intr_fsignum(ex, callee, args):
    e = ex.enc
    x = args[0].term
    one = e.fp_const("1f64")
    return _ret(S("fp", f"(ite (fp.isNaN {x}) {x} (ite (fp.isNegative {x}) (fp.neg {one}) {one}))"))


def intr_f_rem_euclid(ex, callee, args):
    e = ex.enc
    x, y = args[0].term, args[1].term
    r = e.share(e.fp_sort(), e.fmod(x, y))
    z = f"(_ +zero {e.eb} {e.sb})"
    return _ret(S("fp", e.share(e.fp_sort(), f"(ite (fp.lt {r} {z}) (fp.add RNE {r} (fp.abs {y})) {r})")))


def intr_f_div_euclid(ex, callee, args):
    e = ex.enc
    x, y = args[0].term, args[1].term
    q = f"(fp.roundToIntegral RTZ (fp.div RNE {x} {y}))"
    r = e.share(e.fp_sort(), e.fmod(x, y))
    z = f"(_ +zero {e.eb} {e.sb})"
    one = e.fp_const("1f64")
    val = f"(ite (fp.lt {r} {z}) (ite (fp.gt {y} {z}) (fp.sub RNE {q} {one}) (fp.add RNE {q} {one})) {q})"
    return _ret(S("fp", e.share(e.fp_sort(), val)))


def intr_fminmax(which):
    def h(ex, callee, args):
        x, y = args[0].term, args[1].term
        return _ret(S("fp", f"(fp.{which} {x} {y})"))
    return h


def intr_mul_add(ex, callee, args):
    return _ret(S("fp", f"(fp.fma RNE {args[0].term} {args[1].term} {args[2].term})"))


def intr_raise(ex, callee, args):
    return [([], "panic", None, "raise(" + repr(args[0]) + ")", [])]


_I = r"core::num::<impl i64>::"
_F = r"(std|core)::f64::<impl f64>::"
NUMERIC_INTRINSICS = {
    _I + r"wrapping_add$": _int_arith("Add", True),
    _I + r"wrapping_sub$": _int_arith("Sub", True),
    _I + r"wrapping_mul$": _int_arith("Mul", True),
    _I + r"wrapping_neg$": intr_wrapping_neg,
    r"^<&?i64 as (std::ops::)?Neg>::neg$": intr_neg,
    r"^<(usize|i64|u32|u64|isize) as (std::cmp::)?Ord>::min$": _int_minmax("min"),
    r"^<(usize|i64|u32|u64|isize) as (std::cmp::)?Ord>::max$": _int_minmax("max"),
    r"^(std|core)::cmp::min::<(usize|i64|u32|u64|isize)>$": _int_minmax("min"),
    r"^(std|core)::cmp::max::<(usize|i64|u32|u64|isize)>$": _int_minmax("max"),
    _I + r"wrapping_div$": intr_wrapping_div,
    _I + r"(wrapping_)?abs$": intr_abs,
    _I + r"signum$": intr_signum,
    _I + r"is_negative$": _int_pred("Lt"),
    _I + r"is_positive$": _int_pred("Gt"),
    _I + r"rem_euclid$": _euclid("rem"),
    _I + r"div_euclid$": _euclid("div"),
    _I + r"wrapping_rem_euclid$": _euclid("rem", True),
    _I + r"wrapping_div_euclid$": _euclid("div", True),
    _I + r"checked_add$": _checked("Add"),
    _I + r"checked_sub$": _checked("Sub"),
    _I + r"checked_mul$": _checked("Mul"),
    _I + r"checked_div$": _checked("Div"),
    _I + r"checked_rem$": _checked("Rem"),
    _I + r"checked_neg$": intr_checked_neg,
    _I + r"saturating_add$": _sat("Add"),
    _I + r"saturating_sub$": _sat("Sub"),
    _F + r"is_sign_negative$": _fpb("(fp.isNegative {x})"),
    _F + r"is_sign_positive$": _fpb("(fp.isPositive {x})"),
    _F + r"is_nan$": _fpb("(fp.isNaN {x})"),
    _F + r"is_infinite$": _fpb("(fp.isInfinite {x})"),
    _F + r"is_finite$": _fpb("(not (or (fp.isNaN {x}) (fp.isInfinite {x})))"),
    _F + r"copysign$": intr_copysign,
    _F + r"signum$": intr_fsignum,
    _F + r"rem_euclid$": intr_f_rem_euclid,
    _F + r"div_euclid$": intr_f_div_euclid,
    _F + r"min$": intr_fminmax("min"),
    _F + r"max$": intr_fminmax("max"),
    _F + r"mul_add$": intr_mul_add,
    _F + r"sqrt$": _fp1("(fp.sqrt RNE {x})"),
    r"(^|::)raise(::<.*>)?$": intr_raise,
    r"core::num::<impl i64>::wrapping_rem$": intr_wrapping_rem,
    r"std::f64::<impl f64>::floor$": intr_floor,
    r"core::f64::<impl f64>::floor$": intr_floor,
    r"<impl f64>::abs$": intr_fp_unary("fp.abs"),
    r"<impl f64>::ceil$": lambda ex, c, a: [([], "return", S("fp", f"(fp.roundToIntegral RTP {a[0].term})"), None, [])],
    r"<impl f64>::trunc$": lambda ex, c, a: [([], "return", S("fp", f"(fp.roundToIntegral RTZ {a[0].term})"), None, [])],
    r"<impl f64>::round$": lambda ex, c, a: [([], "return", S("fp", f"(fp.roundToIntegral RNA {a[0].term})"), None, [])],
}
