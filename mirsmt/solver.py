"""SMT solver back ends: one script per query (scripts are small; the expensive ones are FP queries that run
for seconds to minutes, so process start-up is irrelevant), with a wall-clock and memory cap.
Any `(error` line, `unknown`, timeout or crash is INCONCLUSIVE — never a verdict."""
import os
import re
import resource
import subprocess
import time

SOLVERS = {
    "cvc5": ["/usr/bin/cvc5", "--lang", "smt2", "--produce-models"],
    "cvc5-fpexp": ["/usr/bin/cvc5", "--lang", "smt2", "--produce-models", "--fp-exp"],
    "z3": ["/usr/bin/z3", "-in", "-smt2"],
    "z3-new": ["z3-new", "-in", "-smt2"],
}


class Result:
    def __init__(self, status, model=None, wall=0.0, raw="", solver=""):
        self.status = status   # 'sat' | 'unsat' | 'inconclusive'
        self.model = model or {}
        self.wall = wall
        self.raw = raw
        self.solver = solver

    def __repr__(self):
        return f"<{self.solver} {self.status} {self.wall:.2f}s>"


def _limit(mem_gb):
    def f():
        b = int(mem_gb * (1 << 30))
        resource.setrlimit(resource.RLIMIT_AS, (b, b))
        os.setsid()
    return f


def check(script_lines, get_values=(), solver="cvc5", timeout=120, mem_gb=8, save_as=None):
    """Run `(check-sat)` on the script; on sat fetch `get_values`. script_lines: list of SMT-LIB commands without
    check-sat."""
    lines = list(script_lines)
    if solver.startswith("cvc5"):
        lines = ["(set-option :produce-models true)"] + lines
    lines.append("(check-sat)")
    if get_values:
        lines.append("(get-value (" + " ".join(get_values) + "))")
    text = "\n".join(lines) + "\n"
    if save_as:
        os.makedirs(os.path.dirname(save_as), exist_ok=True)
        with open(save_as, "w") as f:
            f.write(text)
    t0 = time.time()
    try:
        p = subprocess.run(SOLVERS[solver], input=text, capture_output=True, text=True, timeout=timeout,
                           preexec_fn=_limit(mem_gb))
        out = p.stdout + p.stderr
    except subprocess.TimeoutExpired:
        return Result("inconclusive", wall=time.time() - t0, raw=f"timeout after {timeout} s", solver=solver)
    wall = time.time() - t0
    first = out.strip().split("\n")[0].strip() if out.strip() else ""
    # an (error ...) line makes the answer unusable - except the solver's complaint about our own get-value after `unsat`
    errs = [l for l in out.split("\n") if "(error" in l]
    benign = ("Cannot get value unless after a SAT", "model is not available", "cannot get value")
    has_error = any(not any(b.lower() in l.lower() for b in benign) for l in errs)
    if first == "unsat" and any("(error" in l for l in errs) and not has_error:
        has_error = False
    if first == "unsat" and not has_error:
        return Result("unsat", wall=wall, raw=out, solver=solver)
    if first == "sat":
        # an error after a sat verdict (e.g. get-value of an unknown symbol) makes the model unusable
        model = parse_values(out[out.index("sat") + 3:]) if get_values else {}
        if has_error and not model:
            return Result("inconclusive", wall=wall, raw=out[:2000], solver=solver)
        return Result("sat", model=model, wall=wall, raw=out, solver=solver)
    return Result("inconclusive", wall=wall, raw=out[:2000] or f"rc={p.returncode}", solver=solver)


def parse_values(text):
    """Parse `((a v) (b v))` into {a: raw value text}."""
    text = text.strip()
    res = {}
    # tokenise s-expressions
    toks = re.findall(r"\(|\)|[^\s()]+", text)
    pos = 0

    def parse():
        nonlocal pos
        t = toks[pos]
        pos += 1
        if t == "(":
            lst = []
            while toks[pos] != ")":
                lst.append(parse())
            pos += 1
            return lst
        return t
    try:
        top = parse()
    except IndexError:
        return res
    for pair in top:
        if isinstance(pair, list) and len(pair) == 2:
            res[to_text(pair[0])] = pair[1]
    return res


def to_text(s):
    if isinstance(s, list):
        return "(" + " ".join(to_text(x) for x in s) + ")"
    return s


def value_int(v):
    """SMT value -> Python int (Int: `5`, `(- 5)`; BitVec: `#x..`, `#b..`, `(_ bvN w)`)."""
    if isinstance(v, list):
        if len(v) == 2 and v[0] == "-":
            return -value_int(v[1])
        if len(v) == 3 and v[0] == "_" and v[1].startswith("bv"):
            return int(v[1][2:])
        raise ValueError(v)
    if v.startswith("#x"):
        return int(v[2:], 16)
    if v.startswith("#b"):
        return int(v[2:], 2)
    return int(v)


def value_bv_signed(v, bits):
    n = value_int(v)
    return n - (1 << bits) if n >= (1 << (bits - 1)) else n


def value_fp_bits(v, eb, sb):
    """SMT FloatingPoint value -> integer bit pattern (sign|exp|mantissa)."""
    if isinstance(v, list):
        if v[0] == "fp":
            s, e, m = (value_int(x) for x in v[1:4])
            return (s << (eb + sb - 1)) | (e << (sb - 1)) | m
        if v[0] == "_":
            kind = v[1]
            emax = (1 << eb) - 1
            if kind == "+zero":
                return 0
            if kind == "-zero":
                return 1 << (eb + sb - 1)
            if kind == "+oo":
                return emax << (sb - 1)
            if kind == "-oo":
                return (1 << (eb + sb - 1)) | (emax << (sb - 1))
            if kind == "NaN":
                return (emax << (sb - 1)) | (1 << (sb - 2))
    raise ValueError(v)


def check_many(prefix_lines, queries, solver="z3", timeout=300, mem_gb=8):
    """Many small satisfiability queries over one shared prefix in ONE solver process (push / assert / check-sat / pop): process
    start-up, not solving, dominates thousands of tiny queries.  `queries`: list of lists of assertion terms.
    Returns a list of 'sat' | 'unsat' | 'inconclusive' (any `(error` line makes the whole batch inconclusive)."""
    if not queries:
        return []
    lines = list(prefix_lines)
    for k, q in enumerate(queries):
        lines.append("(push 1)")
        for a in q:
            lines.append(f"(assert {a})")
        lines.append("(check-sat)")
        lines.append(f'(echo "end-{k}")')
        lines.append("(pop 1)")
    text = "\n".join(lines) + "\n"
    cmd = list(SOLVERS[solver])
    if solver.startswith("cvc5"):
        cmd.append("--incremental")
    try:
        p = subprocess.run(cmd, input=text, capture_output=True, text=True, timeout=timeout, preexec_fn=_limit(mem_gb))
    except subprocess.TimeoutExpired:
        return ["inconclusive"] * len(queries)
    out = p.stdout + p.stderr
    if "(error" in out:
        return ["inconclusive"] * len(queries)
    res, cur = [], None
    for line in out.splitlines():
        line = line.strip().strip('"')
        if line in ("sat", "unsat", "unknown"):
            cur = line
        elif line.startswith("end-"):
            res.append(cur if cur in ("sat", "unsat") else "inconclusive")
            cur = None
    if len(res) != len(queries):
        return ["inconclusive"] * len(queries)
    return res
