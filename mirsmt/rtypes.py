"""Registry of enum / struct definitions read from the repository's Rust sources: variant order (= discriminant
values for field-less and data-carrying enums without explicit discriminants) and field types. Regenerated from
the working tree on every run."""
import os
import re

from mir import Unsupported, split_top


class TypeDef:
    def __init__(self, name, modpath, kind, generics, variants, file):
        self.name = name
        self.modpath = modpath      # e.g. backend::ir::expr::BinOp / incan_core::NumericOp
        self.kind = kind            # 'enum' | 'struct'
        self.generics = generics    # ['T', ...]
        self.variants = variants    # enum: [(VariantName, [(fieldname|idx, type)])]; struct: [(None, fields)]
        self.file = file

    def field_type(self, variant, idx, inst_text):
        if self.kind == "struct":
            fields = self.variants[0][1]
        else:
            fs = [v for v in self.variants if v[0] == variant]
            if not fs:
                raise Unsupported(f"{self.name} has no variant {variant}")
            fields = fs[0][1]
        if idx >= len(fields):
            raise Unsupported(f"{self.name}::{variant} has no field {idx}")
        t = fields[idx][1]
        # substitute generic parameters from the instantiation text  Name<A, B>
        if self.generics:
            m = re.match(r"^[^<]*<(.*)>$", inst_text.strip())
            if m:
                args = [a for a in split_top(m.group(1)) if not a.startswith("'")]
                for g, a in zip(self.generics, args):
                    t = re.sub(r"(?<![\w:])" + re.escape(g) + r"(?![\w])", a, t)
        return t

    def __repr__(self):
        return f"<{self.kind} {self.modpath}>"


BUILTINS = [
    TypeDef("Option", "std::option::Option", "enum", ["T"], [("None", []), ("Some", [(0, "T")])], "<std>"),
    TypeDef("Result", "std::result::Result", "enum", ["T", "E"], [("Ok", [(0, "T")]), ("Err", [(0, "E")])], "<std>"),
]


def strip_comments(src):
    src = re.sub(r"//[^\n]*", "", src)
    src = re.sub(r"/\*.*?\*/", "", src, flags=re.S)
    return src


def strip_attrs(s):
    # remove #[...] attributes (balanced brackets)
    out = []
    i = 0
    while i < len(s):
        if s[i] == "#" and i + 1 < len(s) and s[i + 1] == "[":
            d = 0
            j = i + 1
            while j < len(s):
                if s[j] == "[":
                    d += 1
                elif s[j] == "]":
                    d -= 1
                    if d == 0:
                        break
                j += 1
            i = j + 1
            continue
        out.append(s[i])
        i += 1
    return "".join(out)


def _body(src, start):
    """src[start] == '{' -> (body text, index after closing brace)"""
    d = 0
    for j in range(start, len(src)):
        if src[j] == "{":
            d += 1
        elif src[j] == "}":
            d -= 1
            if d == 0:
                return src[start + 1:j], j + 1
    return None, len(src)


def parse_fields_named(body):
    fields = []
    for part in split_top(body):
        part = re.sub(r"^\s*pub(\([^)]*\))?\s+", "", part.strip())
        if ":" in part:
            n, t = part.split(":", 1)
            fields.append((n.strip(), t.strip()))
    return fields


def parse_fields_tuple(body):
    fields = []
    for k, part in enumerate(split_top(body)):
        part = re.sub(r"^\s*pub(\([^)]*\))?\s+", "", part.strip())
        fields.append((k, part))
    return fields


def parse_file(path, modprefix):
    src = strip_attrs(strip_comments(open(path, errors="replace").read()))
    defs = []
    for m in re.finditer(r"\btype\s+(\w+)\s*=\s*([^;]+);", src):
        td = TypeDef(m.group(1), f"{modprefix}::{m.group(1)}", "alias", [], [], path)
        td.target = m.group(2).strip()
        defs.append(td)
    for m in re.finditer(r"\b(enum|struct)\s+(\w+)\s*(<[^>{(;]*>)?\s*(\{|\(|;)", src):
        kind, name, gen, opener = m.groups()
        generics = [g.strip().split(":")[0].strip() for g in split_top(gen[1:-1])] if gen else []
        generics = [g for g in generics if not g.startswith("'")]
        if opener == ";":
            defs.append(TypeDef(name, f"{modprefix}::{name}", "struct", generics, [(None, [])], path))
            continue
        if kind == "struct":
            if opener == "{":
                body, _ = _body(src, m.end() - 1)
                defs.append(TypeDef(name, f"{modprefix}::{name}", "struct", generics, [(None, parse_fields_named(body or ""))], path))
            else:
                # tuple struct: find matching paren
                d, j = 0, m.end() - 1
                while j < len(src):
                    if src[j] == "(":
                        d += 1
                    elif src[j] == ")":
                        d -= 1
                        if d == 0:
                            break
                    j += 1
                defs.append(TypeDef(name, f"{modprefix}::{name}", "struct", generics,
                                    [(None, parse_fields_tuple(src[m.end():j]))], path))
            continue
        body, _ = _body(src, m.end() - 1)
        variants = []
        explicit = False
        for part in split_top(body or ""):
            part = part.strip()
            if not part:
                continue
            vm = re.match(r"^(\w+)\s*(\((.*)\)|\{(.*)\})?\s*(=\s*.+)?$", part, re.S)
            if not vm:
                continue
            if vm.group(5):
                explicit = True
            if vm.group(3) is not None:
                variants.append((vm.group(1), parse_fields_tuple(vm.group(3))))
            elif vm.group(4) is not None:
                variants.append((vm.group(1), parse_fields_named(vm.group(4))))
            else:
                variants.append((vm.group(1), []))
        td = TypeDef(name, f"{modprefix}::{name}", "enum", generics, variants, path)
        td.explicit_discriminants = explicit
        defs.append(td)
    return defs


def module_prefix(root, path, crate):
    rel = os.path.relpath(path, root)
    rel = re.sub(r"\.rs$", "", rel)
    parts = [p for p in rel.split(os.sep) if p not in ("mod", "lib", "main")]
    return "::".join([crate] + parts) if parts else crate


class Registry:
    def __init__(self, repo="/repo"):
        self.defs = list(BUILTINS)
        roots = [(os.path.join(repo, "src"), "incan"), (os.path.join(repo, "crates/incan_core/src"), "incan_core"),
                 (os.path.join(repo, "crates/incan_syntax/src"), "incan_syntax"),
                 (os.path.join(repo, "crates/incan_stdlib/src"), "incan_stdlib")]
        for root, crate in roots:
            for d, _, files in os.walk(root):
                for f in sorted(files):
                    if f.endswith(".rs"):
                        p = os.path.join(d, f)
                        self.defs += parse_file(p, module_prefix(root, p, crate))
        self.cache = {}

    def resolve(self, ty_text, ctx=None):
        """`&backend::ir::types::IrType`, `Option<PowExponentKind>`, `ir::expr::BinOp` -> TypeDef | None (opaque)."""
        t = ty_text.strip()
        while t.startswith("&"):
            t = re.sub(r"^&\s*('\w+\s+)?(mut\s+)?", "", t)
        head = re.sub(r"<.*$", "", t).strip()
        ckey = (head, ctx)
        if ckey in self.cache:
            return self.cache[ckey]
        segs = head.split("::")
        cands = [d for d in self.defs if d.name == segs[-1]]
        if len(cands) > 1 and len(segs) > 1:
            c2 = [d for d in cands if d.modpath.endswith("::".join(segs)) or all(s in d.modpath.split("::") for s in segs[:-1])]
            if c2:
                cands = c2
        if len(cands) > 1 and ctx:
            # a bare name used inside a type definition refers to the definition in (or nearest to) the same module
            cm = ctx.split("::")[:-1]

            def common(d):
                dm = d.modpath.split("::")[:-1]
                n = 0
                while n < len(cm) and n < len(dm) and cm[n] == dm[n]:
                    n += 1
                return n
            best = max(common(d) for d in cands)
            c3 = [d for d in cands if common(d) == best]
            if len(c3) == 1:
                cands = c3
        if len(cands) > 1:
            # identical re-declarations are fine; otherwise ambiguous
            sigs = {(d.kind, tuple(v[0] for v in d.variants)) for d in cands}
            if len(sigs) > 1:
                raise Unsupported(f"type name {head} is ambiguous: {[d.modpath for d in cands]}")
        r = cands[0] if cands else None
        if r is not None and r.kind == "alias":
            r = self.resolve(r.target, r.modpath)
        if r is not None and r.kind == "enum" and getattr(r, "explicit_discriminants", False):
            raise Unsupported(f"enum {r.modpath} has explicit discriminants (not modelled)")
        self.cache[ckey] = r
        return r
