"""C04 — arithmetic follows the documented Python-style semantics for all operands.

Engine E2: the numeric kernels, wrappers, trait impl bodies and generic front ends are symbolically executed from
the working tree's MIR (mirsmt/) and each obligation is asked of cvc5 / z3 with the property NEGATED: `unsat` = holds
for every operand pair inside the encoding's bound, `sat` = a model that is replayed against the native build.
"""
import math
import os
import re
import struct
import sys
import time

import common
from common import Inconclusive, say

sys.path.insert(0, os.path.join(common.VERIF, "mirsmt"))
import dump  # noqa: E402
import mir  # noqa: E402
import solver  # noqa: E402
import symex  # noqa: E402
from symex import Enc, Executor, Program, conj, disj, neg  # noqa: E402

RAISE_ZERO = ("raise(IncanError::None[('kind', ErrorKind::ZeroDivisionError[]), "
              "('args', ErrorArgs::Static[opaque<const \"float division by zero\">])])")
ZERO_DIV_TEXT = "ZeroDivisionError: float division by zero"

I64_MIN, I64_MAX = -(1 << 63), (1 << 63) - 1


# ---------------------------------------------------------------------------------------------------------------
# program loading

def load_program(log):
    t0 = time.time()
    try:
        std_text, s1, p1 = dump.dump_mir("incan_stdlib", repo=common.REPO)
        core_text, s2, p2 = dump.dump_mir("incan_core", repo=common.REPO)
    except dump.DumpError as e:
        raise Inconclusive(str(e))
    std = mir.parse_mir(std_text)
    core = mir.parse_mir(core_text)
    p_std = Program()
    p_std.add(std, common.REPO)
    p_std.add({"incan_core::" + k: v for k, v in core.items()}, common.REPO)
    p_core = Program()
    p_core.add(core, common.REPO)
    log["mir_dump_s"] = round(time.time() - t0, 1)
    log["mir_files"] = [p1, p2]
    return p_std, p_core


def need(prog, name):
    f = prog.lookup(name)
    if f is None:
        raise Inconclusive(f"function `{name}` not found in the MIR dump (renamed or removed?)")
    return f


class Ctx:
    """One obligation's encoding: fresh Enc + Executor, declared inputs, executed functions."""

    def __init__(self, prog, int_mode="int", int_bits=64, eb=11, sb=53):
        self.enc = Enc(int_mode, int_bits, eb, sb)
        self.ex = Executor(prog, self.enc, intrinsics=symex.NUMERIC_INTRINSICS)
        self.prog = prog
        self.inputs = {}

    def ivar(self, n):
        v = self.enc.int_var(n)
        self.inputs[n] = ("int", v)
        return v

    def fvar(self, n):
        v = self.enc.fp_var(n)
        self.inputs[n] = ("fp", v)
        return v

    def call(self, prog, name, args, subst=None):
        """-> (ok condition, result term, {panic info: condition})"""
        f = need(prog, name)
        old = self.ex.p
        self.ex.p = prog
        try:
            outs = self.ex.run(f, args, subst or {})
        finally:
            self.ex.p = old
        rets = [o for o in outs if o.kind == "return"]
        panics = {}
        for o in outs:
            if o.kind == "panic":
                panics.setdefault(o.info, []).append(o.cond())
        panics = {k: disj(v) for k, v in panics.items()}
        ok = disj([o.cond() for o in rets])
        term = None
        sort = None
        for o in reversed(rets):
            v = o.value
            if not isinstance(v, symex.Scalar):
                raise Inconclusive(f"{name} returns a non-scalar value {v!r}")
            sort = v.sort
            term = v.term if term is None else f"(ite {o.cond()} {v.term} {term})"
        if term is not None:
            s = {"int": self.enc.int_sort(), "fp": self.enc.fp_sort(), "bool": "Bool"}[sort]
            term = self.enc.share(s, term)
        return ok, term, panics

    def script(self, assertions):
        lines = self.enc.preamble()
        for s in self.enc.side:
            lines.append(f"(assert {s})")
        for a in assertions:
            lines.append(f"(assert {a})")
        return lines


# ---------------------------------------------------------------------------------------------------------------
# obligations

class Ob:
    def __init__(self, oid, statement, bound, encoding, solvers, timeout, build, replay=None, tiers=("quick", "thorough"),
                 finding=None, escalate=None):
        self.id = oid
        self.statement = statement
        self.bound = bound
        self.encoding = encoding
        self.solvers = solvers        # first = deciding solver, others = cross-check
        self.timeout = timeout
        self.build = build            # () -> (ctx, pre assertions, negated goal, get-value names, functions)
        self.replay = replay          # (model) -> (reproduced: bool, text, replay_line)
        self.tiers = tiers
        self.finding = finding
        self.escalate = escalate


def zero_div_split(panics):
    raise_c = panics.get(RAISE_ZERO, "false")
    other = disj([c for k, c in panics.items() if k != RAISE_ZERO]) if any(k != RAISE_ZERO for k in panics) else "false"
    return raise_c, other


def replay_bin(log_dir):
    import kani
    return kani.build_replay("dev", False, log_dir), kani.build_replay("release", False, log_dir)


def native(fn, a, b, log_dir):
    """Call the real function natively in both profiles -> {'dev': ('OK'|'PANIC', payload), 'release': ...}"""
    res = {}
    for prof, binp in zip(("dev", "release"), replay_bin(log_dir)):
        rc, out, _, to = common.run([binp, "num", fn, str(a), str(b)], timeout=60)
        line = out.strip().splitlines()[-1] if out.strip() else ""
        if to or not line:
            res[prof] = ("ERROR", "no output")
        elif line.startswith("OK "):
            res[prof] = ("OK", line[3:])
        elif line.startswith("PANIC "):
            res[prof] = ("PANIC", line[6:])
        else:
            res[prof] = ("ERROR", line)
    return res


def f64_from_bits(bits):
    return struct.unpack("<d", struct.pack("<Q", bits))[0]


def f64_bits(x):
    return struct.unpack("<Q", struct.pack("<d", x))[0]


def native_f(payload):
    return f64_from_bits(int(payload.split()[0], 16))


def fbits_arg(x):
    return "0x%016x" % f64_bits(x)


def widen(bits, eb, sb):
    """bit pattern of an (eb,sb) float -> exact Python float"""
    sign = bits >> (eb + sb - 1)
    e = (bits >> (sb - 1)) & ((1 << eb) - 1)
    m = bits & ((1 << (sb - 1)) - 1)
    bias = (1 << (eb - 1)) - 1
    if e == (1 << eb) - 1:
        v = float("inf") if m == 0 else float("nan")
    elif e == 0:
        v = math.ldexp(m, 1 - bias - (sb - 1))
    else:
        v = math.ldexp(m + (1 << (sb - 1)), e - bias - (sb - 1))
    return -v if sign else v


def model_int(model, name, enc):
    v = model[name]
    if enc.int_mode == "int":
        return solver.value_int(v)
    return solver.value_bv_signed(v, enc.int_bits)


def model_fp(model, name, enc):
    return widen(solver.value_fp_bits(model[name], enc.eb, enc.sb), enc.eb, enc.sb)


# Python-level statements of the properties, evaluated on NATIVE results during replay ------------------------

def py_floor_ok(a, b, q):
    return q == a // b


def py_mod_ok(a, b, r):
    return r == a % b


def fsign_ok(a, b, r):
    return (r == 0.0 or (math.copysign(1.0, r) == math.copysign(1.0, b))) and abs(r) <= abs(b) and not math.isnan(r)


def in_known_class(a, b):
    """The F-strict known-finding class, evaluated natively: fmod(a,b) != 0, its sign differs from b's, and the sign
    fix-up fmod(a,b) + b rounds to b."""
    m = math.fmod(a, b)
    return m != 0.0 and (math.copysign(1.0, m) != math.copysign(1.0, b)) and (m + b == b)


def same_float(x, y):
    return (math.isnan(x) and math.isnan(y)) or f64_bits(x) == f64_bits(y)


def py_fmod_kernel(a, b):
    r = math.fmod(a, b)
    if (r > 0.0 and b < 0.0) or (r < 0.0 and b > 0.0):
        r = r + b
    return r


def build_obligations(p_std, p_core, tier, log_dir):
    obs = []
    fp_fmt = (8, 24) if tier == "quick" else (11, 53)
    fp_name = "f32 (quick-tier stand-in for f64; a sat is escalated to f64 / replayed natively)" if tier == "quick" else "f64"
    fp_to = 300 if tier == "quick" else 1800
    dec = ["cvc5", "z3"]

    def int_pre(a, b, enc, exclude_min_neg1=True):
        pre = [neg(enc.icmp("Eq", b.term, enc.int_const(0)))]
        if exclude_min_neg1:
            pre.append(neg(f"(and {enc.icmp('Eq', a.term, enc.int_const(enc.imin()))} {enc.icmp('Eq', b.term, enc.int_const(-1))})"))
        return pre

    KER = {"std": (p_std, "num::py_mod_i64_impl", "num::py_floor_div_i64_impl", "num::py_mod_f64_impl"),
           "core": (p_core, "py_mod_i64_impl", "py_floor_div_i64_impl", "py_mod_f64_impl")}
    NATIVE = {("std", "mod"): "py_mod_i64", ("std", "fdiv"): "py_floor_div_i64", ("core", "mod"): "core::py_mod_i64_impl",
              ("core", "fdiv"): "core::py_floor_div_i64_impl", ("std", "fmod"): "py_mod_f64", ("core", "fmod"): "core::py_mod_f64_impl"}

    # ---- integers, full i64 (Int + lemma), and bit-exact cross-checks ---------------------------------------
    def mk_int(which, kind, mode, bits):
        prog, modn, fdivn, _ = KER[which]

        def build():
            c = Ctx(prog, mode, bits)
            e = c.enc
            a, b = c.ivar("a"), c.ivar("b")
            okm, r, pm = c.call(prog, modn, [a, b])
            okd, q, pd = c.call(prog, fdivn, [a, b])
            zero = e.int_const(0)
            if kind == "sign":
                pre = int_pre(a, b, e, False) + [okm]
                pos = e.icmp("Gt", b.term, zero)
                goal = (f"(and (=> {pos} (and {e.icmp('Ge', r, zero)} {e.icmp('Lt', r, b.term)})) "
                        f"(=> {neg(pos)} (and {e.icmp('Le', r, zero)} {e.icmp('Gt', r, b.term)})))")
            elif kind == "floor":
                pre = int_pre(a, b, e) + [okd]
                if mode == "int":
                    qb = f"(* {q} {b.term})"
                    pos = f"(> {b.term} 0)"
                    goal = (f"(and (=> {pos} (and (<= {qb} {a.term}) (< {a.term} (+ {qb} {b.term})))) "
                            f"(=> (not {pos}) (and (>= {qb} {a.term}) (> {a.term} (+ {qb} {b.term})))))")
                else:
                    w = bits
                    ext = lambda t: f"((_ sign_extend {w}) {t})"  # noqa: E731
                    qb = f"(bvmul {ext(q)} {ext(b.term)})"
                    pos = f"(bvsgt {b.term} {zero})"
                    goal = (f"(and (=> {pos} (and (bvsle {qb} {ext(a.term)}) (bvslt {ext(a.term)} (bvadd {qb} {ext(b.term)})))) "
                            f"(=> (not {pos}) (and (bvsge {qb} {ext(a.term)}) (bvsgt {ext(a.term)} (bvadd {qb} {ext(b.term)})))))")
            elif kind == "ident":
                pre = int_pre(a, b, e) + [okm, okd]
                if mode == "int":
                    goal = f"(= {a.term} (+ (* {q} {b.term}) {r}))"
                else:
                    goal = f"(= {a.term} (bvadd (bvmul {q} {b.term}) {r}))"
            elif kind == "nopanic":
                pre = []
                goal = conj([f"(=> {conj(int_pre(a, b, e, False))} {okm})", f"(=> {conj(int_pre(a, b, e, True))} {okd})"])
            else:
                raise ValueError(kind)
            return c, pre, neg(goal), ["a", "b"], list(c.ex.encoded)

        def replay(model, c):
            a, b = model_int(model, "a", c.enc), model_int(model, "b", c.enc)

            def run_native(a, b):
                texts = []
                bad = False
                rm = native(NATIVE[(which, "mod")], a, b, log_dir)
                rd = native(NATIVE[(which, "fdiv")], a, b, log_dir)
                for prof in ("dev", "release"):
                    km, vm = rm[prof]
                    kd, vd = rd[prof]
                    okm_ = km == "OK" and py_mod_ok(a, b, int(vm))
                    okd_ = kd == "OK" and py_floor_ok(a, b, int(vd))
                    if kind in ("sign",) and not okm_:
                        bad = True
                    if kind in ("floor",) and not okd_:
                        bad = True
                    if kind in ("ident", "nopanic") and not (okm_ and okd_):
                        bad = True
                    texts.append(f"{prof}: {a} % {b} -> {km} {vm} (Python {a % b}); {a} // {b} -> {kd} {vd} (Python {a // b})")
                return bad, "; ".join(texts)
            fn = NATIVE[(which, "mod" if kind == "sign" else "fdiv")]
            if c.enc.int_bits != 64:
                # a counterexample of the SAME code at a narrower width: carry it to 64 bits relative to the nearest of MIN / 0 / MAX
                # (overflow and rounding bugs live at those anchors) and believe it only if the real i64 code reproduces it
                w = c.enc.int_bits
                lo, hi = -(1 << (w - 1)), (1 << (w - 1)) - 1
                LO, HI = -(1 << 63), (1 << 63) - 1

                def lifts(v):
                    out = [v, LO + (v - lo), HI - (hi - v)]
                    return [x for k, x in enumerate(out) if LO <= x <= HI and x not in out[:k]]
                tried = []
                for a2 in lifts(a):
                    for b2 in lifts(b):
                        if b2 == 0 or (a2, b2) == (LO, -1) and kind != "sign":
                            continue
                        bad, text = run_native(a2, b2)
                        tried.append(f"({a2}, {b2})")
                        if bad:
                            return True, f"{w}-bit model a={a} b={b} carried to i64 as a={a2} b={b2}: " + text, f"num {fn} {a2} {b2}"
                return None, (f"model a={a} b={b} at {w} bits: none of its 64-bit images {', '.join(tried)} reproduces on the i64 code "
                              "(a width-specific artefact of the cross-check, or a violation away from the anchors)"), None
            bad, text = run_native(a, b)
            return bad, text, f"num {fn} {a} {b}"
        return build, replay

    stmts = {
        "sign": "b != 0 => a % b is 0 or has the sign of b, with |a % b| < |b| (including (i64::MIN, -1) -> 0)",
        "floor": "b != 0 and (a,b) != (MIN,-1) => q = a // b satisfies q*b <= a < q*b + b (b > 0) / q*b >= a > q*b + b (b < 0): rounds toward -inf",
        "ident": "b != 0 and (a,b) != (MIN,-1) => a == (a // b) * b + a % b on the outputs of the two real functions",
        "nopanic": "b != 0 => no assert terminator (overflow, division by zero) is reachable in `%` (including (MIN,-1)), and the same for `//` "
                   "when (a,b) != (MIN,-1) (hence dev and release builds compute the same value)",
    }
    for which in ("std", "core"):
        for kind in ("sign", "floor", "ident", "nopanic"):
            b_, r_ = mk_int(which, kind, "int", 64)
            obs.append(Ob(f"I-{kind}-{which}", stmts[kind] + f" [{which} kernels]", "all (a, b) in i64 x i64",
                          "Int + truncated-division lemma", dec, 120, b_, r_))
    for kind, bits in (("sign", 8), ("sign", 16), ("floor", 8), ("ident", 8), ("nopanic", 8), ("nopanic", 16)):
        b_, r_ = mk_int("std", kind, "bv", bits)
        obs.append(Ob(f"I-{kind}-std-bv{bits}", stmts[kind] + f" [std kernels; bit-exact cross-check of the lemma encoding at {bits} bits]",
                      f"all (a, b) at {bits}-bit two's complement", f"BitVec{bits}", ["z3", "cvc5"], 300, b_, r_))

    # ---- parity core vs stdlib ---------------------------------------------------------------------------------
    def mk_parity(kind, mode, bits):
        def build():
            c = Ctx(p_std, mode, bits)
            e = c.enc
            a, b = c.ivar("a"), c.ivar("b")
            i_std = 1 if kind == "mod" else 2
            ok1, v1, p1 = c.call(p_std, KER["std"][i_std], [a, b])
            ok2, v2, p2 = c.call(p_core, KER["core"][i_std], [a, b])
            pre = int_pre(a, b, e, kind != "mod")
            goal = f"(and (= {ok1} {ok2}) (=> {ok1} (= {v1} {v2})))"
            return c, pre, neg(goal), ["a", "b"], list(c.ex.encoded)

        def replay(model, c):
            a, b = model_int(model, "a", c.enc), model_int(model, "b", c.enc)
            if c.enc.int_bits != 64:
                return None, f"{c.enc.int_bits}-bit model cannot be replayed", None
            n1 = native(NATIVE[("std", "mod" if kind == "mod" else "fdiv")], a, b, log_dir)
            n2 = native(NATIVE[("core", "mod" if kind == "mod" else "fdiv")], a, b, log_dir)
            bad = any(n1[p] != n2[p] for p in ("dev", "release"))
            return bad, f"stdlib {n1} vs core {n2} on ({a}, {b})", f"num {NATIVE[('std', 'mod' if kind == 'mod' else 'fdiv')]} {a} {b}"
        return build, replay
    for kind in ("mod", "fdiv"):
        b_, r_ = mk_parity(kind, "int", 64)
        obs.append(Ob(f"I-parity-{kind}", f"incan_core and incan_stdlib kernels for `{'%' if kind == 'mod' else '//'}` agree on every operand pair "
                      "(same value, same failure)", "all (a, b) in i64 x i64, b != 0", "Int + truncated-division lemma", dec, 120, b_, r_))
    b_, r_ = mk_parity("mod", "bv", 16)
    obs.append(Ob("I-parity-mod-bv16", "core/stdlib `%` parity, bit-exact cross-check", "all (a, b) at 16 bits", "BitVec16", ["z3", "cvc5"], 300, b_, r_))

    # ---- wrappers and generic front ends: raise <=> zero divisor; value = kernel --------------------------------
    def mk_front(name, lt, rt, kernel_kind):
        """name in {py_mod_i64, py_floor_div_i64, py_mod_f64, py_floor_div_f64} (lt/rt None) or generic py_mod/py_floor_div/py_div."""
        generic = name in ("py_mod", "py_floor_div", "py_div")

        def build():
            ints_bv = (lt == "f64" or rt == "f64" or kernel_kind == "div")
            c = Ctx(p_std, "bv" if ints_bv else "int", 64, *fp_fmt)
            e = c.enc
            a = c.ivar("a") if lt == "i64" else c.fvar("a")
            b = c.ivar("b") if rt == "i64" else c.fvar("b")
            subst = {"L": lt, "R": rt} if generic else {}
            ok, v, panics = c.call(p_std, name, [a, b], subst)
            raise_c, other = zero_div_split(panics)
            bz = e.icmp("Eq", b.term, e.int_const(0)) if rt == "i64" else f"(fp.isZero {b.term})"
            pa = a if lt == "f64" else symex.S("fp", e.int_to_fp(a))
            pb = b if rt == "f64" else symex.S("fp", e.int_to_fp(b))
            # reference value: the documented kernel applied to the promoted operands
            if kernel_kind == "div":
                ref = f"(fp.div RNE {pa.term} {pb.term})"
                okr = "true"
            elif lt == "i64" and rt == "i64":
                okr, ref, _ = c.call(p_std, KER["std"][1 if kernel_kind == "mod" else 2], [a, b])
            elif kernel_kind == "mod":
                okr, ref, _ = c.call(p_std, KER["std"][3], [pa, pb])
            else:
                ref = f"(fp.roundToIntegral RTN (fp.div RNE {pa.term} {pb.term}))"
                okr = "true"
            extra = []
            if lt == "i64" and rt == "i64" and kernel_kind == "fdiv":
                extra = [neg(f"(and {e.icmp('Eq', a.term, e.int_const(e.imin()))} {e.icmp('Eq', b.term, e.int_const(-1))})")]
            goal = conj([f"(= {raise_c} {bz})", neg(other) if not extra else f"(=> {conj(extra)} {neg(other)})",
                         f"(=> (and {neg(bz)} {conj(extra + [okr])}) (and {ok} (= {v} {ref})))"])
            return c, [], neg(goal), ["a", "b"], list(c.ex.encoded)

        nat = name if not generic else f"{name}<{lt},{rt}>"

        def replay(model, c):
            e = c.enc
            av = model_int(model, "a", e) if lt == "i64" else model_fp(model, "a", e)
            bv = model_int(model, "b", e) if rt == "i64" else model_fp(model, "b", e)
            aa = str(av) if lt == "i64" else fbits_arg(av)
            ba = str(bv) if rt == "i64" else fbits_arg(bv)
            n = native(nat, aa, ba, log_dir)
            bad = False
            texts = []
            for prof in ("dev", "release"):
                k, val = n[prof]
                zero = (bv == 0)
                if zero:
                    okp = (k == "PANIC" and val == ZERO_DIV_TEXT)
                    want = "raise " + ZERO_DIV_TEXT
                else:
                    fa, fb = float(av), float(bv)
                    if lt == "i64" and rt == "i64" and kernel_kind != "div":
                        want = av % bv if kernel_kind == "mod" else av // bv
                        okp = k == "OK" and int(val) == want
                    else:
                        want = fa / fb if kernel_kind == "div" else (py_fmod_kernel(fa, fb) if kernel_kind == "mod" else
                                                                      float(math.floor(fa / fb)) if math.isfinite(fa / fb) else fa / fb)
                        okp = k == "OK" and same_float(native_f(val), want)
                if not okp:
                    bad = True
                texts.append(f"{prof}: {nat}({av!r}, {bv!r}) -> {k} {val}; documented: {want!r}")
            return bad, "; ".join(texts), f"num {nat} {aa} {ba}"
        return build, replay

    fronts = [("py_mod_i64", "i64", "i64", "mod"), ("py_floor_div_i64", "i64", "i64", "fdiv"),
              ("py_mod_f64", "f64", "f64", "mod"), ("py_floor_div_f64", "f64", "f64", "fdiv")]
    for g, kk in (("py_mod", "mod"), ("py_floor_div", "fdiv"), ("py_div", "div")):
        for lt in ("i64", "f64"):
            for rt in ("i64", "f64"):
                fronts.append((g, lt, rt, kk))
    for name, lt, rt, kk in fronts:
        b_, r_ = mk_front(name, lt, rt, kk)
        generic = name in ("py_mod", "py_floor_div", "py_div")
        oid = f"W-{name}" + (f"<{lt},{rt}>" if generic else "")
        has_fp = "f64" in (lt, rt) or kk == "div"
        obs.append(Ob(oid, f"{oid[2:]}: stops with raise(IncanError::zero_division()) iff the divisor is zero (ints: == 0; floats: +-0.0; "
                      "NaN/inf do not raise), no other failure, and otherwise returns the documented kernel applied to the (int -> float "
                      "promoted) operands" + (" = the IEEE quotient" if kk == "div" else ""),
                      "all operand pairs of the instantiated types" + (" (i64::MIN // -1 excluded)" if (lt, rt, kk) == ("i64", "i64", "fdiv") else ""),
                      ("BitVec64 ints; " if has_fp and "i64" in (lt, rt) else "") + (fp_name if has_fp else "Int + lemma"),
                      ["cvc5"] if has_fp else dec, fp_to if has_fp else 120, b_, r_))

    # ---- float kernels ----------------------------------------------------------------------------------------
    def mk_fsign(which, strict, exclude_known):
        prog, _, _, fmodn = KER[which]

        def build():
            c = Ctx(prog, "int", 64, *fp_fmt)
            e = c.enc
            a, b = c.fvar("a"), c.fvar("b")
            ok, r, panics = c.call(prog, fmodn, [a, b])
            fin = lambda t: f"(not (or (fp.isNaN {t}) (fp.isInfinite {t})))"  # noqa: E731
            pre = [fin("a"), fin("b"), "(not (fp.isZero b))", ok]
            cmp = "fp.lt" if strict else "fp.leq"
            goal = (f"(and (not (fp.isNaN {r})) (or (fp.isZero {r}) (= (fp.isNegative {r}) (fp.isNegative b))) "
                    f"({cmp} (fp.abs {r}) (fp.abs b)))")
            if exclude_known:
                m = e.fmod("a", "b")
                cls = (f"(and (not (fp.isZero {m})) (not (= (fp.isNegative {m}) (fp.isNegative b))) "
                       f"(fp.eq (fp.add RNE {m} b) b))")
                pre.append(neg(cls))
            return c, pre, neg(goal), ["a", "b"], list(c.ex.encoded)

        def replay(model, c):
            a, b = model_fp(model, "a", c.enc), model_fp(model, "b", c.enc)
            n = native(NATIVE[(which, "fmod")], fbits_arg(a), fbits_arg(b), log_dir)
            bad = False
            texts = []
            for prof in ("dev", "release"):
                k, val = n[prof]
                if k != "OK":
                    bad = True
                    texts.append(f"{prof}: {a!r} % {b!r} -> {k} {val}")
                    continue
                r = native_f(val)
                okp = fsign_ok(a, b, r) and (not strict or abs(r) < abs(b))
                if exclude_known and in_known_class(a, b):
                    okp = True   # the recorded known finding, not a new violation
                if not okp:
                    bad = True
                texts.append(f"{prof}: {a!r} % {b!r} -> {r!r}")
            return bad, "; ".join(texts), f"num {NATIVE[(which, 'fmod')]} {fbits_arg(a)} {fbits_arg(b)}"
        return build, replay
    for which in ("std", "core"):
        b_, r_ = mk_fsign(which, False, False)
        obs.append(Ob(f"F-sign-{which}", f"finite a, finite b != 0 => r = a % b is not NaN, is +-0 or has the sign of b, and |r| <= |b| [{which} kernel]",
                      "all finite (a, b), b != 0", fp_name, ["cvc5"], fp_to, b_, r_))
    b_, r_ = mk_fsign("std", True, True)
    obs.append(Ob("F-strict-std", "... and |r| < |b| strictly (the property's wording), outside the recorded known-finding class "
                  "{fmod(a,b) != 0, sign differs from b, RNE(fmod(a,b) + b) == b}", "all finite (a, b), b != 0, class excluded", fp_name, ["cvc5"], fp_to, b_, r_))

    def mk_fparity():
        def build():
            c = Ctx(p_std, "int", 64, *fp_fmt)
            a, b = c.fvar("a"), c.fvar("b")
            ok1, v1, _ = c.call(p_std, KER["std"][3], [a, b])
            ok2, v2, _ = c.call(p_core, KER["core"][3], [a, b])
            goal = f"(and {ok1} {ok2} (= {v1} {v2}))"
            return c, [], neg(goal), ["a", "b"], list(c.ex.encoded)

        def replay(model, c):
            a, b = model_fp(model, "a", c.enc), model_fp(model, "b", c.enc)
            n1 = native("py_mod_f64", fbits_arg(a), fbits_arg(b), log_dir) if b != 0 else None
            n2 = native("core::py_mod_f64_impl", fbits_arg(a), fbits_arg(b), log_dir)
            bad = n1 is not None and any(n1[p][0] != n2[p][0] or (n1[p][0] == "OK" and not same_float(native_f(n1[p][1]), native_f(n2[p][1])))
                                        for p in ("dev", "release"))
            return bad, f"stdlib {n1} vs core {n2} on ({a!r}, {b!r})", f"num py_mod_f64 {fbits_arg(a)} {fbits_arg(b)}"
        return build, replay
    b_, r_ = mk_fparity()
    obs.append(Ob("F-parity", "incan_core and incan_stdlib float `%` kernels return identical bits for every operand pair (incl. NaN, inf, zero)",
                  "all (a, b)", fp_name, ["cvc5"], fp_to, b_, r_))

    def mk_impl(trait_method, lt, rt):
        """trait impl bodies PyModImpl<R> for L / PyFloorDivImpl<R> for L = kernel on promoted operands"""
        def build():
            ints_bv = "f64" in (lt, rt)
            c = Ctx(p_std, "bv" if ints_bv else "int", 64, *fp_fmt)
            e = c.enc
            a = c.ivar("a") if lt == "i64" else c.fvar("a")
            b = c.ivar("b") if rt == "i64" else c.fvar("b")
            trait = "PyModImpl" if trait_method == "py_mod" else "PyFloorDivImpl"
            f = p_std.resolve_trait_call(lt, f"{trait}<{rt}>", trait_method)
            if f is None:
                raise Inconclusive(f"impl {trait}<{rt}> for {lt} not found in the MIR dump")
            ok, v, panics = c.call(p_std, f.name, [a, b])
            pa = a if lt == "f64" else symex.S("fp", e.int_to_fp(a))
            pb = b if rt == "f64" else symex.S("fp", e.int_to_fp(b))
            if lt == "i64" and rt == "i64":
                okr, ref, _ = c.call(p_std, KER["std"][1 if trait_method == "py_mod" else 2], [a, b])
                pre = int_pre(a, b, e, trait_method != "py_mod")
            elif trait_method == "py_mod":
                okr, ref, _ = c.call(p_std, KER["std"][3], [pa, pb])
                pre = []
            else:
                okr, ref = "true", f"(fp.roundToIntegral RTN (fp.div RNE {pa.term} {pb.term}))"
                pre = []
            goal = f"(and (= {ok} {okr}) (=> {okr} (= {v} {ref})))"
            return c, pre, neg(goal), ["a", "b"], list(c.ex.encoded)
        return build, None
    for tm in ("py_mod", "py_floor_div"):
        for lt in ("i64", "f64"):
            for rt in ("i64", "f64"):
                b_, _ = mk_impl(tm, lt, rt)
                _, r_ = mk_front(tm, lt, rt, "mod" if tm == "py_mod" else "fdiv")
                has_fp = "f64" in (lt, rt)
                obs.append(Ob(f"M-{tm}<{lt},{rt}>", f"the `{tm}` body for ({lt}, {rt}) is the documented kernel applied to the operands with ints "
                              "promoted by `as f64` (round-to-nearest-even)" + ("; `//` on floats is floor(a / b) bit-for-bit" if tm == "py_floor_div" and has_fp else ""),
                              "all operand pairs", ("BitVec64 ints; " + fp_name) if has_fp else "Int + lemma", ["cvc5"] if has_fp else dec,
                              fp_to if has_fp else 120, b_, r_))
    return [o for o in obs if tier in o.tiers]


# ---------------------------------------------------------------------------------------------------------------
# encoder validation on the repository's own test vectors

VEC_INT = [(7, 3), (-7, 3), (7, -3), (-7, -3), (-9, 3), (9, -3), (0, 5), (I64_MIN, -1), (I64_MAX, 2), (I64_MIN, 2)]
VEC_FP = [(7.0, 3.0), (-7.0, 3.0), (7.0, -3.0), (-7.0, -3.0), (7.5, 2.0), (-7.5, 2.0), (5.5, -2.0), (1e300, 3.0), (-1e-300, 1.0),
          (0.0, 3.0), (-0.0, 3.0)]


def validate_encoder(p_std, p_core, log_dir):
    """Push concrete operands through the encoding (solver evaluates it) and through the native functions; they must agree."""
    n = 0
    bad = []
    for (a, b) in VEC_INT:
        c = Ctx(p_std, "int", 64)
        av, bv = c.ivar("a"), c.ivar("b")
        okm, r, _ = c.call(p_std, "num::py_mod_i64_impl", [av, bv])
        okd, q, _ = c.call(p_std, "num::py_floor_div_i64_impl", [av, bv])
        c.enc.decls.append("(declare-const okm Bool)(declare-const okd Bool)(declare-const vr Int)(declare-const vq Int)")
        lines = c.script([f"(= a {c.enc.int_const(a)})", f"(= b {c.enc.int_const(b)})", f"(= okm {okm})", f"(= okd {okd})",
                          f"(=> okm (= vr {r}))", f"(=> okd (= vq {q}))"])
        res = solver.check(lines, ["okm", "okd", "vr", "vq"], "z3", 60)
        if res.status != "sat":
            bad.append(f"int vector ({a},{b}): solver {res.status}")
            continue
        nm = native("py_mod_i64", a, b, log_dir)["dev"]
        nd = native("py_floor_div_i64", a, b, log_dir)["dev"]
        em = ("OK", str(solver.value_int(res.model["vr"]))) if res.model["okm"] == "true" else ("PANIC", "")
        ed = ("OK", str(solver.value_int(res.model["vq"]))) if res.model["okd"] == "true" else ("PANIC", "")
        if em[0] != nm[0] or (em[0] == "OK" and em[1] != nm[1]):
            bad.append(f"% on ({a},{b}): encoding {em} vs native {nm}")
        if ed[0] != nd[0] or (ed[0] == "OK" and ed[1] != nd[1]):
            bad.append(f"// on ({a},{b}): encoding {ed} vs native {nd}")
        n += 2
    for (a, b) in VEC_FP:
        c = Ctx(p_std, "int", 64, 11, 53)
        av, bv = c.fvar("a"), c.fvar("b")
        ok, r, _ = c.call(p_std, "num::py_mod_f64_impl", [av, bv])
        okf, fl, _ = c.call(p_std, "py_floor_div_f64", [av, bv])
        c.enc.decls.append(f"(declare-const vr {c.enc.fp_sort()})(declare-const vf {c.enc.fp_sort()})")
        fpc = lambda x: f"((_ to_fp 11 53) #x{f64_bits(x):016x})"  # noqa: E731
        lines = c.script([f"(= a {fpc(a)})", f"(= b {fpc(b)})", f"(= vr {r})", f"(= vf {fl})"])
        res = solver.check(lines, ["vr", "vf"], "cvc5", 120)
        if res.status != "sat":
            bad.append(f"float vector ({a},{b}): solver {res.status} {res.raw[:200]}")
            continue
        er = widen(solver.value_fp_bits(res.model["vr"], 11, 53), 11, 53)
        ef = widen(solver.value_fp_bits(res.model["vf"], 11, 53), 11, 53)
        nr = native("py_mod_f64", fbits_arg(a), fbits_arg(b), log_dir)["dev"]
        nf = native("py_floor_div_f64", fbits_arg(a), fbits_arg(b), log_dir)["dev"]
        if nr[0] != "OK" or not same_float(native_f(nr[1]), er):
            bad.append(f"float % on ({a},{b}): encoding {er!r} vs native {nr}")
        if nf[0] != "OK" or not same_float(native_f(nf[1]), ef):
            bad.append(f"float // on ({a},{b}): encoding {ef!r} vs native {nf}")
        n += 2
    return n, bad


# ---------------------------------------------------------------------------------------------------------------

def decide(ob, log_dir, escalate_to=None):
    r = decide1(ob, log_dir)
    if r["status"] == "inconclusive" and r.get("f32_model_not_reproduced") and escalate_to and ob.id in escalate_to:
        # a quick-tier (f32) model that does not reproduce on the f64 code: ask the same obligation at f64
        o64 = escalate_to[ob.id]
        o64.timeout = max(o64.timeout, 900)
        r64 = decide1(o64, log_dir + "/escalated-f64")
        r64["escalated_from"] = f"f32 model {r.get('model')} did not reproduce natively"
        r64["wall_s"] = round(r64.get("wall_s", 0) + r.get("wall_s", 0), 2)
        return r64
    return r


def decide1(ob, log_dir):
    t0 = time.time()
    r = {"id": ob.id, "engine": "E2 mirsmt", "statement": ob.statement, "bound": ob.bound, "encoding": ob.encoding}
    try:
        c, pre, ngoal, names, funcs = ob.build()
    except (mir.Unsupported, symex.PathExplosion) as e:
        r.update(status="inconclusive", reason=f"encoder does not support the current code: {e}", wall_s=round(time.time() - t0, 2))
        return r
    r["functions_encoded"] = [f"{f} (MIR)" for f in funcs]
    r["goal"] = ("(assert (not GOAL)) with GOAL = " + neg(ngoal))[:600]
    base = os.path.join(log_dir, ob.id.replace("<", "_").replace(">", "_").replace(",", "_"))
    # vacuity twin: the assumptions alone must be satisfiable
    vac = solver.check(c.script(pre), [], ob.solvers[0], min(ob.timeout, 300), save_as=base + ".vac.smt2")
    if vac.status != "sat":
        r.update(status="inconclusive", reason=f"vacuity twin (assumptions only) is {vac.status}, expected sat: {vac.raw[:200]}",
                 wall_s=round(time.time() - t0, 2))
        return r
    r["vacuity_ok"] = True
    res = solver.check(c.script(pre + [ngoal]), names, ob.solvers[0], ob.timeout, mem_gb=12, save_as=base + ".smt2")
    r["solver"] = f"{ob.solvers[0]}: {res.status} in {res.wall:.2f} s"
    verdicts = [(ob.solvers[0], res.status)]
    if res.status == "unsat":
        for s2 in ob.solvers[1:]:
            r2 = solver.check(c.script(pre + [ngoal]), names, s2, ob.timeout, mem_gb=12)
            verdicts.append((s2, r2.status))
            r["solver"] += f"; {s2}: {r2.status} in {r2.wall:.2f} s"
            if r2.status == "sat":
                res = r2
                break
    r["wall_s"] = round(time.time() - t0, 2)
    if res.status == "unsat":
        if any(v == "inconclusive" for _, v in verdicts[1:]):
            r["cross_check"] = "cross-check solver inconclusive (deciding solver unsat)"
        r["status"] = "held"
        return r
    if res.status == "inconclusive":
        r.update(status="inconclusive", reason=f"solver gave no verdict: {res.raw[:300]}")
        return r
    # sat: replay natively before believing it
    r["model"] = {k: solver.to_text(v) for k, v in res.model.items()}
    if ob.replay is None:
        r.update(status="inconclusive", reason=f"solver found a model {r['model']} but this obligation has no native replay")
        return r
    reproduced, text, line = ob.replay(res.model, c)
    r["native"] = text
    r["wall_s"] = round(time.time() - t0, 2)
    if reproduced:
        os.makedirs(os.path.join(common.REPLAYS_DIR, "C04"), exist_ok=True)
        path = os.path.join(common.REPLAYS_DIR, "C04", base.split("/")[-1] + ".replay")
        with open(path, "w") as f:
            f.write(line + "\n")
            f.write(f"# obligation {ob.id}: {ob.statement}\n# model: {r['model']}\n# native: {text}\n")
        r.update(status="violated", replay=path, counterexample={"model": r["model"], "native": text})
    elif reproduced is None:
        r.update(status="inconclusive", reason=f"solver model cannot be replayed on the real code: {text}")
    else:
        r.update(status="inconclusive", reason=f"solver model does not reproduce natively ({text}): encoding disagrees with the code")
        if c.enc.sb != 53 and "f32" in ob.encoding:
            r["f32_model_not_reproduced"] = True
    return r


def known_finding_obligation(p_std, tier, log_dir, kf):
    """F-strict without the exclusion: the stored witness must still reproduce; the class-excluded query is a separate obligation."""
    t0 = time.time()
    a, b = kf["witness"]["a"], kf["witness"]["b"]
    n = native("py_mod_f64", fbits_arg(a), fbits_arg(b), log_dir)
    ok = all(n[p][0] == "OK" and abs(native_f(n[p][1])) == abs(b) for p in ("dev", "release"))
    r = {"id": "F-strict-known", "engine": "native replay of the stored witness", "statement": kf["what"],
         "bound": f"witness a={a!r}, b={b!r}", "wall_s": round(time.time() - t0, 2), "witness": f"{a!r} % {b!r} -> {n}"}
    if ok:
        r.update(status="known-finding", finding=f"obligation=F-strict {kf['what']} (witness {a!r} % {b!r} == {b!r})", vacuity_ok=True)
    else:
        r.update(status="inconclusive", reason=f"stored known-finding witness no longer reproduces ({n}): stale entry in known_findings.json")
    return r


def run(tier, seed, jobs, pid="C04"):
    import concurrent.futures
    log = {}
    log_dir = os.path.join(common.WORK_DIR, pid, "smt-" + tier)
    os.makedirs(log_dir, exist_ok=True)
    say(f"[{pid}] E2: dumping MIR of incan_core / incan_stdlib from {common.REPO}")
    p_std, p_core = load_program(log)
    replay_bin(log_dir)
    obs = build_obligations(p_std, p_core, tier, log_dir)
    say(f"[C04] E2: {len(obs)} obligations, tier {tier}")
    t0 = time.time()
    try:
        nvec, bad = validate_encoder(p_std, p_core, log_dir)
    except (mir.Unsupported, symex.PathExplosion) as e:
        nvec, bad = 0, [f"encoder does not support the current code: {e}"]
    results = []
    results.append({"id": "V-encoder", "engine": "E2 mirsmt", "statement": "the encoding evaluates the repository's own test vectors to the "
                    "same results as the native functions (translator validation)", "bound": f"{nvec} concrete evaluations",
                    "status": "held" if not bad else "inconclusive", "reason": "; ".join(bad[:5]) if bad else None,
                    "wall_s": round(time.time() - t0, 1), "vacuity_ok": True})
    if bad:
        say(f"  [inconclusive] V-encoder: {bad[:3]}")
    order = list(obs)
    if seed:
        import random
        random.Random(seed).shuffle(order)
    workers = max(1, min(jobs + 3, 8))
    esc = {o.id: o for o in build_obligations(p_std, p_core, "thorough", log_dir)} if tier == "quick" else None
    with concurrent.futures.ThreadPoolExecutor(max_workers=workers) as ex:
        for r in ex.map(lambda o: decide(o, log_dir, esc), order):
            say(f"  [{r['status']:>12}] {r['id']}  ({r.get('wall_s', '?')} s) {r.get('solver', '')}" +
                (f" -- {r.get('reason')}" if r["status"] == "inconclusive" else ""))
            results.append(r)
    kfs = [k for k in common.load_known_findings().get("findings", []) if k.get("property") == "C04" and pid == "C04"]
    if pid != "C04":
        # another property re-using these obligations: the recorded C04 finding is excluded as a class, not re-reported
        results = [r for r in results]
    for kf in kfs:
        results.append(known_finding_obligation(p_std, tier, log_dir, kf))
    assumptions = [
        "rustc's MIR (-Zunpretty=mir, debug-assertions=off, overflow-checks=on) is the semantics of the source; the dump is "
        "regenerated from the working tree on every run",
        "the MIR->SMT encoder (mirsmt/) is correct for the statement forms used; validated each run on the repository's own test "
        "vectors against the native functions, and unsupported forms abort the obligation (inconclusive) instead of being skipped",
        "64-bit integer division/remainder is encoded by fresh q, r with the truncated-division lemma (Int theory); the same "
        "obligations are decided bit-exactly at 8/16 bits as a cross-check",
        "Rust float `%` is C fmod, encoded exactly as fp.rem on absolute values with sign fix-up; `as f64` is round-to-nearest-even; "
        "f64::floor is roundToIntegral(RTN)",
        ("quick tier: float obligations are decided at f32 (8,24), a shrunk-width stand-in; the thorough tier decides them at f64" if tier == "quick"
         else "float obligations decided at f64"),
        "outside: NaN/inf operands for the sign rule (documented divergence), i64::MIN // -1 (carved out by the property), the "
        "compound-assignment forms and operator->helper selection in the emitter (TokenStream code)",
    ]
    extra = {"mir_dump_s": log.get("mir_dump_s"), "smt_scripts_dir": log_dir}
    return results, assumptions, extra


# ---------------------------------------------------------------------------------------------------------------
# helpers selected by the emitter (cross-level obligations, driven by plan_props.run_helpers)

GEN_DIR = os.path.join(common.WORK_DIR, "gen_replay")


def gen_native_call(rust_path, arg_exprs, log_dir):
    """Call an arbitrary pub function of the working tree natively (dev + release) through a generated one-file crate."""
    with common.global_lock("gen-replay"):
        return _gen_native_call(rust_path, arg_exprs, log_dir)


def _gen_native_call(rust_path, arg_exprs, log_dir):
    os.makedirs(os.path.join(GEN_DIR, "src"), exist_ok=True)
    with open(os.path.join(GEN_DIR, "Cargo.toml"), "w") as f:
        f.write('[package]\nname = "gen_replay"\nversion = "0.0.0"\nedition = "2021"\n[workspace]\n[dependencies]\n'
                f'incan_stdlib = {{ path = "{common.REPO}/crates/incan_stdlib" }}\nincan_core = {{ path = "{common.REPO}/crates/incan_core" }}\n'
                '[profile.dev]\noverflow-checks = true\n[profile.release]\noverflow-checks = false\n')
    with open(os.path.join(GEN_DIR, "src", "main.rs"), "w") as f:
        f.write("fn main() {\n    std::panic::set_hook(Box::new(|_| {}));\n"
                f"    let r = std::panic::catch_unwind(|| {rust_path}({', '.join(arg_exprs)}));\n"
                "    match r {\n        Ok(v) => println!(\"OK {:?}\", v),\n"
                "        Err(p) => { let m = if let Some(s) = p.downcast_ref::<String>() { s.clone() } else if let Some(s) = "
                "p.downcast_ref::<&str>() { s.to_string() } else { String::from(\"<non-string panic>\") }; println!(\"PANIC {}\", m) }\n    }\n}\n")
    import shutil
    shutil.copyfile(os.path.join(common.REPO, "Cargo.lock"), os.path.join(GEN_DIR, "Cargo.lock"))
    res = {}
    for prof in ("dev", "release"):
        cmd = ["cargo", "run", "-q", "--offline", "--target-dir", os.path.join(GEN_DIR, "target")] + (["--release"] if prof == "release" else [])
        rc, out, _, to = common.run(cmd, cwd=GEN_DIR, timeout=600, log=os.path.join(log_dir, f"gen_replay_{prof}.log"))
        lines = [l for l in out.strip().splitlines() if l.startswith(("OK ", "PANIC "))]
        res[prof] = lines[-1] if lines else f"ERROR rc={rc} {out.strip()[-300:]}"
    return res


def doc_value(kk, a, b):
    """Documented result for concrete (already promoted where applicable) operands: ('OK', value) | ('PANIC', text)"""
    if b == 0:
        return ("PANIC", ZERO_DIV_TEXT)
    if kk == "div":
        return ("OK", float(a) / float(b))
    if isinstance(a, int) and isinstance(b, int):
        return ("OK", a % b if kk == "mod" else a // b)
    fa, fb = float(a), float(b)
    if kk == "mod":
        return ("OK", py_fmod_kernel(fa, fb))
    q = fa / fb
    return ("OK", float(math.floor(q)) if math.isfinite(q) else q)


def rust_arg(v, promoted):
    if isinstance(v, int):
        return f"(({v}i128) as i64) as f64" if promoted else f"(({v}i128) as i64)"
    return f"f64::from_bits(0x{f64_bits(v):016x}u64)"


def native_matches(line, want):
    if want[0] == "PANIC":
        return line == "PANIC " + want[1]
    if not line.startswith("OK "):
        return False
    txt = line[3:].strip()
    if isinstance(want[1], float):
        try:
            return same_float(float(txt), want[1])
        except ValueError:
            return False
    try:
        return int(txt) == want[1]
    except ValueError:
        return False


def helper_obligation(p_std, p_core, path, name, lt, rt, lprom, rprom, kk, pre_texts, fp_fmt, log_dir):
    """`path(name)` is called with argument kinds (lt, rt) after the plan's conversions; lprom/rprom say that the argument is an
    int operand promoted with `as f64`. Decide: raise iff divisor zero, no other failure, value = documented kernel."""
    t0 = time.time()
    import hashlib
    tagp = ("|lit-" + hashlib.sha1(" ".join(pre_texts).encode()).hexdigest()[:6]) if pre_texts else ""
    r = {"id": f"H-{name}({'int->' if lprom else ''}{lt},{'int->' if rprom else ''}{rt}){tagp}", "helper": path, "operands": f"({lt}, {rt})", "pre": list(pre_texts)}
    try:
        has_fp = "f64" in (lt, rt) or kk == "div"
        c = Ctx(p_std, "bv" if has_fp else "int", 64, *fp_fmt)
        e = c.enc
        a_src = c.ivar("a") if (lt == "i64" or lprom) else c.fvar("a")
        b_src = c.ivar("b") if (rt == "i64" or rprom) else c.fvar("b")
        a_arg = symex.S("fp", e.int_to_fp(a_src)) if lprom else a_src
        b_arg = symex.S("fp", e.int_to_fp(b_src)) if rprom else b_src
        f = p_std.lookup(name) or p_std.lookup("num::" + name)
        if f is None:
            r.update(status="inconclusive", reason=f"helper `{path}` is not in the incan_stdlib MIR dump", wall_s=round(time.time() - t0, 2))
            return r
        generic = any(t in ("L", "R") for _, t in f.params)
        subst = {"L": lt, "R": rt} if generic else {}
        ok, v, panics = c.call(p_std, f.name, [a_arg, b_arg], subst)
        raise_c, other = zero_div_split(panics)
        bz = e.icmp("Eq", b_src.term, e.int_const(0)) if b_src.sort == "int" else f"(fp.isZero {b_src.term})"
        pa = a_arg if a_arg.sort == "fp" else symex.S("fp", e.int_to_fp(a_arg))
        pb = b_arg if b_arg.sort == "fp" else symex.S("fp", e.int_to_fp(b_arg))
        extra = []
        if kk == "div":
            okr, ref = "true", f"(fp.div RNE {pa.term} {pb.term})"
        elif lt == "i64" and rt == "i64":
            okr, ref, _ = c.call(p_std, "num::py_mod_i64_impl" if kk == "mod" else "num::py_floor_div_i64_impl", [a_arg, b_arg])
            if kk == "fdiv":
                extra = [neg(f"(and {e.icmp('Eq', a_arg.term, e.int_const(e.imin()))} {e.icmp('Eq', b_arg.term, e.int_const(-1))})")]
        elif kk == "mod":
            okr, ref, _ = c.call(p_std, "num::py_mod_f64_impl", [pa, pb])
        else:
            okr, ref = "true", f"(fp.roundToIntegral RTN (fp.div RNE {pa.term} {pb.term}))"
        goal = conj([f"(= {raise_c} {bz})", neg(other) if not extra else f"(=> {conj(extra)} {neg(other)})",
                     f"(=> (and {neg(bz)} {conj(extra + [okr])}) (and {ok} (= {v} {ref})))"])
        pre = list(pre_texts)
        r["functions_encoded"] = [x + " (MIR)" for x in c.ex.encoded]
        base = os.path.join(log_dir, "H-" + re.sub(r"[^A-Za-z0-9_]", "_", r["id"]))
        slv = "cvc5"
        vac = solver.check(c.script(pre), [], slv, 120, save_as=base + ".vac.smt2")
        if vac.status != "sat":
            r.update(status="inconclusive", reason=f"vacuity twin {vac.status}", wall_s=round(time.time() - t0, 2))
            return r
        res = solver.check(c.script(pre + [neg(goal)]), ["a", "b"], slv, 300 if has_fp else 120, mem_gb=12, save_as=base + ".smt2")
        r["solver"] = f"{slv}: {res.status} in {res.wall:.2f} s"
        r["wall_s"] = round(time.time() - t0, 2)
        if res.status == "unsat":
            r["status"] = "held"
            return r
        if res.status != "sat":
            r.update(status="inconclusive", reason="solver: " + res.raw[:200])
            return r
        av = model_int(res.model, "a", e) if a_src.sort == "int" else model_fp(res.model, "a", e)
        bv = model_int(res.model, "b", e) if b_src.sort == "int" else model_fp(res.model, "b", e)
        rust_path = "incan_stdlib::num::" + name
        n = gen_native_call(rust_path, [rust_arg(av, lprom), rust_arg(bv, rprom)], log_dir)
        pa_v = float(av) if (lprom or isinstance(av, float)) else av
        pb_v = float(bv) if (rprom or isinstance(bv, float)) else bv
        want = doc_value(kk, pa_v, pb_v)
        bad = any(not native_matches(line, want) for line in n.values())
        text = f"{rust_path}({av!r}{' as f64' if lprom else ''}, {bv!r}{' as f64' if rprom else ''}) -> {n}; documented: {want}"
        r["native"] = text
        if bad:
            os.makedirs(os.path.join(common.REPLAYS_DIR, "C04"), exist_ok=True)
            rp = os.path.join(common.REPLAYS_DIR, "C04", base.split("/")[-1] + ".replay")
            with open(rp, "w") as fh:
                fh.write(f"mirx helper {rust_path} {kk} {rust_arg(av, lprom).replace(' ', '')} {rust_arg(bv, rprom).replace(' ', '')} "
                         f"{want[0]} {want[1]!r}\n# the emitter selects {path} for `{ {'mod': '%', 'fdiv': '//', 'div': '/'}[kk]}` on ({lt}, {rt}) operands"
                         f"{' when ' + ' and '.join(pre) if pre else ''}\n# {text}\n")
            r.update(status="violated", replay=rp, counterexample={"a": repr(av), "b": repr(bv), "native": text})
        else:
            r.update(status="inconclusive", reason=f"model does not reproduce natively: {text}")
        return r
    except (mir.Unsupported, symex.PathExplosion) as ex_:
        r.update(status="inconclusive", reason=f"encoder does not support the current code: {ex_}", wall_s=round(time.time() - t0, 2))
        return r


def replay_generated(pid, path):
    line = open(path).readline().split()
    # mirx helper <rust_path> <kk> <arg_a> <arg_b> <OK|PANIC> <value...>
    rust_path, kk, a, b = line[2], line[3], line[4], line[5]
    want_kind = line[6]
    want_val = " ".join(line[7:]).strip("'")
    log_dir = os.path.join(common.WORK_DIR, pid, "replay")
    os.makedirs(log_dir, exist_ok=True)
    fix = lambda x: x.replace("asi64", " as i64").replace("asf64", " as f64")  # noqa: E731
    n = gen_native_call(rust_path, [fix(a), fix(b)], log_dir)
    want = (want_kind, want_val if want_kind == "PANIC" else (float(want_val) if ("." in want_val or "e" in want_val or "inf" in want_val or "nan" in want_val) else int(want_val)))
    bad = False
    for prof, l in n.items():
        okp = native_matches(l, want)
        bad = bad or not okp
        say(f"native {prof}: {rust_path}({fix(a)}, {fix(b)}) -> {l}; documented: {want} -> {'ok' if okp else 'DIFFERS'}")
    if bad:
        say(f"VIOLATION property={pid} replay={path}")
        return 1
    return 0


def documented(fn, a_txt, b_txt):
    """The documented (Python) outcome of the named native function on concrete operands: ('OK', value) | ('PANIC', text)."""
    lt, rt = ("i64", "i64")
    base = fn
    if "<" in fn:
        base, tys = fn[:-1].split("<")
        lt, rt = tys.split(",")
    elif "f64" in fn:
        lt, rt = "f64", "f64"
    pa = (lambda t: int(t)) if lt == "i64" else (lambda t: f64_from_bits(int(t, 16)) if t.startswith("0x") else float(t))
    pb = (lambda t: int(t)) if rt == "i64" else (lambda t: f64_from_bits(int(t, 16)) if t.startswith("0x") else float(t))
    a, b = pa(a_txt), pb(b_txt)
    impl = base.endswith("_impl")
    if b == 0 and not impl:
        return ("PANIC", ZERO_DIV_TEXT)
    if "div" in base and "floor" not in base:
        return ("OK", float(a) / float(b))
    if lt == "i64" and rt == "i64":
        if b == 0:
            return ("PANIC", "<any>")
        if "mod" in base:
            return ("OK", a % b)
        if (a, b) == (I64_MIN, -1):
            return ("PANIC", "<outside the property: i64::MIN // -1>")
        return ("OK", a // b)
    fa, fb = float(a), float(b)
    if "mod" in base:
        return ("OK", py_fmod_kernel(fa, fb))
    q = fa / fb
    return ("OK", float(math.floor(q)) if math.isfinite(q) else q)


def replay_file(pid, path):
    line = open(path).readline().split()
    log_dir = os.path.join(common.WORK_DIR, pid, "replay")
    os.makedirs(log_dir, exist_ok=True)
    fn, a, b = line[1], line[2], line[3]
    want = documented(fn, a, b)
    n = native(fn, a, b, log_dir)
    bad = False
    for prof, (k, v) in n.items():
        if want[0] == "PANIC":
            ok = k == "PANIC" and (want[1].startswith("<") or v == want[1])
        elif isinstance(want[1], float):
            ok = k == "OK" and same_float(native_f(v), want[1])
        else:
            ok = k == "OK" and int(v) == want[1]
        bad = bad or not ok
        say(f"native {prof}: {fn}({a}, {b}) -> {k} {v}; documented: {want[0]} {want[1]!r} -> {'ok' if ok else 'DIFFERS'}")
    for l in open(path).read().splitlines()[1:]:
        say(l)
    if bad:
        say(f"VIOLATION property={pid} replay={path}")
        return 1
    say("held on this input (for parity obligations compare the two natives recorded above)")
    return 0
