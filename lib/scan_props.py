"""E2-X obligations on the feature scanners (C15): the AST walkers that decide which crates / features the generated project needs
(`json_stringify` -> serde, async constructs -> tokio, list helpers) must look at EVERY sub-expression and EVERY statement list of a node -
a construct inside a part the walker skips is invisible to the manifest while the emitter still generates code that needs the crate.

Each walker arm is executed symbolically with the recursive calls of the walker family as uninterpreted answers; on every path where all
those answers are `false` (and the verdict is `false`) the set of children that were asked about must cover all expression / statement-list
children of the node (computed from the type definitions).  A child that is never asked about is a deviation; it is replayed by a program
that puts the construct exactly there and checking the need-flag the public scanner API reports."""
import os
import re
import time

import common
from common import Inconclusive

import mirx
import solver
import symex
from mir import Unsupported, split_top

AST = "incan_syntax::ast::"

FAMILIES = {
    # family -> (expr walker, statement walker, regex of the family's functions, what the flag means)
    "json_stringify": ("expr_uses_json_stringify", "stmt_uses_json_stringify", r"(^|::)(expr|stmt|body|program)_uses_json_stringify$", "serde / serde_json"),
    "async": ("expr_uses_async", "stmt_uses_async", r"(^|::)(expr|stmt|body|call_arg|match_body)_uses_async$", "tokio"),
}


def leaves(R, ty_text, name, ctx, facts, out, missing, depth=0, asked=""):
    """Collect the expression / statement-list children of the symbolic node `name`: names of Expr nodes and of Vec<Spanned<Statement>> bodies
    reachable without passing through another expression.  `missing` gets the parts whose shape the path never examined."""
    t = ty_text.strip()
    while True:
        t2 = re.sub(r"^&\s*('\w+\s+)?(mut\s+)?", "", t)
        m = re.match(r"^(?:std::boxed::|alloc::boxed::)?Box<(.*)>$", t2)
        if m:
            t2 = m.group(1).strip()
        if t2 == t:
            break
        t = t2
    base = t.split("<")[0].split("::")[-1]
    if depth > 0 and (re.search(r"sym<" + re.escape(name) + r":", asked) or re.search(r"<sym<" + re.escape(name) + r":[^>]*>\[", asked)):
        return          # this part was handed as a whole to a function of the walker family
    if base == "Expr" and depth > 0:
        out.append(("expr", name))
        return
    m = re.match(r"^(?:std::vec::|alloc::vec::)?Vec<(.*)>$", t)
    if m:
        inner = m.group(1).strip()
        if re.search(r"Spanned<(\w+::)*Statement>$", inner.replace(" ", "")) or inner.replace(" ", "").endswith("Spanned<Statement>"):
            out.append(("body", name))
            return
        n = facts.get("len:" + name)
        if n is None:
            if contains_code(R, inner, ctx):
                missing.append(name)
            return
        for k in range(n):
            leaves(R, inner, f"{name}.e{k}", ctx, facts, out, missing, depth + 1, asked)
        return
    if t.startswith("(") and t.endswith(")"):
        for k, p in enumerate(split_top(t[1:-1])):
            leaves(R, p, f"{name}.{k}", ctx, facts, out, missing, depth + 1, asked)
        return
    if base in ("String", "Ident", "bool", "usize", "i64", "f64", "u8", "Span", "Type", "Pattern", "Literal", "BinaryOp", "UnaryOp", "CompoundOp", "BindingKind", "Param"):
        return
    td = R.resolve(t, ctx)
    if td is None:
        return
    if td.kind == "struct":
        for idx, _f in enumerate(td.variants[0][1]):
            leaves(R, td.field_type(None, idx, t), f"{name}.{idx}", td.modpath, facts, out, missing, depth + 1, asked)
        return
    f = facts.get(f"{name}!tag")
    if len(td.variants) == 1:
        f = ("eq", 0)
    if not f or f[0] != "eq":
        if any(contains_code(R, td.field_type(v[0], i, t), td.modpath) for v in td.variants for i in range(len(v[1]))):
            missing.append(name)
        return
    vname, flist = td.variants[f[1]]
    for idx in range(len(flist)):
        leaves(R, td.field_type(vname, idx, t), f"{name}.{vname}.{idx}", td.modpath, facts, out, missing, depth + 1, asked)


_CODE = {}


def contains_code(R, ty_text, ctx, seen=None):
    """can a value of this type contain an expression or a statement list?"""
    t = re.sub(r"^&\s*('\w+\s+)?(mut\s+)?", "", ty_text.strip())
    key = (t, ctx)
    if key in _CODE:
        return _CODE[key]
    seen = seen or set()
    if t in seen:
        return False
    seen = seen | {t}
    base = t.split("<")[0].split("::")[-1]
    if base in ("Expr", "Statement"):
        return True
    if base in ("String", "Ident", "bool", "usize", "i64", "f64", "u8", "Span", "Type", "Pattern", "Literal", "BinaryOp", "UnaryOp", "CompoundOp", "BindingKind", "Param"):
        return False            # (Param: the only parameters inside expressions are closure parameters, which the parser builds without defaults)
    m = re.match(r"^[\w:]*(?:Box|Vec|Option|Spanned)<(.*)>$", t)
    res = False
    if m:
        res = any(contains_code(R, a, ctx, seen) for a in split_top(m.group(1)))
    elif t.startswith("("):
        res = any(contains_code(R, a, ctx, seen) for a in split_top(t[1:-1]))
    else:
        td = R.resolve(t, ctx)
        if td is not None:
            res = any(contains_code(R, td.field_type(v[0], i, t), td.modpath, seen) for v in td.variants for i in range(len(v[1])))
    _CODE[key] = res
    return res


def scan_obligation(P, R, mp, log_dir, family, bound):
    expr_fn, stmt_fn, fam_re, what = FAMILIES[family]
    statement = (f"feature scanner `{family}` ({what}): in every arm of {expr_fn} and {stmt_fn}, when no part of the node contains the construct, EVERY sub-expression and "
                 "EVERY statement list of the node has been asked about - so the construct is found wherever it stands (conditions, elif branches, loop headers, "
                 "slice bounds, guards, assignment targets ...)")

    def run():
        t0 = time.time()
        bad, n, encoded, arms_seen = [], 0, set(), 0
        for fname, ty in ((expr_fn, AST + "Expr"), (stmt_fn, AST + "Statement")):
            cands = [v for k, v in P.fns.items() if k.split("::")[-1] == fname and "scanners" in k]
            if len(cands) != 1:
                cands = [v for k, v in P.fns.items() if k.endswith("::" + fname) or k == fname]
            if len(cands) != 1:
                raise Inconclusive(f"{fname} not found (or ambiguous) in the MIR dump")
            f = cands[0]
            td = R.resolve(ty)
            for k, (vname, _) in enumerate(td.variants):
                ex = mirx.make_executor(P, R, max_paths=400000)
                ex.opaque_calls = mirx.slice_opaque
                ex.model_sequences = True
                ex.seq_bound = bound
                ex.tolerate_unsupported = True
                ex.recursion_bound = 0
                ex.max_steps = 4000
                ex.summarize = (fam_re, r"from_str$", r"PartialEq")
                e = ex.sym_value(ty, "e")
                st0 = symex.State()
                st0.facts[e.tag().term] = ("eq", k)
                st0.pc.append(f"(= {e.tag().term} {k})")
                try:
                    outs = ex.run(f, [e], state=st0)
                except (Unsupported, symex.PathExplosion) as x:
                    bad.append((None, f"{fname}::{vname}: not executable by the model: {str(x)[:120]}"))
                    continue
                encoded |= set(ex.encoded)
                arms_seen += 1
                feas = solver.check_many(mp.smt_lines(ex, []), [[symex.conj(o.pc)] for o in outs], "z3", 300)
                for o, fz in zip(outs, feas):
                    if fz == "unsat":
                        continue
                    n += 1
                    if o.kind != "return":
                        bad.append((vname, f"{fname}::{vname}: {o.kind}: {str(o.info)[:100]}"))
                        continue
                    fam_events = [ev for ev in o.state.events if re.search(fam_re, ev[0]) or ev[0].split("::")[-1].endswith("uses_" + family)]
                    if any(ev[2] in o.pc for ev in fam_events):
                        continue            # a part contains the construct: found
                    v = ex.deref(o.value, o.state)
                    verdict = getattr(v, "term", None)
                    if verdict == "true":
                        continue            # the node itself is the construct
                    asked = " ".join(" ".join(ev[1]) for ev in fam_events)
                    out, missing = [], []
                    leaves(R, ty, "e", None, o.state.facts, out, missing, 0, asked)
                    for kind, nm in out:
                        if not re.search(r"sym<" + re.escape(nm) + r"(\.0)?:", asked) and not re.search(r"<" + re.escape(nm) + r"\[", asked):
                            bad.append((vname, f"{fname}, {vname}: the {'statements' if kind == 'body' else 'sub-expression'} `{nm}` "
                                               f"{'are' if kind == 'body' else 'is'} never asked about"))
                    for nm in missing:
                        bad.append((vname, f"{fname}, {vname}: `{nm}` (which can contain code) is never examined"))
        uniq = []
        for a, w in bad:
            if w not in uniq:
                uniq.append(w)
        r = {"id": f"X-scan_{family}", "engine": "E2-X mirsmt", "statement": statement,
             "bound": f"every arm of the two walkers; lists of 0..={bound} elements; the walker family's own recursive calls are uninterpreted answers (all `false` on the paths that are judged)",
             "functions_encoded": sorted(x + " (MIR)" for x in encoded), "paths": n, "arms": arms_seen, "wall_s": round(time.time() - t0, 2)}
        if n == 0:
            r.update(status="inconclusive", reason="no feasible path explored")
            return r
        r["vacuity_ok"] = True
        if not uniq:
            r.update(status="held", solver=f"{n} feasible paths over {arms_seen} arms: every code-carrying child is asked about")
            return r
        r["deviations"] = uniq[:12]
        broken, text = scan_native(log_dir, family)
        r["native"] = text[:700]
        kf = [x for x in common.load_known_findings().get("findings", []) if x.get("obligation") == r["id"]]
        if broken and kf and all(any(w in t_ for w in kf[0].get("witness_names", [])) for t_ in text.split("; ")):
            r.update(status="known-finding", finding=f"{r['id']}: {kf[0]['what'][:240]}")
        elif broken:
            os.makedirs(os.path.join(common.REPLAYS_DIR, "MIRX"), exist_ok=True)
            rp = os.path.join(common.REPLAYS_DIR, "MIRX", r["id"] + ".replay")
            open(rp, "w").write(f"mirx scan {family}\n# {'; '.join(uniq[:4])[:600]}\n# native: {text[:600]}\n")
            r.update(status="violated", replay=rp, counterexample={"path": "; ".join(uniq[:4])[:600], "native": text[:600]})
        else:
            r.update(status="inconclusive", reason=f"children are skipped ({'; '.join(uniq[:3])[:400]}) but every replay program is detected: {text[:160]}")
        return r
    return mp.XOb(f"X-scan_{family}", statement, "", run)


# ---- native replay: the construct at every position, through the public scanner API ------------------------------------------------------------
POSITIONS = [
    # (name, template with {X} where the construct goes; the rest is inert)
    ("plain_statement", "def f(v: int) -> None:\n    {S}\n"),
    ("assignment_value", "def f(v: int) -> None:\n    a = {X}\n"),
    ("if_condition", "def f(v: int) -> None:\n    if {X} == {X}:\n        pass\n"),
    ("if_body", "def f(v: int) -> None:\n    if v > 0:\n        a = {X}\n"),
    ("elif_condition", "def f(v: int) -> None:\n    if v > 0:\n        pass\n    elif {X} == {X}:\n        pass\n"),
    ("elif_body", "def f(v: int) -> None:\n    if v > 0:\n        pass\n    elif v < 0:\n        a = {X}\n"),
    ("else_body", "def f(v: int) -> None:\n    if v > 0:\n        pass\n    else:\n        a = {X}\n"),
    ("while_condition", "def f(v: int) -> None:\n    while {X} == {X}:\n        break\n"),
    ("while_body", "def f(v: int) -> None:\n    while v > 0:\n        a = {X}\n        break\n"),
    ("for_iterable", "def f(v: int) -> None:\n    for i in [{X}]:\n        pass\n"),
    ("for_body", "def f(v: int) -> None:\n    for i in [1]:\n        a = {X}\n"),
    ("return_value", "def f(v: int) -> str:\n    return {XS}\n"),
    ("call_positional", "def g(a: str) -> None:\n    pass\n\ndef f(v: int) -> None:\n    g({XS})\n"),
    ("call_keyword", "def g(a: str) -> None:\n    pass\n\ndef f(v: int) -> None:\n    g(a={XS})\n"),
    ("list_element", "def f(v: int) -> None:\n    a = [{X}]\n"),
    ("dict_value", "def f(v: int) -> None:\n    a = {{1: {X}}}\n"),
    ("index_expression", "def f(v: int, xs: List[int]) -> None:\n    a = xs[{XI}]\n"),
    ("slice_bound", "def f(v: int, xs: List[int]) -> None:\n    a = xs[{XI}:]\n"),
    ("index_assignment_index", "def f(v: int, xs: List[int]) -> None:\n    xs[{XI}] = 1\n"),
    ("binary_operand", "def f(v: int) -> None:\n    a = ({X}) == ({X})\n"),
    ("match_scrutinee", "def f(v: int) -> None:\n    match {X}:\n        _ => pass\n"),
    ("match_arm_body", "def f(v: int) -> None:\n    match v:\n        _ =>\n            a = {X}\n"),
    ("match_guard", "def f(v: int) -> int:\n    match v:\n        case x if {XB}:\n            return 1\n        case _:\n            return 0\n"),
    ("fstring_part", "def f(v: int) -> None:\n    a = f\"x{{{X}}}\"\n"),
    ("closure_body", "def f(v: int) -> None:\n    a = () => {X}\n"),
    ("method_body", "model M:\n    x: int\n\n    def m(self, v: int) -> None:\n        a = {X}\n"),
    ("tuple_unpack_value", "def f(v: int) -> None:\n    a, b = ({X}, 1)\n"),
    ("chained_assignment_value", "def f(v: int) -> None:\n    a = b = {X}\n"),
    ("if_expression_branch", "def f(v: int) -> None:\n    a = if v > 0:\n        {X}\n    else:\n        {X}\n"),
]
CONSTRUCTS = {
    # family -> X (a value), XS (a string value), XI (an int value), XB (a bool value), S (a statement)
    "json_stringify": {"X": "json_stringify(v)", "XS": "json_stringify(v)", "XI": "len(json_stringify(v))", "XB": "len(json_stringify(v)) > 0", "S": "json_stringify(v)"},
    "async": {"X": "sleep(1)", "XS": "sleep(1)", "XI": "sleep(1)", "XB": "sleep(1)", "S": "sleep(1)"},
}


def scan_native(log_dir, family):
    import kani
    os.makedirs(log_dir, exist_ok=True)
    path = os.path.join(log_dir, f"scan_{family}.cases")
    with open(path, "w") as fh:
        for name, tmpl in POSITIONS:
            src = tmpl.format(**CONSTRUCTS[family])
            fh.write(f"#@@ {name} program\n{src}")
    problems = []
    for prof in ("dev", "release"):
        binp = kani.build_replay(prof, True, log_dir)
        rc, out, _, to = common.run([binp, "scanflags", path], timeout=120)
        if to or rc != 0 or "CASE" not in out:
            raise Inconclusive(f"replay scanflags failed (rc={rc}): {out[-200:]}")
        for line in out.splitlines():
            m = re.match(r"^CASE (\S+) (.*)$", line)
            if not m:
                continue
            flag = {"json_stringify": "serde", "async": "tokio"}[family]
            if m.group(2).startswith("ERR"):
                continue            # the position is not expressible for this construct (does not parse): not a witness either way
            if f"{flag}=true" not in m.group(2):
                problems.append(f"[{prof}] {m.group(1)}: the construct is in the program but the scanner reports {flag}=false")
    return bool(problems), "; ".join(problems[:8]) or f"the construct is detected at all {len(POSITIONS)} positions"


def build(pid, P, R, tier, log_dir):
    import mirx_props as mp
    if pid != "C15":
        return []
    bound = 1 if tier == "quick" else 2
    return [scan_obligation(P, R, mp, log_dir, fam, bound) for fam in ("json_stringify", "async")] + [serde_derive_obligation(P, R, mp, log_dir, 2)]


def serde_derive_obligation(P, R, mp, log_dir, bound):
    statement = ("detect_serde_usage: when it answers `no`, EVERY decorator of EVERY model and class has been looked at, and for every `@derive(..)` among them every "
                 "argument - so a Serialize / Deserialize derive is found in whichever decorator and position it is written")

    def run():
        t0 = time.time()
        cands = [v for k, v in P.fns.items() if k.split("::")[-1] == "detect_serde_usage"]
        if len(cands) != 1:
            raise Inconclusive("detect_serde_usage not found (or ambiguous) in the MIR dump")
        ex = mirx.make_executor(P, R, max_paths=400000)
        ex.opaque_calls = mirx.slice_opaque
        ex.model_sequences = True
        ex.seq_bound = bound
        ex.tolerate_unsupported = True
        ex.recursion_bound = 0
        ex.max_steps = 6000
        ex.summarize = (r"program_uses_json_stringify$", r"from_str$", r"PartialEq", r"as_str$")
        prog = ex.sym_value(AST + "Program", "p")
        st0 = symex.State()
        st0.facts["len:p.0"] = 1          # one declaration (the loop body is the same for each); decorators / arguments 0..=bound
        try:
            outs = ex.run(cands[0], [prog], state=st0)
        except (Unsupported, symex.PathExplosion) as x:
            outs, err = [], str(x)
        dv = [v[0] for v in R.resolve(AST + "Declaration").variants]
        MODEL, CLASS = dv.index("Model"), dv.index("Class")
        mfields = [x[0] for x in R.resolve(AST + "ModelDecl").variants[0][1]]
        cfields = [x[0] for x in R.resolve(AST + "ClassDecl").variants[0][1]]
        dfields = [x[0] for x in R.resolve(AST + "Decorator").variants[0][1]]
        bad, n = [], 0
        if not outs:
            bad.append(f"detect_serde_usage is not executable by the model: {locals().get('err', 'no path')[:120]}")
        feas = solver.check_many(mp.smt_lines(ex, []), [[symex.conj(o.pc)] for o in outs], "z3", 300) if outs else []
        for o, fz in zip(outs, feas):
            if fz == "unsat":
                continue
            n += 1
            if o.kind != "return":
                # a path the model cannot execute is not a pass: the native programs have to refute it
                bad.append(f"{o.kind}: {str(o.info)[:100]}")
                continue
            v = ex.deref(o.value, o.state)
            if getattr(v, "term", None) == "true":
                continue            # (a verdict that still depends on an uninterpreted answer can be `no`: it is judged)
            facts = o.state.facts
            asked = " ".join(" ".join(e[1]) for e in o.state.events if e[0].endswith("from_str") or e[0].endswith("as_str"))
            nd = facts.get("len:p.0")
            if nd is None:
                bad.append("the declarations are never traversed")
                continue
            for k in range(nd):
                tg = facts.get(f"p.0.e{k}.0!tag")
                if not tg:
                    bad.append(f"declaration #{k} is never examined")
                    continue
                which = None
                if tg == ("eq", MODEL):
                    which = (f"p.0.e{k}.0.Model.0", mfields.index("decorators"))
                elif tg == ("eq", CLASS):
                    which = (f"p.0.e{k}.0.Class.0", cfields.index("decorators"))
                elif tg[0] == "ne" and not ({MODEL, CLASS} <= set(tg[1])):
                    bad.append(f"declaration #{k} may be a model / class and its decorators are not looked at")
                if not which:
                    continue
                decs = f"{which[0]}.{which[1]}"
                ndec = facts.get("len:" + decs)
                if ndec is None:
                    bad.append(f"the decorators of declaration #{k} are never traversed")
                    continue
                for j in range(ndec):
                    dname = f"{decs}.e{j}.0.{dfields.index('name')}"
                    if f"sym<{dname}:" not in asked:
                        bad.append(f"decorator #{j} of declaration #{k} is never looked at (its name is not asked about)")
        uniq = list(dict.fromkeys(bad))
        r = {"id": "X-scan_serde_derive", "engine": "E2-X mirsmt", "statement": statement,
             "bound": f"programs of one declaration (any kind), models / classes with 0..={bound} decorators and arguments; the decorator / derive name lookups and the json_stringify walker are uninterpreted",
             "functions_encoded": [x + " (MIR)" for x in ex.encoded], "paths": n, "wall_s": round(time.time() - t0, 2)}
        if n == 0 and not uniq:
            r.update(status="inconclusive", reason="no feasible path explored")
            return r
        r["vacuity_ok"] = True
        if not uniq:
            r.update(status="held", solver=f"{n} feasible paths: every decorator of every model / class is looked at before the answer is `no`")
            return r
        broken, text = derive_native(log_dir)
        r["native"] = text[:600]
        if broken:
            os.makedirs(os.path.join(common.REPLAYS_DIR, "MIRX"), exist_ok=True)
            rp = os.path.join(common.REPLAYS_DIR, "MIRX", "X-scan_serde_derive.replay")
            open(rp, "w").write(f"mirx scan serde_derive\n# {'; '.join(uniq[:3])[:500]}\n# native: {text[:500]}\n")
            r.update(status="violated", replay=rp, counterexample={"path": "; ".join(uniq[:3])[:500], "native": text[:500]})
        else:
            r.update(status="inconclusive", reason=f"decorators are skipped ({'; '.join(uniq[:2])[:300]}) but every replay program is detected")
        return r
    return mp.XOb("X-scan_serde_derive", statement, "", run)


DERIVE_PROGRAMS = [
    ("single_derive", "@derive(Serialize)\nmodel M:\n    x: int\n"),
    ("second_argument", "@derive(Eq, Deserialize)\nmodel M:\n    x: int\n"),
    ("second_decorator", "@derive(Eq)\n@derive(Serialize)\nmodel M:\n    x: int\n"),
    ("third_decorator_on_class", "@derive(Eq)\n@derive(Debug)\n@derive(Deserialize)\nclass C:\n    x: int\n"),
    ("second_model", "model A:\n    x: int\n\n@derive(Serialize)\nmodel B:\n    y: int\n"),
]


def derive_native(log_dir):
    import kani
    os.makedirs(log_dir, exist_ok=True)
    path = os.path.join(log_dir, "scan_derive.cases")
    with open(path, "w") as fh:
        for name, src in DERIVE_PROGRAMS:
            fh.write(f"#@@ {name} program\n{src}")
    problems = []
    for prof in ("dev", "release"):
        binp = kani.build_replay(prof, True, log_dir)
        rc, out, _, to = common.run([binp, "scanflags", path], timeout=120)
        if to or rc != 0 or "CASE" not in out:
            raise Inconclusive(f"replay scanflags failed (rc={rc}): {out[-200:]}")
        for line in out.splitlines():
            m = re.match(r"^CASE (\S+) (.*)$", line)
            if m and not m.group(2).startswith("ERR") and "serde=true" not in m.group(2):
                problems.append(f"[{prof}] {m.group(1)}: a serde derive is written but the scanner reports serde=false")
    return bool(problems), "; ".join(problems[:6]) or f"the derive is detected in all {len(DERIVE_PROGRAMS)} programs"
