"""Shared plumbing for /verif/check: paths, subprocess limits, evidence, known findings."""
import json
import os
import resource
import subprocess
import sys
import time

VERIF = os.path.dirname(os.path.dirname(os.path.abspath(__file__)))
REPO = os.environ.get("VERIF_REPO", "/repo")
KANI_DIR = os.path.join(VERIF, "kani")
REPLAY_DIR = os.path.join(VERIF, "replay")
EVIDENCE_DIR = os.path.join(VERIF, "evidence")
REPLAYS_DIR = os.path.join(VERIF, "replays")
WORK_DIR = os.path.join(VERIF, "work")  # scratch (git-ignored): logs, MIR dumps, SMT scripts
KNOWN_FINDINGS = os.path.join(VERIF, "known_findings.json")

OFFLINE_ENV = {"CARGO_NET_OFFLINE": "true", "GOPROXY": "off", "PIP_NO_INDEX": "1"}


class Inconclusive(Exception):
    """The machinery could not decide (timeout, OOM, tool error, non-reproducing counterexample).
    Never reported as a pass and never as a violation: exit status 2."""


def env_with(extra=None):
    e = dict(os.environ)
    e.update(OFFLINE_ENV)
    # never let a user-level RUSTFLAGS leak a cfg into the builds
    e.pop("RUSTFLAGS", None)
    if extra:
        e.update(extra)
    return e


def _limit(mem_gb):
    def f():
        if mem_gb:
            b = int(mem_gb * (1 << 30))
            resource.setrlimit(resource.RLIMIT_AS, (b, b))
        os.setsid()
    return f


def run(cmd, cwd=None, timeout=None, mem_gb=None, env=None, log=None, stdin=None):
    """Run a command under a wall-clock and address-space limit. Returns (rc, output, seconds, timed_out)."""
    t0 = time.time()
    p = subprocess.Popen(cmd, cwd=cwd, env=env_with(env), stdout=subprocess.PIPE, stderr=subprocess.STDOUT,
                         stdin=subprocess.PIPE if stdin is not None else subprocess.DEVNULL,
                         preexec_fn=_limit(mem_gb), text=True, errors="replace")
    timed_out = False
    try:
        out, _ = p.communicate(input=stdin, timeout=timeout)
    except subprocess.TimeoutExpired:
        timed_out = True
        try:
            os.killpg(p.pid, 9)
        except ProcessLookupError:
            pass
        out, _ = p.communicate()
    dt = time.time() - t0
    if log:
        os.makedirs(os.path.dirname(log), exist_ok=True)
        with open(log, "w") as f:
            f.write("$ " + " ".join(cmd) + "\n" + (out or ""))
    return p.returncode, out or "", dt, timed_out


def tier_from_env(default="quick"):
    t = os.environ.get("VERIF_TIER", default)
    return t if t in ("quick", "thorough") else default


def seed_from_env():
    try:
        return int(os.environ.get("VERIF_SEED", "0"))
    except ValueError:
        return 0


def load_known_findings():
    with open(KNOWN_FINDINGS) as f:
        return json.load(f)


def write_evidence(pid, tier, seed, level, coverage, assumptions, wall_s, violations):
    os.makedirs(EVIDENCE_DIR, exist_ok=True)
    ev = {
        "property_id": pid,
        "tier": tier,
        "seed": seed,
        "level": level,
        "coverage": coverage,
        "assumptions": assumptions,
        "wall_s": round(wall_s, 2),
        "violations": violations,
    }
    path = os.path.join(EVIDENCE_DIR, pid + ".json")
    tmp = path + ".tmp"
    with open(tmp, "w") as f:
        json.dump(ev, f, indent=1, sort_keys=False)
        f.write("\n")
    os.replace(tmp, path)
    return path


def repo_head():
    rc, out, _, _ = run(["git", "-C", REPO, "rev-parse", "--short", "HEAD"])
    head = out.strip() if rc == 0 else "?"
    rc, out, _, _ = run(["git", "-C", REPO, "status", "--porcelain", "--untracked-files=no"])
    dirty = bool(out.strip()) if rc == 0 else None
    return head, dirty


def say(*a):
    print(*a, flush=True)


def err(*a):
    print(*a, file=sys.stderr, flush=True)


import contextlib
import fcntl


@contextlib.contextmanager
def global_lock(name):
    """Serialise use of a shared on-disk resource (Kani target slots, the replay runner's build, the generated replay
    crate) across concurrently running checks."""
    os.makedirs(WORK_DIR, exist_ok=True)
    f = open(os.path.join(WORK_DIR, f".{name}.lock"), "w")
    try:
        fcntl.flock(f, fcntl.LOCK_EX)
        yield
    finally:
        fcntl.flock(f, fcntl.LOCK_UN)
        f.close()
