"""E2-X obligation for C14: the visibility check of `from m import x, y` (TypeChecker::validate_import_visibility).  The exported
symbols of the dependency and the imported items are symbolic sequences, names are symbolic strings (equality = equality of
symbolic ids, decided by the solver), the set of exported names is modelled as the list of inserted strings."""
import os
import re
import time

import common
from common import Inconclusive
import mirx
import solver
import symex
from symex import Adt, Sym, conj, disj, neg


def build(pid, P, R, tier, log_dir):
    import mirx_props as mp
    if pid != "C14":
        return []
    # (the visibility obligation is not deepened in the thorough tier: 4 exports x 4 items exceed the executor's path budget)
    return [mp.XOb("X-import_visibility", "", "", lambda: run_visibility(P, R, mp, log_dir, 3)),
            mp.XOb("X-import_filter", "", "", lambda: run_import_filter(P, R, mp, log_dir, 3 if tier == "quick" else 4))]


def run_import_filter(P, R, mp, log_dir, bound):
    """TypeChecker::import_module: exactly the `pub` declarations of the dependency are collected into the importer's symbol table."""
    import tc_props
    t0 = time.time()
    f = tc_props.find_fn(P, "import_module")
    ex = mirx.make_executor(P, R, max_paths=500000 if bound <= 3 else 30000000)
    ex.opaque_calls = mirx.slice_opaque
    ex.model_sequences = True
    ex.seq_bound = bound
    ex.max_steps = 3000
    ex.tolerate_unsupported = True
    ex.summarize = [r"::collect_declaration$"]
    selfv = ex.sym_value("TypeChecker", "self")
    prog = ex.sym_value("incan_syntax::ast::Program", "module")
    outs = ex.run(f, [selfv, prog, symex.Opaque("name")])
    pn = [x[0] for x in R.resolve("incan_syntax::ast::Program").variants[0][1]]
    decls = prog.child(None, pn.index("declarations"))
    dvars = mp.variants(R, "incan_syntax::ast::Declaration")
    dtd = R.resolve("incan_syntax::ast::Declaration")
    vis = mp.variants(R, "incan_syntax::ast::Visibility")
    PUB = vis.index("Public")
    bad, n_ok, classes = [], 0, {}
    for o in outs:
        if o.kind != "return":
            bad.append((conj(o.pc), f"{o.kind}: {o.info}"))
            continue
        n = o.state.facts.get("len:" + decls.name)
        if n is None:
            bad.append((conj(o.pc), "the declaration list is never walked"))
            continue
        collected = []
        for e in o.events:
            if e[0].endswith("collect_declaration"):
                m = re.search(re.escape(decls.name) + r"\.e(\d+)\b", e[1][1])
                collected.append(int(m.group(1)) if m else None)
        n_ok += 1
        classes[f"{n} declarations"] = classes.get(f"{n} declarations", 0) + 1
        # documented: declaration j is collected iff it carries `pub` (imports and docstrings never)
        conds = []
        for j in range(n):
            node = mirx.seq_elem(ex, decls, j).child(None, 0)
            fo = o.state.facts.get(node.tag().term) if node._tag is not None else None
            if not (fo and fo[0] == "eq"):
                conds = None
                break
            vn = dvars[fo[1]]
            if vn in ("Import", "Docstring"):
                is_pub = "false"
            else:
                payload = node.child(vn, 0)
                ptd = payload.tdef
                if ptd is None:
                    raise Inconclusive(f"declaration payload of {vn} has no known struct type")
                fnames = [x[0] for x in ptd.variants[0][1]]
                if "visibility" not in fnames:
                    raise Inconclusive(f"{ptd.name} has no `visibility` field any more")
                is_pub = f"(= {payload.child(None, fnames.index('visibility')).tag().term} {PUB})"
            conds.append((j, is_pub))
        if conds is None:
            bad.append((conj(o.pc), "a declaration's kind is never examined"))
            continue
        if collected != sorted(set(c for c in collected if c is not None)) or None in collected:
            bad.append((conj(o.pc), f"declarations collected out of order / twice: {collected}"))
            continue
        want = conj([(c if j in collected else neg(c)) for j, c in conds])
        bad.append((conj(o.pc + [neg(want)]), f"{n} declarations: collected {collected}, which is not exactly the `pub` ones"))
    r = {"id": "X-import_filter", "engine": "E2-X mirsmt",
         "statement": "importing a module makes exactly its `pub` declarations visible: TypeChecker::import_module passes declaration j of the dependency "
                      "to collect_declaration iff it is a const / model / class / enum / newtype / trait / function marked `pub` (imports and "
                      "docstrings never), each once, in order",
         "bound": f"TypeChecker::import_module + is_public_decl: modules of 0..={bound} declarations, every Declaration kind x every Visibility; what "
                  "collect_declaration does with a declaration is not part of this obligation",
         "encoding": "module as a symbolic ADT, its declaration list as a symbolic sequence; collect_declaration as an event",
         "functions_encoded": [n_ + " (MIR)" for n_ in ex.encoded], "paths": len(outs), "compositions": classes}
    r["wall_s"] = round(time.time() - t0, 2)
    if n_ok == 0 or len(classes) < bound + 1:
        r.update(status="inconclusive", reason=f"not every module size was reached ({classes}); {(bad or [('', '-')])[0][1][:200]}")
        return r
    r["vacuity_ok"] = True
    live = [(b, w) for b, w in bad if b != "false"]
    queries = 0
    for k in range(0, len(live), 40):
        chunk = live[k:k + 40]
        res = solver.check(mp.smt_lines(ex, [disj([b for b, _ in chunk])]), [], "z3", 120)
        queries += 1
        if res.status == "unsat":
            continue
        for b, w in chunk:
            res = solver.check(mp.smt_lines(ex, [b]), [], "z3", 60)
            queries += 1
            if res.status != "unsat":
                return native_visibility(r, w, log_dir)
    r.update(status="held", solver=f"{n_ok} paths, {len(live)} deviation conditions, all unsat (z3, {queries} queries)")
    r["wall_s"] = round(time.time() - t0, 2)
    return r


def run_visibility(P, R, mp, log_dir, bound):
    import tc_props
    t0 = time.time()
    f = tc_props.find_fn(P, "validate_import_visibility")
    ex = mirx.make_executor(P, R, max_paths=500000)
    ex.opaque_calls = mirx.slice_opaque
    ex.model_sequences = True
    ex.model_maps = True
    ex.seq_bound = bound
    ex.max_steps = 3000
    ex.tolerate_unsupported = True
    ex.summarize = [r"HashMap::<(std::string::)?String, .*>::get::<.*>$", r"impl \[(std::string::)?String\]>::join::<.*>$", r"::to_rust_path$", r"fmt::format",
                    r"^format$", r"fmt::rt::Argument", r"Arguments::<.*>::new", r"must_use", r"CompileError::\w+$", r"CompileError::with_hint::<.*>$",
                    r"Vec::<CompileError>::push$", r"ToString>::to_string$", r"HashSet::<.*>::iter$", r"Iterator>::cloned", r"Iterator>::collect::<.*>$",
                    r"impl \[.*\]>::sort$"]
    selfv = ex.sym_value("TypeChecker", "self")
    imp = ex.sym_value("incan_syntax::ast::ImportDecl", "import")
    outs = ex.run(f, [selfv, imp, symex.Opaque("span")])
    inames = [x[0] for x in R.resolve("incan_syntax::ast::ImportDecl").variants[0][1]]
    kind = imp.child(None, inames.index("kind"))
    kvars = mp.variants(R, "incan_syntax::ast::ImportKind")
    FROM = kvars.index("From")
    kt = kind.tag().term
    td = R.resolve("incan_syntax::ast::ImportKind")
    ffields = [x[0] for x in [v for v in td.variants if v[0] == "From"][0][1]]
    module = kind.child("From", ffields.index("module"))
    items = kind.child("From", ffields.index("items"))
    pnames = [x[0] for x in R.resolve("incan_syntax::ast::ImportPath").variants[0][1]]
    segments = module.child(None, pnames.index("segments"))
    item_f = [x[0] for x in R.resolve("incan_syntax::ast::ImportItem").variants[0][1]]
    ev = mp.variants(R, "ExportedSymbol")
    etd = R.resolve("ExportedSymbol")
    bad, n_ok, classes, shapes = [], 0, {}, []
    for o in outs:
        if o.kind == "unsupported":
            bad.append((conj(o.pc + [f"(= {kt} {FROM})"]), f"unsupported MIR: {o.info}"))
            continue
        if o.kind != "return":
            bad.append((conj(o.pc + [f"(= {kt} {FROM})"]), f"panic: {o.info}"))
            continue
        fk = o.state.facts.get(kt)
        pushes = [e for e in o.events if e[0].endswith("Vec::push")]
        if not (fk and fk[0] == "eq" and fk[1] == FROM):
            classes["not a from-import"] = classes.get("not a from-import", 0) + 1
            if pushes:
                bad.append((conj(o.pc), "an import that is not `from m import ..` is reported"))
            continue
        gets = [e for e in o.events if e[0].endswith("HashMap::get")]
        joins = [e for e in o.events if e[0].endswith("join")]
        if len(gets) != 1:
            bad.append((conj(o.pc), f"the dependency's exports are looked up {len(gets)} times"))
            continue
        # the key: the WHOLE module path joined with "_" (the name dependencies are registered under)
        key_ok = (len(joins) >= 1 and segments.name in joins[0][1][0] and '"_"' in joins[0][1][1] and joins[0][2] in gets[0][1][1])
        if not key_ok:
            bad.append((conj(o.pc), f"exports are looked up under {gets[0][1][1][:80]} (join events {[(j[1][0][:50], j[1][1]) for j in joins]}), not under the joined module path"))
            continue
        exports_ev = gets[0][2]
        opt = o.state.facts.get(f"{exports_ev}!tag")
        if not (opt and opt[0] == "eq"):
            bad.append((conj(o.pc), "the lookup result is never examined"))
            continue
        if opt[1] == 0:
            classes["module not pre-imported"] = classes.get("module not pre-imported", 0) + 1
            if pushes:
                bad.append((conj(o.pc), "items of a module without recorded exports are reported"))
            continue
        nexp = o.state.facts.get(f"len:{exports_ev}.Some.0")
        nit = o.state.facts.get("len:" + items.name)
        if nexp is None or nit is None:
            bad.append((conj(o.pc), "exports or items are not walked"))
            continue
        n_ok += 1
        key = f"{nexp} exports, {nit} items"
        classes[key] = classes.get(key, 0) + 1
        # names: exported symbol j -> its name term (by kind), item i -> its name
        decls = {d.split()[1] for d in ex.enc.decls}

        def sid(name):
            t = "sid!" + re.sub(r"[^A-Za-z0-9_.!]", "_", name)
            if t not in decls:
                ex.enc.decls.append(f"(declare-const {t} Int)")
                decls.add(t)
            return t
        exp_names = []
        ok_struct = True
        for j in range(nexp):
            base = f"{exports_ev}.Some.0.e{j}"
            ft = o.state.facts.get(f"{base}!tag")
            if not (ft and ft[0] == "eq"):
                ok_struct = False
                break
            vn = ev[ft[1]]
            fields = [x[0] for x in [v for v in etd.variants if v[0] == vn][0][1]]
            idx = fields.index("variant_name") if vn == "Variant" else 0
            exp_names.append(sid(f"{base}.{vn}.{idx}"))
        if not ok_struct:
            bad.append((conj(o.pc), "an exported symbol's kind is never examined"))
            continue
        # which items were reported: the message of each push mentions the item's name (format args) - recover by order: one push per
        # failing `contains`; the path condition fixes each contains answer
        reported = len(pushes)
        # expected number of reports: items whose name equals no exported name
        item_sids = [sid(f"{items.name}.e{i}.{item_f.index('name')}") for i in range(nit)]
        missing = [conj([f"(not (= {isd} {en}))" for en in exp_names]) if exp_names else "true" for isd in item_sids]
        # count constraint: reported == number of missing items
        terms = [f"(ite {m} 1 0)" for m in missing]
        total = "(+ " + " ".join(terms + ["0", "0"]) + ")"
        bad.append((conj(o.pc + [f"(not (= {total} {reported}))"]),
                    f"{key}: {reported} items reported although a different number of them is absent from the exports"))
        if len(shapes) < 6:
            shapes.append(f"{key}: {reported} reported")
    r = {"id": "X-import_visibility", "engine": "E2-X mirsmt",
         "statement": "`from m import x, y, ..`: the exports recorded for the dependency are looked up under the WHOLE module path joined with `_`; "
                      "when they exist, exactly the items whose name equals no exported name (type / trait / function / const name, or the variant "
                      "name of an exported enum variant) are reported as private-or-missing, and nothing is reported for other import forms or for "
                      "modules without recorded exports",
         "bound": f"TypeChecker::validate_import_visibility: every ImportKind, 0..={bound} exported symbols of every kind x 0..={bound} imported items, "
                  "names symbolic (equality of names = equality of symbolic ids); which names a module exports is C14's export-filter harnesses; "
                  "the text of the diagnostics is not examined",
         "encoding": "exports and items as symbolic sequences; the HashSet of exported names as the list of inserted strings; HashMap::get / join as events",
         "functions_encoded": [n + " (MIR)" for n in ex.encoded], "paths": len(outs), "compositions": classes, "shapes": shapes}
    r["wall_s"] = round(time.time() - t0, 2)
    if n_ok < 6 or "not a from-import" not in classes or "module not pre-imported" not in classes:
        first = next((w for b, w in bad if b != "false"), "-")
        return native_visibility(r, f"not every case was reached ({classes}); first problem: {first[:300]}", log_dir)
    r["vacuity_ok"] = True
    live = [(b, w) for b, w in bad if b != "false"]
    queries = 0
    for k in range(0, len(live), 40):
        chunk = live[k:k + 40]
        res = solver.check(mp.smt_lines(ex, [disj([b for b, _ in chunk])]), [], "z3", 120)
        queries += 1
        if res.status == "unsat":
            continue
        for b, w in chunk:
            res = solver.check(mp.smt_lines(ex, [b]), [], "z3", 60)
            queries += 1
            if res.status != "unsat":
                r["queries"] = queries
                return native_visibility(r, w, log_dir)
    r["queries"] = queries
    r.update(status="held", solver=f"{n_ok} from-import paths, {len(live)} deviation conditions, all unsat (z3, {queries} queries)")
    r["wall_s"] = round(time.time() - t0, 2)
    return r


def native_visibility(r, why, log_dir):
    """Replay through the public API: check_with_imports on a main module and a nested dependency `a_b` with public and private items."""
    import kani
    os.makedirs(log_dir, exist_ok=True)
    texts, broken = [], False
    for prof in ("dev", "release"):
        binp = kani.build_replay(prof, True, log_dir)
        rc, out, _, to = common.run([binp, "visibility"], timeout=120)
        lines = dict(re.findall(r"^VIS (\S+) (.*)$", out, re.M))
        # scenario -> (verdict, a visibility diagnostic expected?)
        want = {"pub_fn": ("ACCEPTED", False), "private_fn": ("REJECTED", True), "pub_type": ("ACCEPTED", False), "private_const": ("REJECTED", True),
                "pub_variant": ("ACCEPTED", False), "mixed": ("REJECTED", True), "nested_private": ("REJECTED", True), "nested_pub": ("ACCEPTED", False),
                "unknown_module": (None, False), "private_trait_use": ("REJECTED", False), "pub_trait_use": ("ACCEPTED", False)}
        # (`private_model_use` - an un-imported private model named in a parameter annotation - is printed by the runner but not judged:
        #  the checker accepts unknown type names in annotations, imported or not, which is not an import-visibility matter)
        for k, (verdict, vis) in want.items():
            line = lines.get(k)
            if line is None:
                broken = True
                texts.append(f"[{prof}] {k}: no verdict ({out.strip()[-120:]})")
                continue
            has_vis = re.search(r"visibility=([1-9])", line) is not None
            bad_ = (verdict is not None and not line.startswith(verdict)) or (has_vis != vis)
            if bad_:
                broken = True
                texts.append(f"[{prof}] {k}: expected {verdict or 'no visibility diagnostic'}{' with a visibility diagnostic' if vis else ''}, checker says {line[:140]}")
    text = "; ".join(texts) or "11 import scenarios (pub / private functions, types, consts, traits of flat and nested modules, enum variants) are accepted / rejected as documented"
    r["native"] = text
    if broken:
        os.makedirs(os.path.join(common.REPLAYS_DIR, "MIRX"), exist_ok=True)
        rp = os.path.join(common.REPLAYS_DIR, "MIRX", r["id"] + ".replay")
        with open(rp, "w") as fh:
            fh.write(f"mirx visibility\n# {r['statement']}\n# solver: {why[:400]}\n# native: {text}\n")
        r.update(status="violated", replay=rp, counterexample={"path": why[:500], "native": text})
    else:
        r.update(status="inconclusive", reason=f"a feasible path deviates ({why[:300]}) but the import scenarios behave as documented")
    return r


def replay(pid, line, path):
    from common import say
    r = native_visibility({"id": "replay", "statement": ""}, "", os.path.join(common.WORK_DIR, pid, "replay"))
    say(r.get("native", ""))
    if r.get("status") == "violated":
        say(f"VIOLATION property={pid} replay={path}")
        return 1
    return 0
