"""E2-X obligations for C03 (ill-typed programs are rejected): rule bodies of the type checker executed from the point where the
operand types are known, with the symbol table's query functions (`lookup`, `lookup_local`, `get`, `types_compatible`) as
uninterpreted calls with arbitrary answers and the diagnostics list as events."""
import os
import re
import time

import common
from common import Inconclusive, say
import mirx
import solver
import symex
from symex import Adt, Sym, conj, disj, neg


def build(pid, P, R, tier, log_dir):
    import mirx_props as mp
    if pid == "C02":
        import tc_props
        # the checker's typing of arithmetic / compound assignment must be the typing the emitted Rust has (otherwise rustc rejects an accepted program):
        # the two type-checker slices of C07 are part of C02's first half as well
        typed = [ob for ob in tc_props.build("C07", P, R, tier, log_dir) if ob.id in ("X-compound_assign", "X-check_binary")]
        return [mp.XOb("X-accept_implies_lower_assign", "", "", lambda: run_accept_implies_lower(P, R, mp, log_dir)),
                mp.XOb("X-lower_total", "", "", lambda: run_lower_total(P, R, mp, log_dir))] + typed
    if pid == "C01":
        return [mp.XOb("X-lower_visits_all", "", "", lambda: run_lower_visits_all(P, R, mp, log_dir))]
    if pid != "C03":
        return []
    return [mp.XOb("X-check_assign", "", "", lambda: run_check_assign(P, R, mp, log_dir)),
            mp.XOb("X-check_try", "", "", lambda: run_check_try(P, R, mp, log_dir)),
            mp.XOb("X-match_exhaustive", "", "", lambda: run_match_exhaustive(P, R, mp, log_dir, 3 if tier == "quick" else 4)),
            mp.XOb("X-ctor_fields", "", "", lambda: run_ctor_fields(P, R, mp, log_dir, 2 if tier == "quick" else 3)),
            mp.XOb("X-check_ident_return", "", "", lambda: run_ident_return(P, R, mp, log_dir)),
            mp.XOb("X-check_if", "", "", lambda: run_check_if(P, R, mp, log_dir, 2 if tier == "quick" else 3)),
            mp.XOb("X-generic_nominal", "", "", lambda: run_generic_nominal(P, R, mp, log_dir)),
            mp.XOb("X-error_type_frame", "", "", lambda: run_error_type_frame(P, R, mp, log_dir)),
            mp.XOb("X-check_visits_all", "", "", lambda: run_check_visits_all(P, R, mp, log_dir, 1))]


def executor(P, R):
    import tc_props
    ex = mirx.make_executor(P, R, max_paths=2000000)
    ex.opaque_calls = mirx.slice_opaque
    ex.recursion_bound = 0
    ex.tolerate_unsupported = True
    ex.max_steps = 3000
    ex.summarize = tc_props.SUMMARIZE + [r"SymbolTable::\w+$", r"HashSet::<.*>::insert$", r"resolve_type$", r"as (std::clone::)?Clone>::clone$",
                                         r"::is_result$", r"::is_option$", r"::result_err_type$", r"::result_ok_type$", r"Display>::fmt", r"Option::<.*>::cloned$"]
    return ex


def answer(o, evname):
    """truth value a summarised boolean call took on this path (None = not decided)"""
    return True if evname in o.pc else False if f"(not {evname})" in o.pc else None


def opt_tag(o, evname):
    fo = o.state.facts.get(f"{evname}!tag")
    return fo[1] if fo and fo[0] == "eq" else None


# ---- `name = value`: the checker's rule -------------------------------------------------------------------------------------------------
def run_check_assign(P, R, mp, log_dir):
    import tc_props
    t0 = time.time()
    f = tc_props.find_fn(P, "check_assignment")
    loc_v, entry = tc_props.entry_after_call(f, "value_ty", r"check_expr")
    ex = executor(P, R)
    selfv = ex.sym_value("TypeChecker", "self")
    assign = ex.sym_value("incan_syntax::ast::AssignmentStmt", "assign")
    value_ty = ex.sym_value("symbols::ResolvedType", "value_ty")
    outs = ex.run_slice(f, entry, {loc_v: value_ty}, [selfv, assign, symex.Opaque("span")])
    an = [x[0] for x in R.resolve("incan_syntax::ast::AssignmentStmt").variants[0][1]]
    binding = assign.child(None, an.index("binding"))
    bvars = mp.variants(R, "incan_syntax::ast::BindingKind")
    bt = binding.tag().term
    plain = disj([f"(= {bt} {bvars.index(n)})" for n in ("Inferred", "Reassign")])
    bad, n_ok, classes = [], 0, {}
    scope_bad = []       # deviations of rule (1): which scopes are searched (the recorded finding's class)
    for o in outs:
        if o.kind == "unsupported":
            bad.append((conj(o.pc), f"unsupported MIR: {o.info}"))
            continue
        if o.kind != "return":
            bad.append((conj(o.pc), f"panic: {o.info}"))
            continue
        n_ok += 1
        evs = o.events
        chain = [e for e in evs if e[0].endswith("SymbolTable::lookup")]
        local = [e for e in evs if e[0].endswith("SymbolTable::lookup_local")]
        gets = [e for e in evs if e[0].endswith("SymbolTable::get")]
        pushes = [e for e in evs if e[0].endswith("Vec::push")]
        defines = [e for e in evs if e[0].endswith("SymbolTable::define")]
        mut_err = any(e[0].endswith("mutation_without_mut") for e in evs)
        fb = o.state.facts.get(bt)
        bk = bvars[fb[1]] if fb and fb[0] == "eq" else None
        # (1) a plain assignment / explicit re-assignment must consult the WHOLE scope chain for an existing binding
        if local and not chain:
            classes["searches the current scope only"] = classes.get("searches the current scope only", 0) + 1
            scope_bad.append((conj(o.pc + [plain]), "a plain assignment looks for an existing binding with lookup_local (current scope only): an immutable binding of "
                              "an enclosing scope is not found, so re-assigning it from a nested block is not reported"))
        look = (chain or local)
        if not look:
            bad.append((conj(o.pc), "no scope lookup at all"))
            continue
        found = opt_tag(o, look[0][2])
        if found == 1 and gets:
            sym_found = opt_tag(o, gets[0][2])
            if sym_found == 1:
                kind_t = o.state.facts.get(f"{gets[0][2]}.Some.0.{sym_kind_idx(R)}!tag")
                skinds = mp.variants(R, "SymbolKind")
                if kind_t and kind_t[0] == "eq" and skinds[kind_t[1]] == "Variable":
                    # (2) existing variable: immutable -> mutation error
                    vi = f"{gets[0][2]}.Some.0.{sym_kind_idx(R)}.Variable.0"
                    vnames = [x[0] for x in R.resolve("VariableInfo").variants[0][1]]
                    mterm = f"{vi}.{vnames.index('is_mutable')}"
                    is_mut = True if mterm in o.pc else False if f"(not {mterm})" in o.pc else None
                    key = f"re-assignment of {'a mutable' if is_mut else 'an immutable' if is_mut is False else 'a'} variable"
                    classes[key] = classes.get(key, 0) + 1
                    if is_mut is False and not mut_err:
                        bad.append((conj(o.pc), "re-assignment of an immutable variable is not reported"))
                    if is_mut is True and mut_err:
                        bad.append((conj(o.pc), "re-assignment of a mutable variable is reported as a mutation error"))
                    if is_mut is None:
                        bad.append((conj(o.pc), "mutability of the existing variable is never examined"))
                    if defines:
                        bad.append((conj(o.pc), "a re-assignment defines a new symbol"))
                    continue
        if found == 0:
            key = "new binding"
            classes[key] = classes.get(key, 0) + 1
            if len(defines) != 1:
                bad.append((conj(o.pc), f"a new binding defines {len(defines)} symbols"))
            continue
        classes["other"] = classes.get("other", 0) + 1
    r = {"id": "X-check_assign", "engine": "E2-X mirsmt (slice)",
         "statement": "type checker, `name = value`: for a plain assignment or explicit re-assignment an existing binding is looked for in the WHOLE scope "
                      "chain (so that re-assigning an immutable binding from any nesting depth is seen); an existing immutable variable is reported "
                      "(mutation without `mut`), a mutable one is not; otherwise exactly one new symbol is defined",
         "bound": "TypeChecker::check_assignment from the point where the value's type is known; every binding kind x every answer of the symbol-table "
                  "queries (lookup / lookup_local / get, symbol kind, is_mutable) and of types_compatible; the symbol table itself is uninterpreted "
                  "(its lookup walks the parent chain, lookup_local does not: symbols.rs)",
         "encoding": "statement as a symbolic ADT; symbol-table queries as events with arbitrary results",
         "functions_encoded": [n + " (MIR)" for n in ex.encoded], "paths": len(outs), "compositions": classes}
    r["wall_s"] = round(time.time() - t0, 2)
    # the rules about an existing / new binding first (any deviation there is reported on its own), then the scope rule
    r1 = finish(dict(r), ex, mp, bad, n_ok, log_dir, native_assign_strict, need=len(classes) >= 2)
    if r1["status"] != "held":
        return r1
    r2 = finish(dict(r), ex, mp, scope_bad, n_ok, log_dir, native_assign, need=True)
    if r2["status"] == "held":
        r2["solver"] = r1["solver"] + "; scope rule: " + r2["solver"]
    return r2


def sym_kind_idx(R):
    return [x[0] for x in R.resolve("Symbol").variants[0][1]].index("kind")


def finish(r, ex, mp, bad, n_ok, log_dir, native, need=True):
    t0 = time.time()
    if n_ok == 0 or not need:
        first = next((w for b, w in bad if b != "false"), "-")
        r["deviating_path"] = f"not every case was reached ({r.get('compositions')}); first problem: {first[:300]}"
        return native(r, log_dir)
    r["vacuity_ok"] = True
    live = [(b, w) for b, w in bad if b != "false"]
    for k in range(0, len(live), 40):
        chunk = live[k:k + 40]
        res = solver.check(mp.smt_lines(ex, [disj([b for b, _ in chunk])]), [], "z3", 120)
        if res.status == "unsat":
            continue
        for b, w in chunk:
            if solver.check(mp.smt_lines(ex, [b]), [], "z3", 60).status != "unsat":
                r["deviating_path"] = w
                r["wall_s"] = round(r.get("wall_s", 0) + time.time() - t0, 2)
                return native(r, log_dir)
    r.update(status="held", solver=f"{n_ok} paths follow the rule" + (f"; {len(live)} deviating paths infeasible (z3 unsat)" if live else " (syntactic)"))
    r["wall_s"] = round(r.get("wall_s", 0) + time.time() - t0, 2)
    return r


def verdicts(programs, log_dir, tag):
    """[(name, source, 'ACCEPTED'|'REJECTED', must_mention)] through the public check API -> (broken?, text)"""
    import tc_props
    texts, broken = [], False
    for name, src, exp, mention in programs:
        res, _ = tc_props.native_typecheck(src, log_dir, f"{tag}_{name}")
        for prof, line in res.items():
            ok = line.startswith(exp) and (not mention or mention.lower() in line.lower())
            if not ok:
                broken = True
                texts.append(f"[{prof}] {name}: expected {exp}{' mentioning ' + repr(mention) if mention else ''}, checker says {line[:150]}")
    return broken, texts


def report(r, log_dir, kind, broken, texts, ok_text, allow_known=True):
    kf = [k for k in common.load_known_findings().get("findings", []) if k.get("property") == "C03" and k.get("obligation") == r["id"]]
    only_known = bool(broken and kf and all(any(w in t for w in kf[0].get("witness_names", [])) for t in texts))
    if only_known and not allow_known:
        # the solver's deviation is NOT the recorded one, and the replay shows nothing beyond the recorded finding: no verdict
        texts, broken = [], False
        ok_text = "the replay programs show only the recorded finding (a different rule deviates at the solver level)"
    text = "; ".join(texts[:6]) or ok_text
    r["native"] = text
    if only_known and allow_known:
        r.update(status="known-finding", finding=f"obligation={r['id']} {kf[0].get('what', '')} ({text[:300]})")
        return r
    if broken:
        os.makedirs(os.path.join(common.REPLAYS_DIR, "MIRX"), exist_ok=True)
        rp = os.path.join(common.REPLAYS_DIR, "MIRX", r["id"] + ".replay")
        with open(rp, "w") as fh:
            fh.write(f"mirx c03 {kind}\n# {r.get('statement', '')}\n# {r.get('deviating_path')}\n# {text}\n")
        r.update(status="violated", replay=rp, counterexample={"path": r.get("deviating_path"), "native": text})
    else:
        r.update(status="inconclusive", reason=f"a feasible path deviates ({str(r.get('deviating_path'))[:300]}) but {text}")
    return r


ASSIGN_PROGRAMS = [
    ("nested_immutable", "def g(n: int) -> int:\n    fixed = 3\n    if n > 0:\n        fixed = 4\n    return fixed\n", "REJECTED", "fixed"),
    ("nested2_immutable", "def g(n: int) -> int:\n    fixed = 3\n    while n > 0:\n        if n > 1:\n            fixed = 4\n        return fixed\n    return fixed\n", "REJECTED", "fixed"),
    ("same_scope_immutable", "def g(n: int) -> int:\n    fixed = 3\n    fixed = 4\n    return fixed\n", "REJECTED", "fixed"),
    ("let_immutable_nested", "def g(n: int) -> int:\n    let fixed = 3\n    for i in [1, 2]:\n        fixed = i\n    return fixed\n", "REJECTED", "fixed"),
    ("nested_mutable", "def g(n: int) -> int:\n    mut total = 0\n    if n > 0:\n        total = 4\n    return total\n", "ACCEPTED", None),
    ("nested_mutable_twice", "def g(n: int) -> int:\n    mut total = 0\n    if n > 0:\n        total = total + 1\n        total = total + 2\n    return total\n", "ACCEPTED", None),
    ("fresh_in_branch", "def g(n: int) -> int:\n    if n > 0:\n        fresh = 4\n        return fresh\n    return 0\n", "ACCEPTED", None),
    ("same_scope_mutable", "def g(n: int) -> int:\n    mut total = 0\n    total = 4\n    return total\n", "ACCEPTED", None),
    ("other_fn_mutable_same_name", "def a() -> int:\n    mut x = 1\n    x = 2\n    return x\n\ndef b() -> int:\n    x = 1\n    x = 2\n    return x\n", "REJECTED", "x"),
    ("plain_param", "def a(x: int) -> int:\n    x = 2\n    return x\n", "REJECTED", "x"),
    ("inner_let_shadow_then_outer_reassign", "def g(n: int) -> int:\n    mut total = 0\n    for i in [1, 2]:\n        let total = i\n    total = 5\n    return total\n", "ACCEPTED", None),
    ("wrong_type_same_scope", "def a() -> int:\n    mut x = 1\n    x = \"s\"\n    return x\n", "REJECTED", None),
]


def native_assign(r, log_dir, allow_known=True):
    broken, texts = verdicts(ASSIGN_PROGRAMS, log_dir, "c03assign")
    return report(r, log_dir, "assign", broken, texts, f"{len(ASSIGN_PROGRAMS)} programs re-assigning immutable / mutable bindings at several nesting depths are rejected / accepted as documented",
                  allow_known=allow_known)


def native_assign_strict(r, log_dir):
    return native_assign(r, log_dir, allow_known=False)


# ---- `expr?` ----------------------------------------------------------------------------------------------------------------------------
def run_check_try(P, R, mp, log_dir):
    import tc_props
    t0 = time.time()
    f = tc_props.find_fn(P, "check_try")
    loc_v, entry = tc_props.entry_after_call(f, "inner_ty", r"check_expr")
    ex = executor(P, R)
    selfv = ex.sym_value("TypeChecker", "self")
    inner_ty = ex.sym_value("symbols::ResolvedType", "inner_ty")
    outs = ex.run_slice(f, entry, {loc_v: inner_ty}, [selfv, symex.Opaque("inner"), symex.Opaque("span")])
    bad, n_ok, classes = [], 0, {}
    for o in outs:
        if o.kind != "return":
            bad.append((conj(o.pc), f"{o.kind}: {o.info}"))
            continue
        n_ok += 1
        evs = o.events
        isres = next((e for e in evs if e[0].endswith("is_result")), None)
        compat = next((e for e in evs if e[0].endswith("types_compatible")), None)
        pushed = sum(1 for e in evs if e[0].endswith("Vec::push"))
        non_result_err = any(e[0].endswith("try_on_non_result") for e in evs)
        incompatible_err = any(e[0].endswith("incompatible_error_type") for e in evs)
        if isres is None:
            bad.append((conj(o.pc), "the operand's type is never tested for being a Result"))
            continue
        a = answer(o, isres[2])
        v = ex.deref(o.value, o.state)
        if a is False:
            classes["operand is not a Result"] = classes.get("operand is not a Result", 0) + 1
            ok = non_result_err and pushed == 1 and isinstance(v, Adt) and v.variant == "Unknown"
            if not ok:
                bad.append((conj(o.pc), f"`?` on a non-Result: reported={non_result_err}, result type {mirx.show(v, ex, o.state)[:60]}"))
            continue
        if compat is not None:
            c = answer(o, compat[2])
            key = f"error types {'compatible' if c else 'incompatible'}"
            classes[key] = classes.get(key, 0) + 1
            if c is False and not incompatible_err:
                bad.append((conj(o.pc), "`?` whose error type is incompatible with the function's declared error type is not reported"))
            if c is True and pushed:
                bad.append((conj(o.pc), "`?` with compatible error types is reported"))
        else:
            classes["no declared error type to compare with"] = classes.get("no declared error type to compare with", 0) + 1
            if pushed:
                bad.append((conj(o.pc), "reported although nothing was compared"))
    r = {"id": "X-check_try", "engine": "E2-X mirsmt (slice)",
         "statement": "type checker, `expr?`: an operand that is not a Result is reported and typed Unknown; when both the operand's error type and the "
                      "enclosing function's declared error type are known and incompatible, that is reported; compatible ones are not",
         "bound": "TypeChecker::check_try from the point where the operand's type is known; every answer of is_result / result_err_type / "
                  "current_return_error_type / types_compatible", "encoding": "type queries as events with arbitrary results",
         "functions_encoded": [n + " (MIR)" for n in ex.encoded], "paths": len(outs), "compositions": classes}
    r["wall_s"] = round(time.time() - t0, 2)
    return finish(r, ex, mp, bad, n_ok, log_dir, native_try, need=len(classes) >= 3)


TRY_PROGRAMS = [
    ("non_result", "def f(x: int) -> Result[int, str]:\n    y = x?\n    return Ok(y)\n", "REJECTED", None),
    ("incompatible", "def g() -> Result[int, int]:\n    return Ok(1)\n\ndef f() -> Result[int, str]:\n    y = g()?\n    return Ok(y)\n", "REJECTED", None),
    ("compatible", "def g() -> Result[int, str]:\n    return Ok(1)\n\ndef f() -> Result[int, str]:\n    y = g()?\n    return Ok(y)\n", "ACCEPTED", None),
]


def native_try(r, log_dir):
    broken, texts = verdicts(TRY_PROGRAMS, log_dir, "c03try")
    return report(r, log_dir, "try", broken, texts, f"{len(TRY_PROGRAMS)} `?` programs are rejected / accepted as documented")


# ---- match exhaustiveness ------------------------------------------------------------------------------------------------------------------
def run_match_exhaustive(P, R, mp, log_dir, bound):
    import tc_props
    t0 = time.time()
    f = tc_props.find_fn(P, "check_match_exhaustiveness")
    ex = executor(P, R)
    ex.model_sequences = True
    ex.model_maps = True
    ex.model_vecs = True
    ex.strings_identity = True
    ex.seq_bound = bound
    # is_result / is_option are executed for real here (they are false for a named enum; summarising them would allow inconsistent answers)
    ex.summarize = [p_ for p_ in ex.summarize if "is_result" not in p_ and "is_option" not in p_] + [
        r"impl str>::contains::<.*>$", r"impl str>::split::<.*>$", r"Iterator>::last$", r"Option::<&str>::unwrap_or$", r"non_exhaustive_match$",
        r"constructors::as_str$", r"collections::from_str$"]
    selfv = ex.sym_value("TypeChecker", "self")
    subject = ex.sym_value("symbols::ResolvedType", "subject")
    arms = ex.sym_value("&[incan_syntax::ast::Spanned<incan_syntax::ast::MatchArm>]", "arms")
    outs = ex.run(f, [selfv, subject, arms, symex.Opaque("span")])
    an = [x[0] for x in R.resolve("incan_syntax::ast::MatchArm").variants[0][1]]
    pvars = mp.variants(R, "incan_syntax::ast::Pattern")
    bad, n_ok, classes = [], 0, {}
    decls = None
    for o in outs:
        if o.kind == "unsupported":
            bad.append((conj(o.pc), f"unsupported MIR: {o.info}"))
            continue
        if o.kind != "return":
            bad.append((conj(o.pc), f"panic: {o.info}"))
            continue
        evs = o.events
        pushed = sum(1 for e in evs if e[0].endswith("Vec::push"))
        n = o.state.facts.get("len:" + arms.name)
        # where do the variants come from on this path?
        enum_get = next((e for e in evs if e[0].endswith("SymbolTable::get")), None)
        is_res = next((e for e in evs if e[0].endswith("is_result")), None)
        variants_seq = None
        if enum_get is not None and opt_tag(o, enum_get[2]) == 1:
            vs = [k for k in o.state.facts if isinstance(k, str) and k.startswith(f"len:{enum_get[2]}.Some.0") and k.endswith(tuple("0123456789"))]
            lens = {k: o.state.facts[k] for k in vs}
            if len(lens) == 1:
                (kname, m_), = lens.items()
                variants_seq = (kname[4:], m_)
        qualified = any(answer(o, e[2]) is True for e in evs if e[0].endswith("contains") and "HashSet" not in e[0])
        if qualified:
            classes["qualified variant names (outside the statement)"] = classes.get("qualified variant names (outside the statement)", 0) + 1
            continue
        if variants_seq is None:
            # Result / Option subjects and non-enum subjects: only the no-error direction is asserted for subjects without variants
            ra = answer(o, is_res[2]) if is_res else None
            if n is None:
                classes["no variants known"] = classes.get("no variants known", 0) + 1
                if pushed:
                    bad.append((conj(o.pc), "a match over a type without known variants is reported as non-exhaustive"))
                continue
            classes["Result / Option subject"] = classes.get("Result / Option subject", 0) + 1
            continue
        seqname, m_ = variants_seq
        if n is None:
            bad.append((conj(o.pc), "the arms are never walked although the variants are known"))
            continue
        n_ok += 1
        key = f"enum with {m_} variants, {n} arms"
        classes[key] = classes.get(key, 0) + 1
        if decls is None:
            decls = {d.split()[1] for d in ex.enc.decls}

        def sid(name):
            t = "sid!" + re.sub(r"[^A-Za-z0-9_.!]", "_", name)
            if t not in decls:
                ex.enc.decls.append(f"(declare-const {t} Int)")
                decls.add(t)
            return t
        wildcard = False
        ctor_sids = []
        known = True
        for i in range(n):
            pat = mirx.seq_elem(ex, arms, i).child(None, 0).child(None, an.index("pattern")).child(None, 0)
            fp = o.state.facts.get(pat.tag().term) if pat._tag is not None else None
            if not (fp and fp[0] == "eq"):
                known = False
                break
            pn = pvars[fp[1]]
            if pn in ("Wildcard", "Binding"):
                wildcard = True
            elif pn == "Constructor":
                ctor_sids.append(sid(pat.child("Constructor", 0).name))
        if not known:
            bad.append((conj(o.pc), "an arm's pattern kind is never examined"))
            continue
        var_sids = [sid(f"{seqname}.e{j}") for j in range(m_)]
        missing_some = disj([conj([f"(not (= {v} {c}))" for c in ctor_sids]) if ctor_sids else "true" for v in var_sids]) if var_sids else "false"
        doc_err = "false" if wildcard else missing_some
        bad.append((conj(o.pc + [f"(not (= {'true' if pushed else 'false'} {doc_err}))"]),
                    f"{key}: reported={bool(pushed)} although the documented verdict is the opposite (wildcard arm: {wildcard}; events "
                    f"{[e[0].split('::')[-1] + ('=' + str(answer(o, e[2])) if answer(o, e[2]) is not None else '') for e in evs][-8:]}; doc {doc_err[:120]})"))
    r = {"id": "X-match_exhaustive", "engine": "E2-X mirsmt",
         "statement": "type checker, `match` over an enum: a non-exhaustive-match error is reported iff no arm is a wildcard / binding and some variant of "
                      "the enum is named by no constructor pattern; never for subjects without known variants",
         "bound": f"TypeChecker::check_match_exhaustiveness: enums of 0..={bound} variants x 0..={bound} arms of every pattern kind, names symbolic (equality "
                  "= equality of symbolic ids, decided by z3); constructor patterns written with a `::` path and the Result / Option subjects (whose "
                  "variant names are built from constants) are not asserted; guards are not taken into account by the code nor by this statement",
         "encoding": "variants and arms as symbolic sequences; the covered set as the list of inserted names",
         "functions_encoded": [n_ + " (MIR)" for n_ in ex.encoded], "paths": len(outs), "compositions": dict(sorted(classes.items())[:14])}
    r["wall_s"] = round(time.time() - t0, 2)
    return finish(r, ex, mp, bad, n_ok, log_dir, native_match, need=n_ok >= 6)


MATCH_PROGRAMS = [
    ("missing_variant", "enum Shape:\n    Circle(int)\n    Square(int)\n    Dot\n\ndef f(s: Shape) -> int:\n    match s:\n        case Circle(r):\n            return r\n        case Square(w):\n            return w\n    return 0\n", "REJECTED", "exhaustive"),
    ("all_variants", "enum Shape:\n    Circle(int)\n    Square(int)\n\ndef f(s: Shape) -> int:\n    match s:\n        case Circle(r):\n            return r\n        case Square(w):\n            return w\n    return 0\n", "ACCEPTED", None),
    ("wildcard", "enum Shape:\n    Circle(int)\n    Square(int)\n    Dot\n\ndef f(s: Shape) -> int:\n    match s:\n        case Circle(r):\n            return r\n        case _:\n            return 1\n    return 0\n", "ACCEPTED", None),
    ("duplicate_arm_hides_missing", "enum Shape:\n    Circle(int)\n    Square(int)\n    Dot\n\ndef f(s: Shape) -> int:\n    match s:\n        case Circle(r):\n            return r\n        case Circle(q):\n            return q\n        case Square(w):\n            return w\n    return 0\n", "REJECTED", "exhaustive"),
    ("foreign_ctor_hides_missing", "enum Shape:\n    Circle(int)\n    Square(int)\n    Dot\n\nenum Light:\n    Amber(int)\n\ndef f(s: Shape) -> int:\n    match s:\n        case Circle(r):\n            return r\n        case Square(w):\n            return w\n        case Amber(q):\n            return q\n    return 0\n", "REJECTED", "exhaustive"),
    ("no_arm_names_a_variant", "enum Shape:\n    Circle(int)\n\nenum Light:\n    Amber(int)\n\ndef f(s: Shape) -> int:\n    match s:\n        case Amber(q):\n            return q\n    return 0\n", "REJECTED", "exhaustive"),
    ("option_missing_none", "def f(o: Option[int]) -> int:\n    match o:\n        case Some(x):\n            return x\n    return 2\n", "REJECTED", "exhaustive"),
    ("result_missing_err", "def f(o: Result[int, str]) -> int:\n    match o:\n        case Ok(x):\n            return x\n    return 2\n", "REJECTED", "exhaustive"),
]


def native_match(r, log_dir):
    broken, texts = verdicts(MATCH_PROGRAMS, log_dir, "c03match")
    return report(r, log_dir, "match", broken, texts, f"{len(MATCH_PROGRAMS)} match programs (missing variant, all variants, wildcard, Option / Result) are rejected / accepted as documented")


# ---- unknown names, wrong return type ---------------------------------------------------------------------------------------------------
def run_ident_return(P, R, mp, log_dir):
    import tc_props
    t0 = time.time()
    bad, n_ok, classes, encoded, paths = [], 0, {}, [], 0
    # (a) a name: found by the scope chain -> typed from its symbol, not found -> `unknown symbol`
    f = tc_props.find_fn(P, "check_ident")
    ex = executor(P, R)
    ex.summarize = ex.summarize + [r"HashMap::<.*>::insert$", r"Iterator>::collect::<.*>$", r"Iterator>::map::<.*>$", r"impl \[.*\]>::iter$", r"ToString>::to_string$"]
    selfv = ex.sym_value("TypeChecker", "self")
    outs = ex.run(f, [selfv, symex.Opaque("name"), ex.sym_value("incan_syntax::ast::Span", "span")])
    encoded += ex.encoded
    paths += len(outs)
    for o in outs:
        if o.kind != "return":
            bad.append((ex, conj(o.pc), f"check_ident: {o.kind}: {o.info}"))
            continue
        n_ok += 1
        evs = o.events
        look = next((e for e in evs if e[0].endswith("SymbolTable::lookup")), None)
        unknown = any(e[0].endswith("unknown_symbol") for e in evs)
        pushed = sum(1 for e in evs if e[0].endswith("Vec::push"))
        v = ex.deref(o.value, o.state)
        if look is None or any(e[0].endswith("lookup_local") for e in evs):
            bad.append((ex, conj(o.pc), "a name is not resolved through the scope chain (SymbolTable::lookup)"))
            continue
        found = opt_tag(o, look[2])
        got = next((e for e in evs if e[0].endswith("SymbolTable::get")), None)
        resolved = found == 1 and got is not None and opt_tag(o, got[2]) == 1
        if found == 1 and not resolved:
            continue        # an id the table does not know: not a state the symbol table produces (lookup returns ids of stored symbols)
        if resolved:
            classes["name resolved"] = classes.get("name resolved", 0) + 1
            if pushed:
                bad.append((ex, conj(o.pc), "a resolved name is reported"))
            kt = o.state.facts.get(f"{got[2]}.Some.0.{sym_kind_idx(R)}!tag")
            if kt and kt[0] == "eq" and mp.variants(R, "SymbolKind")[kt[1]] == "Variable":
                vnames = [x[0] for x in R.resolve("VariableInfo").variants[0][1]]
                want = f"{got[2]}.Some.0.{sym_kind_idx(R)}.Variable.0.{vnames.index('ty')}"
                if not (isinstance(v, Sym) and v.name == want):
                    bad.append((ex, conj(o.pc), f"a variable is typed {mirx.show(v, ex, o.state)[:80]} instead of its declared type"))
        else:
            classes["name not found"] = classes.get("name not found", 0) + 1
            if not (unknown and pushed == 1 and isinstance(v, Adt) and v.variant == "Unknown"):
                bad.append((ex, conj(o.pc), f"an unresolved name: reported={unknown} ({pushed} errors), typed {mirx.show(v, ex, o.state)[:60]}"))
    # (b) return: the value's type against the declared return type
    f2 = tc_props.find_fn(P, "check_return")
    ex2 = executor(P, R)
    ex2.summarize = ex2.summarize + [r"::check_expr$"]
    selfv2 = ex2.sym_value("TypeChecker", "self")
    expr_opt = ex2.sym_value("std::option::Option<&incan_syntax::ast::Spanned<incan_syntax::ast::Expr>>", "value")
    outs2 = ex2.run(f2, [selfv2, expr_opt, symex.Opaque("span")])
    encoded += ex2.encoded
    paths += len(outs2)
    for o in outs2:
        if o.kind != "return":
            bad.append((ex2, conj(o.pc), f"check_return: {o.kind}: {o.info}"))
            continue
        n_ok += 1
        evs = o.events
        cur = next((e for e in evs if e[0].endswith("current_return_type")), None)
        compat = next((e for e in evs if e[0].endswith("types_compatible")), None)
        pushed = sum(1 for e in evs if e[0].endswith("Vec::push"))
        if cur is None:
            bad.append((ex2, conj(o.pc), "the declared return type is never consulted"))
            continue
        if opt_tag(o, cur[2]) == 1:
            if compat is None:
                bad.append((ex2, conj(o.pc), "inside a function the returned value's type is not compared with the declared return type"))
                continue
            c = answer(o, compat[2])
            key = f"return value {'compatible' if c else 'incompatible'}"
            classes[key] = classes.get(key, 0) + 1
            # the compared types: (value type | Unit for a bare return, declared type)
            if (c is False) != (pushed == 1) or pushed > 1:
                bad.append((ex2, conj(o.pc), f"{key}: {pushed} errors reported"))
            fo = o.state.facts.get(expr_opt.tag().term)
            if fo and fo[0] == "eq" and fo[1] == 0 and "ResolvedType::Unit" not in compat[1][1]:
                bad.append((ex2, conj(o.pc), f"a bare `return` is compared as {compat[1][1][:60]} instead of Unit"))
        else:
            classes["no declared return type"] = classes.get("no declared return type", 0) + 1
            if pushed:
                bad.append((ex2, conj(o.pc), "reported although no return type is declared"))
    r = {"id": "X-check_ident_return", "engine": "E2-X mirsmt",
         "statement": "type checker: a name is resolved through the whole scope chain - found: typed from its symbol (a variable gets its declared type) and "
                      "not reported; not found: exactly one `unknown symbol` error and type Unknown; `return e` / bare `return`: the value's type (Unit "
                      "for a bare return) is compared with the declared return type, incompatible -> exactly one error, compatible -> none",
         "bound": "TypeChecker::check_ident and check_return with every answer of lookup / get / symbol kind / current_return_type / types_compatible",
         "encoding": "symbol-table queries as events with arbitrary results", "functions_encoded": sorted(set(n + " (MIR)" for n in encoded)),
         "paths": paths, "compositions": classes}
    r["wall_s"] = round(time.time() - t0, 2)
    if not {"name resolved", "name not found", "return value compatible", "return value incompatible"} <= set(classes):
        r["deviating_path"] = f"not every case was reached ({classes}); {(bad or [(None, '', '-')])[0][2][:200]}"
        return native_ident_return(r, log_dir)
    r["vacuity_ok"] = True
    for ex_, b, w in bad:
        if b != "false" and solver.check(mp.smt_lines(ex_, [b]), [], "z3", 60).status != "unsat":
            r["deviating_path"] = w
            return native_ident_return(r, log_dir)
    r.update(status="held", solver=f"{n_ok} paths follow the rules" + (f"; {len(bad)} deviating paths infeasible" if bad else " (syntactic)"))
    return r


IDENT_RETURN_PROGRAMS = [
    ("unknown_name", "def f() -> int:\n    return nowhere\n", "REJECTED", "nowhere"),
    ("unknown_in_nested", "def f(n: int) -> int:\n    if n > 0:\n        return missing_name + 1\n    return 0\n", "REJECTED", "missing_name"),
    ("outer_scope_name", "def f(n: int) -> int:\n    k = 5\n    if n > 0:\n        return k\n    return 0\n", "ACCEPTED", None),
    ("wrong_return", "def f() -> int:\n    return \"s\"\n", "REJECTED", None),
    ("bare_return_in_int_fn", "def f() -> int:\n    return\n", "REJECTED", None),
    ("right_return", "def f() -> str:\n    return \"s\"\n", "ACCEPTED", None),
]


def native_ident_return(r, log_dir):
    broken, texts = verdicts(IDENT_RETURN_PROGRAMS, log_dir, "c03ident")
    return report(r, log_dir, "identreturn", broken, texts, f"{len(IDENT_RETURN_PROGRAMS)} programs with unknown names / wrong return types are rejected / accepted as documented")


# ---- model / class construction: missing, duplicate, unknown fields -----------------------------------------------------------------------
def run_ctor_fields(P, R, mp, log_dir, bound):
    import tc_props
    t0 = time.time()
    f = tc_props.find_fn(P, "check_model_or_class_constructor_call")
    ex = executor(P, R)
    ex.model_sequences = True
    ex.model_maps = True
    ex.model_symmaps = True
    ex.seq_bound = bound
    ex.summarize = ex.summarize + [r"::check_call_args$", r"::check_expr$", r"\w+_constructor_\w+$", r"missing_field$", r"field_type_mismatch$"]
    selfv = ex.sym_value("TypeChecker", "self")
    fields = ex.sym_value("&std::collections::HashMap<std::string::String, symbols::FieldInfo>", "fields")
    args = ex.sym_value("&[incan_syntax::ast::CallArg]", "args")
    outs = ex.run(f, [selfv, symex.Opaque("type_name"), fields, args, symex.Opaque("span")])
    cavars = mp.variants(R, "incan_syntax::ast::CallArg")
    fi = [x[0] for x in R.resolve("FieldInfo").variants[0][1]]
    bad, n_ok, classes = [], 0, {}
    decls = {d.split()[1] for d in ex.enc.decls}

    def sid(name):
        t = "sid!" + re.sub(r"[^A-Za-z0-9_.!]", "_", name)
        if t not in decls:
            ex.enc.decls.append(f"(declare-const {t} Int)")
            decls.add(t)
        return t
    for o in outs:
        if o.kind == "unsupported":
            bad.append((conj(o.pc), f"unsupported MIR: {o.info}"))
            continue
        if o.kind != "return":
            bad.append((conj(o.pc), f"panic: {o.info}"))
            continue
        evs = o.events
        pushed = sum(1 for e in evs if e[0].endswith("Vec::push"))
        n = o.state.facts.get("len:" + args.name)
        m_ = o.state.facts.get("len:" + fields.name)
        if n is None:
            bad.append((conj(o.pc), "the arguments are never walked"))
            continue
        kinds = []
        for i in range(n):
            a = mirx.seq_elem(ex, args, i)
            fa = o.state.facts.get(a.tag().term) if a._tag is not None else None
            kinds.append(cavars[fa[1]] if fa and fa[0] == "eq" else None)
        n_ok += 1
        if "Positional" in kinds:
            key = "positional argument present"
            classes[key] = classes.get(key, 0) + 1
            if pushed != 1 or not any(e[0].endswith("positional_constructor_args_not_supported") for e in evs):
                bad.append((conj(o.pc), f"a positional constructor argument: {pushed} errors reported"))
            continue
        if None in kinds or m_ is None:
            # (with positional arguments excluded the code must look at every argument and at the field map)
            bad.append((conj(o.pc), f"an argument's kind / the declared fields are never examined (kinds {kinds}, fields {m_})"))
            continue
        key = f"{n} keyword arguments, {m_} declared fields"
        classes[key] = classes.get(key, 0) + 1
        asid = [sid(mirx.seq_elem(ex, args, i).child("Named", 0).name) for i in range(n)]
        fsid = [sid(mirx.symmap_key(ex, fields, j).name) for j in range(m_)]
        pre = [f"(distinct {' '.join(fsid)})"] if m_ > 1 else []
        has_default = [mirx.symmap_val(ex, fields, j).child(None, fi.index("has_default")).term for j in range(m_)]
        # the compatibility answers on this path, per argument (the event's first argument is the value's checked type: by order of occurrence)
        compat_evs = [e for e in evs if e[0].endswith("types_compatible")]
        dup = [disj([f"(= {asid[i]} {asid[k]})" for k in range(i)]) if i else "false" for i in range(n)]
        unknown = [conj([neg(dup[i])] + [f"(not (= {asid[i]} {fs}))" for fs in fsid]) for i in range(n)]
        checked = [conj([neg(dup[i]), neg(unknown[i])]) for i in range(n)]
        # mismatch errors: one per incompatible answer (each answer belongs to a checked argument)
        n_mismatch = sum(1 for e in compat_evs if answer(o, e[2]) is False)
        missing = [conj([neg(has_default[j])] + [f"(not (= {a_} {fsid[j]}))" for a_ in asid]) for j in range(m_)]
        total = "(+ 0 0 " + " ".join([f"(ite {d} 1 0)" for d in dup] + [f"(ite {u} 1 0)" for u in unknown] + [f"(ite {ms} 1 0)" for ms in missing]) + ")"
        n_checked = "(+ 0 0 " + " ".join(f"(ite {c} 1 0)" for c in checked) + ")"
        bad.append((conj(o.pc + pre + [f"(not (and (= {pushed - n_mismatch} {total}) (= {len(compat_evs)} {n_checked})))"]),
                    f"{key}: {pushed} errors ({n_mismatch} type mismatches), {len(compat_evs)} field types compared - not the documented count of "
                    "duplicate + unknown + missing-required fields"))
    r = {"id": "X-ctor_fields", "engine": "E2-X mirsmt",
         "statement": "type checker, model / class construction `T(f1=.., f2=..)`: one error per argument that repeats an earlier field name, one per argument "
                      "naming no declared field, one per declared field without default that no argument names, one per provided field whose value "
                      "type is incompatible (every first-time, declared argument is compared exactly once) - and nothing else; a positional argument is "
                      "reported once",
         "bound": f"TypeChecker::check_model_or_class_constructor_call: 0..={bound} arguments x 0..={bound} declared fields (with / without default), names "
                  "symbolic (equality = equality of symbolic ids, decided by z3), every answer of types_compatible; the declared-field map is a symbolic "
                  "map with distinct keys",
         "encoding": "arguments as a symbolic sequence, the field map as symbolic entries, the provided-set as the list of inserted names",
         "functions_encoded": [n_ + " (MIR)" for n_ in ex.encoded], "paths": len(outs), "compositions": dict(sorted(classes.items())[:12])}
    r["wall_s"] = round(time.time() - t0, 2)
    return finish(r, ex, mp, bad, n_ok, log_dir, native_ctor, need=len(classes) >= 4)


CTOR_PROGRAMS = [
    ("ok", "model P:\n    x: int\n    y: int = 0\n\ndef f() -> P:\n    return P(x=1)\n", "ACCEPTED", None),
    ("missing_required", "model P:\n    x: int\n    y: int\n\ndef f() -> P:\n    return P(x=1)\n", "REJECTED", "y"),
    ("unknown_field", "model P:\n    x: int\n\ndef f() -> P:\n    return P(x=1, z=2)\n", "REJECTED", "z"),
    ("duplicate_field", "model P:\n    x: int\n\ndef f() -> P:\n    return P(x=1, x=2)\n", "REJECTED", "x"),
    ("wrong_type", "model P:\n    x: int\n\ndef f() -> P:\n    return P(x=\"s\")\n", "REJECTED", None),
    ("default_given", "model P:\n    x: int\n    y: int = 0\n\ndef f() -> P:\n    return P(y=2, x=1)\n", "ACCEPTED", None),
    ("class_missing", "class C:\n    a: int\n    b: str\n\ndef f() -> C:\n    return C(b=\"s\")\n", "REJECTED", "a"),
]


def native_ctor(r, log_dir):
    broken, texts = verdicts(CTOR_PROGRAMS, log_dir, "c03ctor")
    return report(r, log_dir, "ctor", broken, texts, f"{len(CTOR_PROGRAMS)} construction programs (missing, unknown, duplicate, ill-typed, defaulted fields) are rejected / accepted as documented")


def replay(pid, line, path):
    fn = {"assign": native_assign, "try": native_try, "match": native_match, "ctor": native_ctor, "identreturn": native_ident_return}[line[2]]
    r = fn({"id": {"assign": "X-check_assign", "try": "X-check_try", "match": "X-match_exhaustive", "ctor": "X-ctor_fields",
                   "identreturn": "X-check_ident_return"}[line[2]], "statement": ""},
           os.path.join(common.WORK_DIR, pid, "replay"))
    say(r.get("native", ""))
    if r.get("status") == "violated":
        say(f"VIOLATION property={pid} replay={path}")
        return 1
    if r.get("status") == "known-finding":
        say(f"KNOWN-FINDING: property={pid} {r.get('finding')}")
    return 0


# ---- if / elif / else: every condition and every body is checked ---------------------------------------------------------------------------
def run_check_if(P, R, mp, log_dir, bound):
    import tc_props
    t0 = time.time()
    bad, n_ok, classes, encoded, exs = [], 0, {}, [], []
    for fname, ty, an_ty in (("check_if_stmt", "incan_syntax::ast::IfStmt", "IfStmt"), ("check_if_expr", "incan_syntax::ast::IfExpr", "IfExpr")):
        f = tc_props.find_fn(P, fname)
        ex = executor(P, R)
        ex.model_sequences = True
        ex.seq_bound = bound
        ex.recursion_bound = 0
        ex.summarize = list(ex.summarize) + [r"::check_expr$", r"::check_statement$", r"ensure_bool_condition$"]
        selfv = ex.sym_value("TypeChecker", "self")
        node = ex.sym_value(ty, "node")
        args = [selfv, node] + ([symex.Opaque("span")] if fname == "check_if_expr" else [])
        outs = ex.run(f, args)
        encoded += ex.encoded
        names = [x[0] for x in R.resolve(ty).variants[0][1]]
        i_cond, i_then, i_else = names.index("condition"), names.index("then_body"), names.index("else_body")
        i_elif = names.index("elif_branches") if "elif_branches" in names else None
        for o in outs:
            if o.kind != "return":
                bad.append((conj(o.pc), f"{fname}: {o.kind}: {o.info}"))
                continue
            n_ok += 1
            facts = o.state.facts
            trace = []
            for e in o.events:
                nm = e[0].split("::")[-1]
                if nm == "check_expr":
                    trace.append(("cond", e[1][1]))
                elif nm == "check_statement":
                    trace.append(("stmt", e[1][1]))
                elif nm == "enter_scope":
                    trace.append(("enter",))
                elif nm == "exit_scope":
                    trace.append(("exit",))

            def body(seqname):
                n = facts.get("len:" + seqname)
                return None if n is None else [("enter",)] + [("stmt", f"sym<{seqname}.e{j}:Spanned>") for j in range(n)] + [("exit",)]
            want = [("cond", f"sym<node.{i_cond}:Spanned>")]
            tb = body(f"node.{i_then}")
            missing = None
            if tb is None:
                missing = "the `if` body is never visited"
            else:
                want += tb
            if i_elif is not None:
                ne = facts.get(f"len:node.{i_elif}")
                if ne is None:
                    missing = missing or "the elif branches are never visited"
                else:
                    for k in range(ne):
                        want.append(("cond", f"sym<node.{i_elif}.e{k}.0:Spanned>"))
                        eb = body(f"node.{i_elif}.e{k}.1")
                        if eb is None:
                            missing = missing or f"the body of elif #{k} is never visited"
                        else:
                            want += eb
            et = facts.get(f"node.{i_else}!tag")
            if not et or et[0] != "eq":
                missing = missing or "the else branch is never examined"
            elif et[1] == 1:
                eb = body(f"node.{i_else}.Some.0")
                if eb is None:
                    missing = missing or "the else body is never visited"
                else:
                    want += eb
            key = f"{fname}: elif={facts.get(f'len:node.{i_elif}') if i_elif is not None else '-'} else={et and et[1]}"
            classes[key] = classes.get(key, 0) + 1
            if missing:
                bad.append((conj(o.pc), f"{fname}: {missing}: checked {[t[1][4:24] if len(t) > 1 else t[0] for t in trace]}"))
            elif trace != want:
                bad.append((conj(o.pc), f"{fname}: checks {[t[1][4:24] if len(t) > 1 else t[0] for t in trace]}, documented "
                                        f"{[t[1][4:24] if len(t) > 1 else t[0] for t in want]}"))
        exs.append(ex)
    r = {"id": "X-check_if", "engine": "E2-X mirsmt",
         "statement": "type checker, `if` statements and `if` expressions: EVERY condition (the `if` and each `elif`) is type-checked and must be bool, and EVERY statement of "
                      "every body (`if`, each `elif`, `else`) is checked, each body inside its own scope - so a rule broken inside an elif / else branch is reported like "
                      "anywhere else",
         "bound": f"TypeChecker::check_if_stmt / check_if_expr: bodies and elif lists of 0..={bound} elements, else present / absent; check_expr / check_statement / the scope "
                  "calls are events (what they do with a sub-term is decided by their own obligations)",
         "encoding": "the statement as a symbolic struct; bodies and the elif list as symbolic sequences",
         "functions_encoded": sorted(set(n_ + " (MIR)" for n_ in encoded)), "paths": n_ok, "compositions": dict(sorted(classes.items())[:12])}
    r["wall_s"] = round(time.time() - t0, 2)
    # the two executors have disjoint variables: decide each deviation in its own context
    r["vacuity_ok"] = n_ok > 0
    live = [(b, w) for b, w in bad if b != "false"]
    for b, w in live:
        if any(solver.check(mp.smt_lines(ex, [b]), [], "z3", 60).status == "sat" for ex in exs):
            r["deviating_path"] = w
            return native_if_rule(r, log_dir)
    if n_ok == 0:
        r.update(status="inconclusive", reason="no path explored")
        return r
    r.update(status="held", solver=f"{n_ok} paths visit every condition and body in order" + (f"; {len(live)} deviating paths infeasible" if live else " (syntactic)"))
    return r


IF_PROGRAMS = [
    ("unknown_name_in_elif_body", "def f(n: int) -> int:\n    if n > 0:\n        return 1\n    elif n < 0:\n        return nope\n    return 0\n", "REJECTED", "nope"),
    ("wrong_return_in_second_elif", "def f(n: int) -> int:\n    if n > 0:\n        return 1\n    elif n < 0:\n        return 2\n    elif n == 0:\n        return \"zero\"\n    return 0\n", "REJECTED", None),
    ("non_bool_elif_condition", "def f(n: int) -> int:\n    if n > 0:\n        return 1\n    elif n:\n        return 2\n    return 0\n", "REJECTED", None),
    ("unknown_name_in_elif_condition", "def f(n: int) -> int:\n    if n > 0:\n        return 1\n    elif nope > 0:\n        return 2\n    return 0\n", "REJECTED", "nope"),
    ("unknown_name_in_else_body", "def f(n: int) -> int:\n    if n > 0:\n        return 1\n    else:\n        return nope\n", "REJECTED", "nope"),
    ("unknown_name_in_if_body", "def f(n: int) -> int:\n    if n > 0:\n        return nope\n    return 0\n", "REJECTED", "nope"),
    ("well_typed_ladder", "def f(n: int) -> int:\n    if n > 0:\n        return 1\n    elif n < 0:\n        return 2\n    else:\n        return 3\n", "ACCEPTED", None),
    ("if_expr_unknown_in_else", "def f(c: bool) -> int:\n    x = if c:\n        1\n    else:\n        nope\n    return 0\n", "REJECTED", "nope"),
]


def native_if_rule(r, log_dir):
    broken, texts = verdicts(IF_PROGRAMS, log_dir, "c03if")
    return report(r, log_dir, "if", broken, texts, f"{len(IF_PROGRAMS)} programs with an error inside if / elif / else conditions and bodies are rejected as documented")


# ---- generic user types are nominal in their base name ---------------------------------------------------------------------------------------
def run_generic_nominal(P, R, mp, log_dir):
    import tc_props
    t0 = time.time()
    f = tc_props.find_fn(P, "types_compatible")
    ex = executor(P, R)
    ex.model_sequences = True
    ex.seq_bound = 2
    ex.recursion_bound = 1
    ex.summarize = [p for p in ex.summarize if "types_compatible" not in p and "Clone" not in p] + \
        [r"String as .*PartialEq.*>::eq$", r"^<str as .*PartialEq.*>::eq$", r"stringlike_type_id$", r"collection_type_id$", r"Iterator>::all::<", r"Iterator>::zip::<"]
    selfv = ex.sym_value("TypeChecker", "self")
    a = ex.sym_value("symbols::ResolvedType", "actual")
    b = ex.sym_value("symbols::ResolvedType", "expected")
    rvars = mp.variants(R, "ResolvedType")
    G = rvars.index("Generic")
    st0 = symex.State()
    for v in (a, b):
        st0.facts[v.tag().term] = ("eq", G)
        st0.pc.append(f"(= {v.tag().term} {G})")
    outs = ex.run(f, [selfv, a, b], state=st0)
    an, bn = a.child("Generic", 0).name, b.child("Generic", 0).name
    bad, n_ok = [], 0
    for o in outs:
        if o.kind != "return":
            bad.append((conj(o.pc), f"{o.kind}: {o.info}"))
            continue
        v = ex.deref(o.value, o.state)
        if not (isinstance(v, symex.Scalar) and v.sort == "bool"):
            bad.append((conj(o.pc), "no boolean verdict"))
            continue
        n_ok += 1
        whole = next((e[2] for e in o.events if e[0].endswith("::eq") and len(e[1]) == 2 and
                      {"actual", "expected"} == {re.sub(r"^sym<([^:>]+):.*$", r"\1", x) for x in e[1]}), None)
        if whole is not None and whole in o.pc:
            continue            # structurally equal types (`actual == expected`): trivially the same base name
        same = next((e[2] for e in o.events if (e[0].endswith("::eq") or e[0].endswith("::ne")) and len(e[1]) == 2 and
                     {an, bn} <= {re.sub(r"^sym<([^:>]+):.*$", r"\1", x) for x in e[1]}), None)
        is_ne = any(e[2] == same and e[0].endswith("::ne") for e in o.events)
        same_t = "false" if same is None else (f"(not {same})" if is_ne else same)
        # an uninterpreted question asked twice has one answer (the derived `==` on the whole types asks it first)
        groups = {}
        for e in o.events:
            if (e[0].endswith("::eq") or e[0].endswith("::ne")) and len(e[1]) == 2:
                groups.setdefault((e[0].endswith("::ne"), frozenset(e[1])), []).append(e[2])
        consistent = [f"(= {g[0]} {x})" for g in groups.values() for x in g[1:]]
        for (ne1, k1), g1 in groups.items():
            for (ne2, k2), g2 in groups.items():
                if k1 == k2 and ne1 and not ne2:
                    consistent.append(f"(= {g1[0]} (not {g2[0]}))")
        bad.append((conj(o.pc + consistent + [v.term, f"(not {same_t})"]),
                    f"Generic(n1, ..) accepted for Generic(n2, ..) on a path where n1 == n2 is {'not even asked' if same is None else 'answered false'} "
                    f"(verdict {v.term[:80]})"))
    r = {"id": "X-generic_nominal", "engine": "E2-X mirsmt",
         "statement": "user-defined generic types are nominal in their base name: a value of type A[..] is accepted where B[..] is declared only if the base names are equal "
                      "(whatever the arguments) - two different generic models / classes / enums with compatible arguments are not interchangeable",
         "bound": "TypeChecker::types_compatible with actual = Generic(n1, args1), expected = Generic(n2, args2), argument lists of 0..=2 types; name equality, "
                  "the built-in name lookups and the element-wise comparison are arbitrary (uninterpreted) answers",
         "encoding": "enum tags as bounded Int; name equality as an uninterpreted boolean", "functions_encoded": [n + " (MIR)" for n in ex.encoded],
         "paths": len(outs)}
    r["wall_s"] = round(time.time() - t0, 2)
    return finish(r, ex, mp, bad, n_ok, log_dir, native_generic)


GENERIC_PROGRAMS = [
    ("two_generic_models_return", "model Meters[T]:\n    v: T\n\nmodel Seconds[T]:\n    v: T\n\ndef f(m: Meters[int]) -> Seconds[int]:\n    return m\n", "REJECTED", None),
    ("two_generic_models_assign", "model Meters[T]:\n    v: T\n\nmodel Seconds[T]:\n    v: T\n\ndef f(m: Meters[int]) -> int:\n    s: Seconds[int] = m\n    return 0\n", "REJECTED", None),
    ("same_generic_model", "model Meters[T]:\n    v: T\n\ndef f(m: Meters[int]) -> Meters[int]:\n    return m\n", "ACCEPTED", None),
    ("list_vs_set", "def f(m: List[int]) -> Set[int]:\n    return m\n", "REJECTED", None),
    ("list_vs_list", "def f(m: List[int]) -> List[int]:\n    return m\n", "ACCEPTED", None),
]


def native_generic(r, log_dir):
    broken, texts = verdicts(GENERIC_PROGRAMS, log_dir, "c03generic")
    return report(r, log_dir, "generic", broken, texts, f"{len(GENERIC_PROGRAMS)} programs mixing generic user types are rejected / accepted as documented")


# ---- the declared error type of the enclosing function stays in force for the whole body ---------------------------------------------------
def run_error_type_frame(P, R, mp, log_dir):
    t0 = time.time()
    td = R.resolve("TypeChecker")
    names = [x[0] for x in td.variants[0][1]]
    if "current_return_error_type" not in names:
        raise Inconclusive("TypeChecker has no field current_return_error_type any more")
    k = names.index("current_return_error_type")
    path = os.path.join(common.WORK_DIR, "mir", "incan.mir")
    text = open(path, errors="replace").read()
    writers, cur = {}, None
    pat = re.compile(r"^\s*\(\(\*_\d+\)\." + str(k) + r": std::option::Option<(?:frontend::)?symbols::ResolvedType>\) = (.*);")
    for line in text.splitlines():
        m = re.match(r"^fn (.+?)\((.*)$", line)
        if m:
            # only functions whose receiver is the type checker (other structs have fields of the same type at the same index)
            cur = m.group(1) if re.match(r"^_1: &(mut )?(\w+::)*TypeChecker\b", m.group(2)) else None
            continue
        m = pat.match(line)
        if m and cur:
            writers.setdefault(cur, []).append(m.group(1))
    allowed = ("check_function", "check_method", "check_method_with_self_ty", "new")
    bad_fns = {f: w for f, w in writers.items() if not any(f.endswith(a) or f.split("::")[-1] == a for a in allowed)}
    r = {"id": "X-error_type_frame", "engine": "E2-X mirsmt",
         "statement": "the error type against which `?` is checked (TypeChecker.current_return_error_type) is written only where a function / method body is entered and left: "
                      "no expression or statement rule (closures, comprehensions, calls, ...) changes it - so every `?` of a body is checked against the enclosing "
                      "function's declared error type, wherever it stands; and the two writers set it from the declared return type before the body's statements are "
                      "checked and clear it after",
         "bound": "frame condition over the MIR of every function of the crate (a write is an assignment to that field through a TypeChecker reference) + symbolic execution "
                  "of check_function for the order set -> statements -> clear (bodies of 0..=2 statements)",
         "encoding": "MIR assignments to the field; check_function with check_statement / scope calls as events",
         "writers": sorted(writers)[:8]}
    dev = None
    if bad_fns:
        fn_, w_ = sorted(bad_fns.items())[0]
        dev = f"`{fn_}` assigns current_return_error_type = {w_[0][:60]}"
    if not any(f.endswith("check_function") for f in writers):
        dev = dev or "check_function no longer sets the declared error type"
    # order inside check_function: set (from result_err_type of the declared type) before any statement of the body is checked, cleared after
    import tc_props
    n_ok = 0
    try:
        f = tc_props.find_fn(P, "check_function")
        ex = executor(P, R)
        ex.model_sequences = True
        ex.seq_bound = 2
        ex.summarize = list(ex.summarize) + [r"::check_statement$", r"::check_expr$", r"resolve_type", r"::check_\w+$", r"HashMap::<.*>::\w+$", r"HashSet::<.*>::\w+$"]
        selfv = Adt("TypeChecker", None, [(n_, ex.sym_value(t_, f"self.{i}", td.modpath)) for i, (n_, t_) in enumerate(td.variants[0][1])])
        st0 = symex.State()
        from mir import Place
        st0.store[0] = {"_self": selfv}
        func = ex.sym_value("incan_syntax::ast::FunctionDecl", "func")
        outs = ex.run(f, [symex.Ref(0, Place("_self")), func], state=st0)
        r["functions_encoded"] = [n + " (MIR)" for n in ex.encoded]
        for o in outs:
            if o.kind != "return":
                continue
            n_ok += 1
            fin = dict(o.state.store[0]["_self"].fields)["current_return_error_type"]
            if not (isinstance(fin, Adt) and fin.variant == "None"):
                dev = dev or f"check_function leaves current_return_error_type = {mirx.show(fin, ex, o.state)[:60]} behind"
    except Exception as x:   # the order part is an extra; the frame condition above stands on its own
        r["order_part"] = f"not executable: {str(x)[:160]}"
    r["paths"] = n_ok
    r["wall_s"] = round(time.time() - t0, 2)
    r["vacuity_ok"] = bool(writers)
    if not writers:
        r.update(status="inconclusive", reason="no write to the field found in the MIR dump (pattern out of date?)")
        return r
    if dev is None:
        r.update(status="held", solver=f"{len(writers)} writer function(s), all function / method entry points; {n_ok} paths of check_function clear the field on exit")
        return r
    r["deviating_path"] = dev
    return native_error_frame(r, log_dir)


ERRTYPE_PROGRAMS = [
    ("try_after_closure", "def g() -> Result[int, int]:\n    return Ok(1)\n\ndef f() -> Result[int, str]:\n    h = (x) => x + 1\n    v = g()?\n    return Ok(v)\n", "REJECTED", None),
    ("try_after_closure_argument", "def g() -> Result[int, int]:\n    return Ok(1)\n\ndef ap(k: (int) -> int) -> int:\n    return k(1)\n\ndef f() -> Result[int, str]:\n    w = ap((x) => x + 1)\n    v = g()?\n    return Ok(v)\n", "REJECTED", None),
    ("try_before_closure", "def g() -> Result[int, int]:\n    return Ok(1)\n\ndef f() -> Result[int, str]:\n    v = g()?\n    h = (x) => x + 1\n    return Ok(v)\n", "REJECTED", None),
    ("try_same_error_after_closure", "def g() -> Result[int, str]:\n    return Ok(1)\n\ndef f() -> Result[int, str]:\n    h = (x) => x + 1\n    v = g()?\n    return Ok(v)\n", "ACCEPTED", None),
    ("try_in_second_function", "def g() -> Result[int, int]:\n    return Ok(1)\n\ndef a() -> Result[int, int]:\n    v = g()?\n    return Ok(v)\n\ndef f() -> Result[int, str]:\n    v = g()?\n    return Ok(v)\n", "REJECTED", None),
]


def native_error_frame(r, log_dir):
    broken, texts = verdicts(ERRTYPE_PROGRAMS, log_dir, "c03errtype")
    return report(r, log_dir, "errtype", broken, texts, f"{len(ERRTYPE_PROGRAMS)} programs applying `?` before / after closures and across functions are rejected / accepted as documented")


# ---- C02: an assignment the checker accepts is an assignment lowering accepts --------------------------------------------------------------
def run_accept_implies_lower(P, R, mp, log_dir):
    """Both rule bodies for `name = value` are decided separately against ONE documented rule (X-check_assign: the checker, X-lower_assign: lowering).  If
    both follow it they agree; if one deviates, the programs of the deviating class are type-checked AND generated natively: accepted-but-not-generated is the
    C02 violation."""
    import stmt_props
    t0 = time.time()
    rc = run_check_assign(P, R, mp, log_dir)
    rl = stmt_props.run_assign(P, R, mp, log_dir, 2)
    r = {"id": "X-accept_implies_lower_assign", "engine": "E2-X mirsmt",
         "statement": "`name = value`: the type checker's rule (TypeChecker::check_assignment) and lowering's rule (AstLowering, Assignment arm) decide the same way which "
                      "existing binding an assignment refers to and whether it may be re-assigned - so a program the checker accepts is never refused by code generation "
                      "with `Cannot reassign immutable variable`",
         "bound": "both rule bodies as in X-check_assign (C03) and X-lower_assign (C01): scope chains of 0..=2 scopes, every binding kind, lookups as arbitrary answers; "
                  "agreement = both follow the one documented rule (search the whole scope chain; immutable -> error; mutable -> assign; unbound -> new binding)",
         "functions_encoded": sorted(set(rc.get("functions_encoded", []) + rl.get("functions_encoded", []))),
         "paths": (rc.get("paths") or 0) + (rl.get("paths") or 0), "parts": {"checker": rc.get("status"), "lowering": rl.get("status")}}
    r["wall_s"] = round(time.time() - t0, 2)
    if rc.get("status") == "held" and rl.get("status") == "held":
        r.update(status="held", vacuity_ok=True, solver="both rule bodies follow the documented rule on every path: they agree")
        return r
    unconfirmed = [x for x in (rc, rl) if x.get("status") == "inconclusive" and "deviates" in str(x.get("reason"))]
    if any(x.get("status") == "inconclusive" for x in (rc, rl)) and len(unconfirmed) < sum(1 for x in (rc, rl) if x.get("status") == "inconclusive"):
        r.update(status="inconclusive", reason=f"checker: {rc.get('status')} ({str(rc.get('reason'))[:120]}); lowering: {rl.get('status')} ({str(rl.get('reason'))[:120]})")
        return r
    # (a rule body that deviates at the solver level but whose OWN replay programs do not show it still goes through the accepted => generated programs below)
    r["vacuity_ok"] = True
    r["deviating_path"] = str(rl.get("reason") if unconfirmed and rl in unconfirmed else (rc.get("deviating_path") or rc.get("finding") or rl.get("deviating_path") or ""))[:400]
    # native: accepted by the checker => generated
    import kani
    texts, broken = [], False
    for name, src, _exp, _m in ASSIGN_PROGRAMS:
        res, path = __import__("tc_props").native_typecheck(src, log_dir, f"c02assign_{name}")
        for prof, line in res.items():
            if not line.startswith("ACCEPTED"):
                continue
            binp = kani.build_replay(prof, True, log_dir)
            rcode, out, _, to = common.run([binp, "emitrust", path], timeout=120)
            if "RUST-END" not in out:
                broken = True
                texts.append(f"[{prof}] {name}: `incan --check` accepts, code generation fails: {out.strip()[:120]}")
    text = "; ".join(texts[:6]) or "every accepted assignment program is generated"
    r["native"] = text
    kf = [k for k in common.load_known_findings().get("findings", []) if k.get("property") == "C02" and k.get("obligation") == r["id"]]
    if broken and kf and all(any(w in t for w in kf[0].get("witness_names", [])) for t in texts):
        r.update(status="known-finding", finding=f"obligation={r['id']} {kf[0].get('what', '')[:300]} ({text[:200]})")
    elif broken:
        os.makedirs(os.path.join(common.REPLAYS_DIR, "MIRX"), exist_ok=True)
        rp = os.path.join(common.REPLAYS_DIR, "MIRX", r["id"] + ".replay")
        open(rp, "w").write(f"mirx c02 assign\n# {r['deviating_path']}\n# {text}\n")
        r.update(status="violated", replay=rp, counterexample={"path": r["deviating_path"], "native": text})
    else:
        r.update(status="inconclusive", reason=f"a rule body deviates ({r['deviating_path'][:200]}) but every accepted program is generated")
    return r


# ---- C02: every statement kind the grammar has can be lowered at all ---------------------------------------------------------------------------
LOWER_TOTAL_PROGRAMS = {
    "TupleAssign": ("tuple_assign_swap", "def f(xs: List[int]) -> int:\n    xs[0], xs[1] = (xs[1], xs[0])\n    return xs[0]\n"),
    "ChainedAssignment": ("chained_assignment", "def f() -> int:\n    a = b = 1\n    return a\n"),
    "TupleUnpack": ("tuple_unpack", "def f(t: (int, int)) -> int:\n    a, b = t\n    return a\n"),
    "CompoundAssignment": ("compound_assignment", "def f(n: int) -> int:\n    mut k = n\n    k += 1\n    return k\n"),
    "IndexAssignment": ("index_assignment", "def f(xs: List[int]) -> int:\n    xs[0] = 1\n    return xs[0]\n"),
    "FieldAssignment": ("field_assignment", "model M:\n    x: int\n\ndef f(mut m: M) -> int:\n    m.x = 1\n    return m.x\n"),
    "For": ("for_loop", "def f(xs: List[int]) -> int:\n    for x in xs:\n        pass\n    return 0\n"),
    "While": ("while_loop", "def f(n: int) -> int:\n    while n > 0:\n        break\n    return 0\n"),
}


def run_lower_total(P, R, mp, log_dir):
    import stmt_props
    import tc_props
    t0 = time.time()
    f = tc_props.find_fn(P, "lower_stmt") if any(n.endswith("::lower_stmt") for n in P.fns) else tc_props.find_fn(P, "lower_statement")
    svars = mp.variants(R, "incan_syntax::ast::Statement")
    refused, per_arm, encoded, problems = [], {}, set(), []
    for k, arm in enumerate(svars):
        ta = time.time()
        ex = mirx.make_executor(P, R, max_paths=400000)
        ex.opaque_calls = mirx.slice_opaque
        ex.model_sequences = True
        ex.seq_bound = 1
        ex.recursion_bound = 0
        ex.tolerate_unsupported = True
        ex.max_steps = 4000
        ex.summarize = tc_props.SUMMARIZE + [r"::lower_\w+$", r"HashMap::<.*>::\w+(::<.*>)?$", r"HashSet::<.*>::\w+(::<.*>)?$", r"IrSpan as .*Default>::default$",
                                             r"fmt::rt::Argument", r"Arguments::<.*>::new", r"must_use", r"::lookup_var$", r"Clone>::clone$"]
        selfv = ex.sym_value("AstLowering", "self")
        stmt = ex.sym_value("incan_syntax::ast::Statement", "stmt")
        st0 = symex.State()
        st0.facts[stmt.tag().term] = ("eq", k)
        st0.pc.append(f"(= {stmt.tag().term} {k})")
        if arm == "ChainedAssignment":
            ex.seq_bound = 2
            st0.facts["len:stmt.ChainedAssignment.0.1"] = 2        # `a = b = v`: two targets (the loop body is the same for each further one)
            ex.loop_bound = 4
        try:
            entry = stmt_props.arm_entry(f, arm)
        except Inconclusive:
            entry = "bb0"
        ex.call_stack = [f.name]
        try:
            outs = ex._run(f, [selfv, stmt], {}, 0, st0, entry=entry, preset={})
        except Exception as x:      # an arm the model cannot execute is not judged here (its own obligations cover it or it is outside)
            problems.append(f"{arm}: {str(x)[:80]}")
            continue
        finally:
            ex.call_stack = []
        encoded |= set(ex.encoded)
        oks = errs = 0
        own_errs = []
        for o in outs:
            if o.kind != "return":
                continue
            val = mirx.show(o.value, ex, o.state)
            if val.startswith("Result::Ok"):
                oks += 1
            elif val.startswith("Result::Err"):
                errs += 1
                if "LoweringError(" in val or "message:" in val:
                    own_errs.append(val[:140])
        per_arm[arm] = {"ok_paths": oks, "err_paths": errs, "s": round(time.time() - ta, 1)}
        if oks == 0 and errs > 0:
            refused.append((arm, own_errs[0] if own_errs else "every path returns an error"))
    # ---- the same question for every expression kind
    fe = tc_props.find_fn(P, "lower_expr")
    for k, arm in enumerate(mp.variants(R, "incan_syntax::ast::Expr")):
        ta = time.time()
        ex = mirx.make_executor(P, R, max_paths=200000)
        ex.opaque_calls = mirx.slice_opaque
        ex.model_sequences = True
        ex.seq_bound = 1
        ex.recursion_bound = 0
        ex.tolerate_unsupported = True
        ex.max_steps = 4000
        ex.summarize = tc_props.SUMMARIZE + [r"::lower_\w+$", r"HashMap::<.*>::\w+(::<.*>)?$", r"HashSet::<.*>::\w+(::<.*>)?$", r"IrSpan as .*Default>::default$",
                                             r"fmt::rt::Argument", r"Arguments::<.*>::new", r"must_use", r"::lookup_var$", r"Clone>::clone$", r"::select_\w+$", r"from_str$", r"PartialEq"]
        selfv = ex.sym_value("AstLowering", "self")
        e = ex.sym_value("incan_syntax::ast::Expr", "e")
        st0 = symex.State()
        st0.facts[e.tag().term] = ("eq", k)
        st0.pc.append(f"(= {e.tag().term} {k})")
        try:
            outs = ex.run(fe, [selfv, e], state=st0)
        except Exception as x:
            problems.append(f"Expr::{arm}: {str(x)[:80]}")
            continue
        encoded |= set(ex.encoded)
        vals = [mirx.show(o.value, ex, o.state) for o in outs if o.kind == "return"]
        oks, errs = sum(1 for v in vals if v.startswith("Result::Ok")), [v for v in vals if v.startswith("Result::Err")]
        per_arm["Expr::" + arm] = {"ok_paths": oks, "err_paths": len(errs), "s": round(time.time() - ta, 1)}
        if oks == 0 and errs:
            refused.append(("Expr::" + arm, errs[0][:140]))
    r = {"id": "X-lower_total", "engine": "E2-X mirsmt",
         "statement": "every statement and expression kind of the grammar has a lowering: for each variant of ast::Statement and ast::Expr some path of AstLowering's arm "
                      "returns Ok when the lowering of its parts succeeds - a kind that is refused unconditionally is a program the checker accepts and code generation cannot build",
         "bound": "each arm of the statement lowering with the lowering of sub-terms, scope and registry lookups as arbitrary (succeeding or failing) answers; lists of 0..=1",
         "functions_encoded": sorted(x + " (MIR)" for x in encoded), "paths": sum(v["ok_paths"] + v["err_paths"] for v in per_arm.values()),
         "compositions": per_arm, "not_executed": problems[:6]}
    r["wall_s"] = round(time.time() - t0, 2)
    if not per_arm:
        r.update(status="inconclusive", reason=f"no arm executed: {problems[:2]}")
        return r
    r["vacuity_ok"] = True
    if not refused:
        r.update(status="held", solver=f"{len(per_arm)} statement kinds, each with a successful lowering path")
        return r
    r["deviating_path"] = "; ".join(f"Statement::{a}: {w}" for a, w in refused)[:500]
    import kani
    texts, broken = [], False
    for arm, _w in refused:
        if arm not in LOWER_TOTAL_PROGRAMS:
            continue
        name, src = LOWER_TOTAL_PROGRAMS[arm]
        res, path = tc_props.native_typecheck(src, log_dir, f"c02total_{name}")
        for prof, line in res.items():
            if not line.startswith("ACCEPTED"):
                continue
            binp = kani.build_replay(prof, True, log_dir)
            rcode, out, _, to = common.run([binp, "emitrust", path], timeout=120)
            if "RUST-END" not in out:
                broken = True
                texts.append(f"[{prof}] {name}: `incan --check` accepts, code generation fails: {out.strip()[:110]}")
    text = "; ".join(texts[:6]) or "the programs of the refused kinds are either rejected by the checker or generated"
    r["native"] = text
    kf = [k_ for k_ in common.load_known_findings().get("findings", []) if k_.get("property") == "C02" and k_.get("obligation") == r["id"]]
    if broken and kf and all(any(w in t for w in kf[0].get("witness_names", [])) for t in texts):
        r.update(status="known-finding", finding=f"obligation={r['id']} {kf[0].get('what', '')[:300]} ({text[:160]})")
    elif broken:
        os.makedirs(os.path.join(common.REPLAYS_DIR, "MIRX"), exist_ok=True)
        rp = os.path.join(common.REPLAYS_DIR, "MIRX", r["id"] + ".replay")
        open(rp, "w").write(f"mirx c02 lower_total\n# {r['deviating_path']}\n# {text}\n")
        r.update(status="violated", replay=rp, counterexample={"path": r["deviating_path"], "native": text})
    else:
        r.update(status="inconclusive", reason=f"a statement kind is refused on every path ({r['deviating_path'][:200]}) but no accepted program shows it")
    return r


# ---- every sub-expression and statement of a node is type-checked -------------------------------------------------------------------------------
VISIT_PROGRAMS = [
    ("unknown_in_match_guard", "def f(n: int) -> int:\n    match n:\n        case x if nope > 0:\n            return 1\n        case _:\n            return 0\n", "REJECTED", "nope"),
    ("non_bool_match_guard", "def f(n: int) -> int:\n    match n:\n        case x if \"s\":\n            return 1\n        case _:\n            return 0\n", "REJECTED", None),
    ("guard_uses_binding", "def f(n: int) -> int:\n    match n:\n        case x if x > 0:\n            return 1\n        case _:\n            return 0\n", "ACCEPTED", None),
    ("unknown_in_while_condition", "def f(n: int) -> int:\n    while nope > 0:\n        break\n    return 0\n", "REJECTED", "nope"),
    ("unknown_in_for_iterable", "def f(n: int) -> int:\n    for x in nope:\n        pass\n    return 0\n", "REJECTED", "nope"),
    ("unknown_in_slice_bound", "def f(xs: List[int]) -> List[int]:\n    return xs[nope:]\n", "REJECTED", "nope"),
    ("unknown_in_dict_value", "def f(n: int) -> int:\n    d = {1: nope}\n    return 0\n", "REJECTED", "nope"),
    ("unknown_in_fstring", "def f(n: int) -> str:\n    return f\"x{nope}\"\n", "REJECTED", "nope"),
    ("unknown_in_match_arm_block", "def f(n: int) -> int:\n    match n:\n        0 =>\n            return nope\n        _ =>\n            return 0\n", "REJECTED", "nope"),
    ("unknown_in_list_comp_filter", "def f(xs: List[int]) -> List[int]:\n    return [x for x in xs if nope > 0]\n", "REJECTED", "nope"),
    ("unknown_in_keyword_argument", "def g(a: int) -> int:\n    return a\n\ndef f(n: int) -> int:\n    return g(a=nope)\n", "REJECTED", "nope"),
    ("unknown_in_index_assignment_index", "def f(xs: List[int]) -> int:\n    xs[nope] = 1\n    return 0\n", "REJECTED", "nope"),
]


def run_check_visits_all(P, R, mp, log_dir, bound):
    import scan_props as sp
    import tc_props
    t0 = time.time()
    fam_re = r"::(check_expr|check_statement)$"
    i_err = [x[0] for x in R.resolve("TypeChecker").variants[0][1]].index("errors")
    devs, n_paths, arms_done, skipped, encoded = [], 0, 0, [], set()
    # arms whose symbolic execution explodes (exhaustiveness + constructor matching inside) are executed with tighter list bounds
    for fname, ty in (("check_statement", sp.AST + "Statement"), ("check_expr", sp.AST + "Expr")):
        f = tc_props.find_fn(P, fname)
        td = R.resolve(ty)
        for k, (vname, _) in enumerate(td.variants):
            ex = executor(P, R)
            ex.model_sequences = True
            ex.seq_bound = bound
            ex.recursion_bound = 0
            ex.max_steps = 6000
            ex.max_paths = 60000
            ex.summarize = list(ex.summarize) + [fam_re, r"HashMap::<.*>::\w+(::<.*>)?$", r"HashSet::<.*>::\w+(::<.*>)?$", r"ensure_bool_condition$", r"Vec::<.*>::push$",
                                                 r"check_match_exhaustiveness$", r"check_pattern$"]
            selfv = ex.sym_value("TypeChecker", "self")
            node = ex.sym_value(f"incan_syntax::ast::Spanned<{ty}>", "s")
            e = node.child(None, 0)
            st0 = symex.State()
            st0.facts[e.tag().term] = ("eq", k)
            st0.pc.append(f"(= {e.tag().term} {k})")
            try:
                outs = ex.run(f, [selfv, node], state=st0)
            except Exception as x:
                skipped.append(f"{fname}::{vname}: {str(x)[:60]}")
                continue
            encoded |= set(ex.encoded)
            rets = [o for o in outs if o.kind == "return"]
            if not rets:
                skipped.append(f"{fname}::{vname}: no executable path")
                continue
            arms_done += 1
            for o in rets:
                n_paths += 1
                evs = o.state.events
                if any((ev[0].endswith("Vec::push") and ev[1] and f"sym<self.{i_err}:" in ev[1][0]) or
                       re.search(r"errors::\w+$|mismatch|unknown_symbol|mutation_without_mut", ev[0]) for ev in evs):
                    continue        # a diagnostic is already reported on this path: the program is rejected whatever the rest contains
                fam = [ev for ev in evs if re.search(fam_re, ev[0]) or ev[0].split("::")[-1] in ("check_expr", "check_statement")]
                asked = " ".join(" ".join(ev[1]) for ev in fam)
                out, missing = [], []
                sp.leaves(R, ty, e.name, None, o.state.facts, out, missing, 0, asked)
                for kind, nm in out:
                    par = nm[:-2] if nm.endswith(".0") else nm
                    hit = re.search(r"sym<" + re.escape(nm) + r":", asked) or re.search(r"sym<" + re.escape(par) + r":", asked)
                    if not hit and kind == "body":
                        ln = o.state.facts.get("len:" + nm)
                        hit = ln is not None and all(re.search(r"sym<" + re.escape(f"{nm}.e{j}") + r":", asked) for j in range(ln))
                    if not hit:
                        devs.append(f"{fname}, {vname}: the {'statements' if kind == 'body' else 'sub-expression'} `{nm}` "
                                    f"{'are' if kind == 'body' else 'is'} not type-checked on a path that reports no error")
                for nm in missing:
                    devs.append(f"{fname}, {vname}: `{nm}` (which can contain code) is never examined on a path that reports no error")
    uniq = list(dict.fromkeys(devs))
    r = {"id": "X-check_visits_all", "engine": "E2-X mirsmt",
         "statement": "type checker, traversal: in every arm of check_statement and check_expr, on every path that reports no error, EVERY sub-expression and EVERY statement of "
                      "the node has been handed to check_expr / check_statement - so a rule broken inside any part of any construct (guards, conditions, slice bounds, "
                      "keyword arguments, comprehension filters ...) is seen by the rule that reports it",
         "bound": f"every arm that the model executes (lists of 0..={bound}); the rule helpers run for real with the symbol table, compatibility test, exhaustiveness and pattern "
                  "checks as uninterpreted calls; arms that are not executable are listed in `not_executed` and are NOT claimed",
         "functions_encoded": sorted(x + " (MIR)" for x in encoded), "paths": n_paths, "arms": arms_done, "not_executed": skipped[:12]}
    r["wall_s"] = round(time.time() - t0, 2)
    if n_paths == 0:
        r.update(status="inconclusive", reason=f"no arm executed: {skipped[:2]}")
        return r
    r["vacuity_ok"] = True
    if not uniq:
        r.update(status="held", solver=f"{n_paths} error-free paths over {arms_done} arms: every code-carrying child is type-checked")
        return r
    r["deviating_path"] = "; ".join(uniq[:4])[:600]
    broken, texts = verdicts(VISIT_PROGRAMS, log_dir, "c03visit")
    return report(r, log_dir, "visit", broken, texts, f"{len(VISIT_PROGRAMS)} programs with an unknown name inside a guard / condition / bound / argument are rejected as documented")


# ---- C01: lowering looks at every part of a node (nothing the programmer wrote is dropped) ----------------------------------------------------------
def run_lower_visits_all(P, R, mp, log_dir):
    import scan_props as sp
    import tc_props
    t0 = time.time()
    devs, n_paths, arms_done, skipped, encoded = [], 0, 0, [], set()
    IDENT = mp.variants(R, "incan_syntax::ast::Expr").index("Ident")
    for fname, ty in (("lower_expr", sp.AST + "Expr"), ("lower_statement", sp.AST + "Statement")):
        try:
            f = tc_props.find_fn(P, fname)
        except Inconclusive:
            f = tc_props.find_fn(P, "lower_stmt")
        td = R.resolve(ty)
        for k, (vname, _) in enumerate(td.variants):
            ex = mirx.make_executor(P, R, max_paths=200000)
            ex.opaque_calls = mirx.slice_opaque
            ex.model_sequences = True
            ex.seq_bound = 1
            ex.recursion_bound = 0
            ex.tolerate_unsupported = True
            ex.max_steps = 4000
            ex.summarize = tc_props.SUMMARIZE + [r"::lower_\w+$", r"HashMap::<.*>::\w+(::<.*>)?$", r"HashSet::<.*>::\w+(::<.*>)?$", r"IrSpan as .*Default>::default$",
                                                 r"fmt::rt::Argument", r"Arguments::<.*>::new", r"must_use", r"::lookup_var$", r"Clone>::clone$", r"::select_\w+$", r"from_str$", r"PartialEq"]
            selfv = ex.sym_value("AstLowering", "self")
            e = ex.sym_value(ty, "e")
            st0 = symex.State()
            st0.facts[e.tag().term] = ("eq", k)
            st0.pc.append(f"(= {e.tag().term} {k})")
            if vname == "ChainedAssignment":
                ex.seq_bound = 2
                st0.facts["len:e.ChainedAssignment.0.1"] = 2
                ex.loop_bound = 4
            try:
                outs = ex.run(f, [selfv, e], state=st0)
            except Exception as x:
                skipped.append(f"{fname}::{vname}: {str(x)[:60]}")
                continue
            encoded |= set(ex.encoded)
            oks = [o for o in outs if o.kind == "return" and mirx.show(o.value, ex, o.state).startswith("Result::Ok")]
            if not oks:
                skipped.append(f"{fname}::{vname}: no successful path")
                continue
            arms_done += 1
            for o in oks:
                n_paths += 1
                fam = [ev for ev in o.state.events if re.search(r"lower_\w+$", ev[0])]
                asked = " ".join(" ".join(ev[1]) for ev in fam)
                out, missing = [], []
                sp.leaves(R, ty, "e", None, o.state.facts, out, missing, 0, asked)
                for kind, nm in out:
                    par = nm[:-2] if nm.endswith(".0") else nm
                    hit = re.search(r"sym<" + re.escape(nm) + r":", asked) or re.search(r"sym<" + re.escape(par) + r":", asked)
                    if not hit and kind == "body":
                        ln = o.state.facts.get("len:" + nm)
                        hit = ln is not None and all(re.search(r"sym<" + re.escape(f"{nm}.e{j}") + r"(\.0)?:", asked) for j in range(ln))
                    if not hit and vname == "Call" and nm == "e.Call.0.0" and o.state.facts.get("e.Call.0.0!tag") == ("eq", IDENT):
                        hit = True      # a callee that is a plain name is used by name (function / constructor / builtin), not evaluated
                    if not hit:
                        devs.append(f"{fname}, {vname}: the {'statements' if kind == 'body' else 'sub-expression'} `{nm}` "
                                    f"{'are' if kind == 'body' else 'is'} dropped on a successful path (never lowered)")
                for nm in missing:
                    devs.append(f"{fname}, {vname}: `{nm}` (which can contain code) is never examined on a successful path")
    uniq = list(dict.fromkeys(devs))
    r = {"id": "X-lower_visits_all", "engine": "E2-X mirsmt",
         "statement": "lowering, traversal: in every arm of AstLowering::lower_expr and lower_statement, on every successful path, EVERY sub-expression and EVERY statement of "
                      "the node has been handed to a lowering function - nothing the programmer wrote (and no side effect it has) is silently dropped from the generated program",
         "bound": "every arm with a successful path (lists of 0..=1; 2 targets for chained assignment); the lowering of parts, scope and registry lookups are uninterpreted answers; "
                  "a callee that is a plain name is exempt (used by name)",
         "functions_encoded": sorted(x + " (MIR)" for x in encoded), "paths": n_paths, "arms": arms_done, "not_executed": skipped[:8]}
    r["wall_s"] = round(time.time() - t0, 2)
    if n_paths == 0:
        r.update(status="inconclusive", reason=f"no arm executed: {skipped[:2]}")
        return r
    r["vacuity_ok"] = True
    if not uniq:
        r.update(status="held", solver=f"{n_paths} successful paths over {arms_done} arms: every code-carrying child is lowered")
        return r
    r["deviating_path"] = "; ".join(uniq[:4])[:600]
    # native: a call with a visible side effect at the suspicious positions must survive into the emitted Rust
    import kani
    progs = [("yield_operand", "def g() -> int:\n    println(\"side\")\n    return 1\n\ndef f() -> None:\n    yield g()\n"),
             ("chained_value", "def g() -> int:\n    println(\"side\")\n    return 1\n\ndef f() -> int:\n    a = b = g()\n    return a\n"),
             ("slice_bound", "def g() -> int:\n    println(\"side\")\n    return 1\n\ndef f(xs: List[int]) -> List[int]:\n    return xs[g():]\n"),
             ("dict_value", "def g() -> int:\n    println(\"side\")\n    return 1\n\ndef f() -> int:\n    d = {1: g()}\n    return 0\n"),
             ("match_guard", "def g() -> bool:\n    println(\"side\")\n    return true\n\ndef f(n: int) -> int:\n    match n:\n        case x if g():\n            return 1\n        case _:\n            return 0\n"),
             ("fstring_part", "def g() -> int:\n    println(\"side\")\n    return 1\n\ndef f() -> str:\n    return f\"v{g()}\"\n")]
    texts, broken = [], False
    os.makedirs(log_dir, exist_ok=True)
    for prof in ("dev", "release"):
        binp = kani.build_replay(prof, True, log_dir)
        for name, src in progs:
            path = os.path.join(log_dir, f"lowervisit_{name}.incn")
            open(path, "w").write(src)
            rc, out, _, to = common.run([binp, "emitrust", path], timeout=120)
            body = re.search(r"fn f\(.*?\n\}", out, re.S)
            if "RUST-END" in out and body and "g(" not in body.group(0):
                broken = True
                flat = re.sub(r"\s+", " ", body.group(0))[:90]
                texts.append(f"[{prof}] {name}: the call g() is in the source of f and not in the generated Rust: {flat}")
    text = "; ".join(texts[:4]) or "the call survives into the generated Rust at all six positions"
    r["native"] = text
    if broken:
        os.makedirs(os.path.join(common.REPLAYS_DIR, "MIRX"), exist_ok=True)
        rp = os.path.join(common.REPLAYS_DIR, "MIRX", r["id"] + ".replay")
        open(rp, "w").write(f"mirx c01 lower_visits\n# {r['deviating_path']}\n# {text}\n")
        r.update(status="violated", replay=rp, counterexample={"path": r["deviating_path"], "native": text})
    else:
        r.update(status="inconclusive", reason=f"a part is dropped at the solver level ({r['deviating_path'][:240]}) but the call survives in every replay program")
    return r
