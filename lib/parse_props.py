"""E2-X slices of the expression parser (incan_syntax MIR): the token stream is abstracted to the parser's own queries
(`check` / `match_token` / `expect` with the token kind as argument, results arbitrary booleans) and its sub-parsers to
arbitrary results; each feasible path is a *protocol trace* (which tokens were asked for, which matched, which
sub-parsers ran) plus the AST it builds.  The obligations say that the AST is the one the documented grammar assigns to
that trace: slice bounds in their positions, operators mapped to their AST operator, left/right associativity, and the
precedence ladder (which sub-parser each level calls)."""
import os
import re
import time

import common
from common import Inconclusive, say
import mir
import mirx
import solver
import symex
from symex import Adt, Sym, conj, disj, neg

_LOADED = {}


def load():
    if "P" in _LOADED:
        return _LOADED["P"], _LOADED["R"]
    import dump
    import rtypes
    try:
        text, _, _ = dump.dump_mir("incan_syntax", repo=common.REPO)
        ctext, _, _ = dump.dump_mir("incan_core", repo=common.REPO)
    except dump.DumpError as e:
        raise Inconclusive(str(e))
    fns = mir.parse_mir(text)
    core = mir.parse_mir(ctext)
    P = symex.Program()
    P.add(fns, common.REPO)
    P.add({"incan_core::" + k: v for k, v in core.items()}, common.REPO)
    R = rtypes.Registry(common.REPO)
    _LOADED["P"], _LOADED["R"] = P, R
    return P, R


def build(pid, tier, log_dir):
    import mirx_props as mp
    obs = []
    if pid in ("C05", "C01"):
        obs.append(mp.XOb("X-parse_slice", "", "", lambda: run_parse_slice(log_dir)))
    if pid == "C01":
        obs.append(mp.XOb("X-parse_operators", "", "", lambda: run_parse_levels(log_dir)))
    if pid == "C11":
        obs.append(mp.XOb("X-parser_cursor", "", "", lambda: run_cursor(log_dir)))
    return obs


# ---- the token cursor (C11): one inductive step from an arbitrary valid state ---------------------------------------------------
CURSOR_FNS = {
    # name: precondition on (pos, current token is Eof) beyond the representation invariant
    "peek": None, "peek_next": None, "is_at_end": None, "current_span": None, "check": None, "check_keyword": None, "check_punct": None,
    "check_op": None, "advance": "consumed_or_not_eof", "match_token": "consumed_or_not_eof", "match_keyword": None, "match_punct": None,
    "match_op": None, "expect": "consumed_or_not_eof", "expect_keyword": None, "expect_punct": None, "expect_op": None,
    "skip_newlines": None, "skip_dedents": None, "synchronize": "consumed_or_not_eof",
}


def run_cursor(log_dir):
    """Representation invariant of the parser's cursor: the buffer is non-empty, ends with Eof, and pos is inside it.
    From EVERY state satisfying it (buffer of any length, any position, arbitrary tokens) each helper returns without an
    out-of-bounds index or an arithmetic overflow and leaves the invariant intact."""
    import mirx_props as mp
    t0 = time.time()
    P, R = load()
    tkinds = mp.variants(R, "TokenKind")
    EOF = tkinds.index("Eof")
    pdef = R.resolve("Parser")
    pnames = [x[0] for x in pdef.variants[0][1]]
    tnames = [x[0] for x in R.resolve("Token").variants[0][1]]
    results, encoded, paths, n_ret = [], [], 0, 0
    per_fn = {}
    worst = None
    for name, pre in CURSOR_FNS.items():
        try:
            f = parser_fn(P, name)
        except Inconclusive:
            continue
        ex = mirx.make_executor(P, R, max_paths=200000)
        ex.opaque_calls = mirx.slice_opaque
        ex.recursion_bound = 3
        ex.loop_bound = 3             # loops of skip_newlines / synchronize: 3 iterations, then the path is cut (stated)
        ex.tolerate_unsupported = True
        ex.summarize = [r"ToString>::to_string$", r"CompileError::\w+$", r"fmt::format", r"^format$", r"fmt::rt::Argument", r"Arguments::<.*>::new",
                        r"must_use", r"PartialEq>::eq$", r"mem::discriminant"]
        e = ex.enc
        tokens = ex.sym_value("&[Token]", "tokens")
        pos = e.int_var("pos")
        length = e.int_var("buflen")
        ex.slice_lens = {("len", tokens.name): length}
        e.side += [f"(>= {pos.term} 0)", f"(>= {length.term} 1)", f"(< {pos.term} {length.term})", f"(<= {length.term} {e.int_const((1 << 62))})"]

        def elem_axiom(seq, idx_term, elem, ex=ex, e=e, length=length):
            kind = elem.child(None, tnames.index("kind"))
            e.side.append(f"(=> (= {idx_term} (- {length.term} 1)) (= {kind.tag().term} {EOF}))")
        ex.elem_axiom = elem_axiom
        fields = []
        for fn_ in pnames:
            fields.append((fn_, tokens if fn_ == "tokens" else pos if fn_ == "pos" else symex.Opaque(fn_)))
        st0 = symex.State()
        st0.store[0] = {"_self": Adt("Parser", None, fields)}
        selfref = symex.Ref(0, mir.Place("_self", ()))
        args = [selfref] + [ex.sym_value(t, f"p{k}") for k, (_, t) in enumerate(f.params[1:])]
        cur = mirx.seq_elem_at(ex, tokens, pos.term)
        cur_kind = cur.child(None, tnames.index("kind"))
        pre_f = "true"
        if pre == "consumed_or_not_eof":
            pre_f = f"(or (>= {pos.term} 1) (not (= {cur_kind.tag().term} {EOF})))"
        ex.call_stack = [f.name]
        try:
            outs = ex._run(f, args, {}, 0, st0)
        finally:
            ex.call_stack = []
        encoded += ex.encoded
        paths += len(outs)
        lbad = []
        for o in outs:
            if o.kind == "unsupported":
                lbad.append((conj(o.pc + [pre_f]), f"{name}: unsupported MIR: {o.info}"))
                continue
            if o.kind != "return":
                lbad.append((conj(o.pc + [pre_f]), f"{name}: {o.info}"))
                continue
            n_ret += 1
            per_fn[name] = per_fn.get(name, 0) + 1
            final = o.state.store.get(0, {}).get("_self")
            fpos = None
            if isinstance(final, Adt):
                for fl in final.fields:
                    if isinstance(fl, tuple) and fl[0] == "pos":
                        fpos = ex.deref(fl[1], o.state)
            if fpos is None or not isinstance(fpos, symex.Scalar):
                lbad.append((conj(o.pc + [pre_f]), f"{name}: the cursor position after the call is not an integer value"))
                continue
            inv_after = f"(and (>= {fpos.term} {pos.term}) (< {fpos.term} {length.term}))"
            lbad.append((conj(o.pc + [pre_f, neg(inv_after)]), f"{name}: the cursor leaves the buffer or moves backwards (pos' = {fpos.term})"))
        results.append((name, ex, lbad, pre_f, outs))
    r = {"id": "X-parser_cursor", "engine": "E2-X mirsmt",
         "statement": "token cursor: from every parser state with a non-empty buffer that ends in Eof and pos inside it, each cursor helper returns "
                      "without an out-of-bounds index or arithmetic overflow, never moves the cursor backwards and leaves pos inside the buffer "
                      "(one inductive step: histories of any length follow by induction)",
         "bound": f"Parser::{', '.join(per_fn)}: buffers of ANY length up to 2^62 tokens, any position, arbitrary token kinds; precondition of "
                  "advance / match_token / expect / synchronize (from their call sites): a token has been consumed already or the current "
                  "token is not Eof; loops of skip_newlines / skip_dedents / synchronize explored for 3 iterations; which call sites establish "
                  "the precondition is NOT part of this obligation",
         "encoding": "buffer length and position as integers, tokens as symbolic ADTs (the one at index len-1 is Eof), bounds checks and "
                     "overflow checks of the MIR as assertions", "functions_encoded": sorted(set(n + " (MIR)" for n in encoded)), "paths": paths,
         "compositions": per_fn}
    if n_ret == 0 or len(per_fn) < 12:
        r.update(status="inconclusive", reason=f"only {sorted(per_fn)} could be executed", wall_s=round(time.time() - t0, 2))
        return r
    # vacuity: the invariant + precondition is satisfiable and some path returns
    queries = 0
    for name, ex, lbad, pre_f, outs in results:
        vac = solver.check(mp.smt_lines(ex, [pre_f, disj([conj(o.pc) for o in outs if o.kind == "return"])]), [], "z3", 60)
        queries += 1
        if vac.status != "sat":
            r.update(status="inconclusive", reason=f"{name}: vacuity twin is {vac.status}", wall_s=round(time.time() - t0, 2))
            return r
        live = [(b, w) for b, w in lbad if b != "false"]
        if not live:
            continue
        # one query for the disjunction of all deviations of this helper; only a sat answer is taken apart
        allq = disj([b for b, _ in live])
        res = solver.check(mp.smt_lines(ex, [allq]), [], "z3", 120)
        queries += 1
        if res.status == "unsat":
            res2 = solver.check(mp.smt_lines(ex, [allq]), [], "cvc5", 120)
            queries += 1
            if res2.status != "sat":
                continue
        elif res.status != "sat":
            r.update(status="inconclusive", reason=f"{name}: solver says {res.status}", wall_s=round(time.time() - t0, 2))
            return r
        for b, w in live:
            res = solver.check(mp.smt_lines(ex, [b]), mp.tag_names(ex) + ["pos", "buflen"], "z3", 60)
            queries += 1
            if res.status == "unsat":
                res2 = solver.check(mp.smt_lines(ex, [b]), mp.tag_names(ex) + ["pos", "buflen"], "cvc5", 60)
                queries += 1
                if res2.status == "sat":
                    res = res2
                else:
                    continue
            if res.status != "sat":
                r.update(status="inconclusive", reason=f"{w}: solver says {res.status}", wall_s=round(time.time() - t0, 2))
                return r
            worst = (name, w, res.model)
            break
        if worst:
            break
    r["vacuity_ok"] = True
    r["queries"] = queries
    r["wall_s"] = round(time.time() - t0, 2)
    if worst is None:
        r.update(status="held", solver=f"{queries} queries over {paths} paths (z3, cvc5 cross-check, one disjunctive query per helper): no state satisfying the invariant makes a helper panic or break it")
        return r
    return native_cursor(r, worst, log_dir)


CURSOR_INPUTS = ["", "\n", "def", "def f(", "x = ", "x = (1 +", "@", "class A:\n  def", "if x:\n    y\n  z", "f\"{\"", "x[1:", "import", "from a import",
                 "match x:\n  case", "def f(a, b=", "x = [1, 2", "x = {1:", "x.", "x.0.", "lambda", "not", "-", "a if b else", "async def", ")", "]", "}", ":", "x = 1 +\n",
                 "model M:\n  x:", "enum E:\n  A(", "trait T:\n  def f(self", "type X =", "const C: int =", "for i in", "while", "return", "pass\n\n\n", "\t", "  x"]


def native_cursor(r, worst, log_dir):
    """Replay: a battery of truncated programs (each ends where a helper must look at / step over the end of the buffer) through the
    real lexer + parser; a panic reproduces the violation."""
    import kani
    name, why, model = worst
    os.makedirs(log_dir, exist_ok=True)
    texts, broken = [], False
    for prof in ("dev", "release"):
        binp = kani.build_replay(prof, True, log_dir)
        for k, src in enumerate(CURSOR_INPUTS):
            path = os.path.join(log_dir, f"cursor_replay_{k}.incn")
            with open(path, "w") as fh:
                fh.write(src)
            rc, out, _, to = common.run([binp, "astdump", path], timeout=60)
            if to or rc not in (0, 1) or "panicked" in out:
                broken = True
                texts.append(f"[{prof}] parsing {src!r} panics / aborts: {out.strip()[-200:]}")
                break
    text = "; ".join(texts) or f"{len(CURSOR_INPUTS)} truncated programs parse (or are rejected) without a panic"
    r["native"] = text
    pos_v = model.get("pos") if isinstance(model, dict) else None
    len_v = model.get("buflen") if isinstance(model, dict) else None
    cex = {"helper": name, "state": f"pos={pos_v}, buffer length={len_v}", "path": why[:300], "native": text}
    if broken:
        os.makedirs(os.path.join(common.REPLAYS_DIR, "MIRX"), exist_ok=True)
        rp = os.path.join(common.REPLAYS_DIR, "MIRX", r["id"] + ".replay")
        with open(rp, "w") as fh:
            fh.write(f"mirx cursor\n# {r['statement']}\n# solver: {why[:300]} at pos={pos_v} len={len_v}\n# native: {text}\n")
        r.update(status="violated", replay=rp, counterexample=cex)
    else:
        r.update(status="inconclusive", reason=f"a state satisfying the invariant breaks it ({why[:200]}; pos={pos_v}, len={len_v}) but no truncated "
                 f"program of the replay battery makes the parser panic", counterexample=cex)
    return r


def replay_cursor(pid, line, path):
    r = native_cursor({"id": "replay", "statement": ""}, ("replay", "", {}), os.path.join(common.WORK_DIR, pid, "replay"))
    say(r.get("native", ""))
    if r.get("status") == "violated":
        say(f"VIOLATION property={pid} replay={path}")
        return 1
    return 0


def executor(P, R, budget):
    ex = mirx.make_executor(P, R, max_paths=1000000)
    ex.opaque_calls = mirx.slice_opaque
    ex.recursion_bound = 0
    ex.event_budget = budget
    ex.tolerate_unsupported = True
    ex.assume_index_in_bounds = True      # `self.tokens[self.pos - 1]` right after a token was consumed
    ex.summarize = [r"Parser::<'_>::\w+$", r"ToString>::to_string$", r"CompileError::\w+$"]
    return ex


def parser_fn(P, name):
    c = [v for k, v in P.fns.items() if re.search(r"parser::<impl at [^>]*>::" + name + r"$", k)]
    if len(c) != 1:
        raise Inconclusive(f"Parser::{name} not found (or ambiguous) in the incan_syntax MIR dump")
    return c[0]


def run_fn(ex, f):
    args = [ex.sym_value("Parser", "self")] + [ex.sym_value(t, f"p{k}") for k, (_, t) in enumerate(f.params[1:])]
    ex.call_stack = [f.name]
    try:
        return args, ex._run(f, args, {}, 0, None)
    finally:
        ex.call_stack = []


def ev_true(o, name):
    """was the boolean result `name` of a query taken as true on this path?"""
    if name == "false":
        return False
    if name in o.pc:
        return True
    if f"(not {name})" in o.pc:
        return False
    return None


def tok(shown):
    m = re.search(r"(?:PunctuationId|OperatorId|KeywordId)::(\w+)", shown)
    return m.group(1) if m else shown


def trace(o):
    """[(query, token, result)] for token queries, ('call', subparser, evname) for sub-parser calls"""
    out = []
    for e in o.events:
        name = e[0].split("::")[-1]
        if name in ("check", "match_token", "expect", "check_keyword"):
            res = ev_true(o, e[2]) if name != "expect" else e[2]
            out.append((name, tok(e[1][1]) if len(e[1]) > 1 else "?", res))
        elif name in ("index", "advance", "peek_next", "peek", "current_span"):
            continue
        elif name in ("current_span", "syntax", "to_string"):
            continue
        else:
            out.append(("call", name, e[2]))
    return out


def ok_payload_name(evname):
    return evname + ".Ok.0"


def tree(v, ex, st):
    """AST value -> nested tuples; leaves are the names of the arbitrary sub-parser results."""
    v = ex.deref(v, st)
    if isinstance(v, Sym):
        return v.name
    if isinstance(v, Adt):
        if v.ty == "Spanned" or v.variant is None and any(isinstance(f, tuple) and f[0] == "node" for f in v.fields):
            for f in v.fields:
                if isinstance(f, tuple) and f[0] == "node":
                    return tree(f[1], ex, st)
        if v.variant == "Binary":
            fs = [f[1] if isinstance(f, tuple) else f for f in v.fields]
            op = ex.deref(fs[1], st)
            return ("bin", op.variant if isinstance(op, Adt) else repr(op), tree(fs[0], ex, st), tree(fs[2], ex, st))
        if v.variant in ("Some", "Ok"):
            f = v.fields[0]
            return tree(f[1] if isinstance(f, tuple) else f, ex, st)
        if v.variant == "None":
            return None
        return (v.variant or v.ty,) + tuple(tree(f[1] if isinstance(f, tuple) else f, ex, st) for f in v.fields)
    return repr(v)


# ---- slices ---------------------------------------------------------------------------------------------------

def expected_slice(tr, start_present):
    """Interpret a protocol trace with the documented slice grammar `[start] : [end] [: [step]]` / `[start] :: [step]`.
    -> (end leaf | None, step leaf | None) or raises ValueError if the trace is not a run of that grammar."""
    i = 0

    def nxt():
        nonlocal i
        if i >= len(tr):
            raise ValueError("trace ends early")
        i += 1
        return tr[i - 1]
    q = nxt()
    end = step = None
    if q[0] == "match_token" and q[1] == "ColonColon":
        if q[2]:
            c = nxt()
            if not (c[0] == "check" and c[1] == "RBracket"):
                raise ValueError("after `::` the parser must look for `]`")
            if not c[2]:
                e = nxt()
                if e[0] != "call" or e[1] != "expression":
                    raise ValueError("step expression expected")
                step = ok_payload_name(e[2])
            return end, step, i
        q = nxt()
    if not (q[0] == "expect" and q[1] == "Colon"):
        raise ValueError("first colon not consumed")
    c1 = nxt()
    if not (c1[0] == "check" and c1[1] == "RBracket"):
        raise ValueError("lookahead for `]` missing")
    has_end = False
    if not c1[2]:
        c2 = nxt()
        if not (c2[0] == "check" and c2[1] == "Colon"):
            raise ValueError("lookahead for `:` missing")
        has_end = not c2[2]
    if has_end:
        e = nxt()
        if e[0] != "call" or e[1] != "expression":
            raise ValueError("end expression expected")
        end = ok_payload_name(e[2])
    m = nxt()
    if not (m[0] == "match_token" and m[1] == "Colon"):
        raise ValueError("second colon not looked for")
    if m[2]:
        c3 = nxt()
        if not (c3[0] == "check" and c3[1] == "RBracket"):
            raise ValueError("lookahead for `]` after second colon missing")
        if not c3[2]:
            e = nxt()
            if e[0] != "call" or e[1] != "expression":
                raise ValueError("step expression expected")
            step = ok_payload_name(e[2])
    return end, step, i


def run_parse_slice(log_dir):
    import mirx_props as mp
    t0 = time.time()
    P, R = load()
    f = parser_fn(P, "parse_slice")
    ex = executor(P, R, 24)
    args, outs = run_fn(ex, f)
    start = args[1]
    bad, why, n_ok, samples = [], [], 0, []
    for o in outs:
        if o.kind == "unsupported":
            bad.append(conj(o.pc))
            why.append("unsupported MIR: " + str(o.info))
            continue
        if o.kind != "return":
            bad.append(conj(o.pc))
            why.append("panic: " + str(o.info))
            continue
        v = ex.deref(o.value, o.state)
        if isinstance(v, Adt) and v.variant == "Err":
            continue          # a sub-parser / expect failed: the error is propagated
        sl = None
        t = v
        se = None
        # Ok(IndexOrSlice::Slice(SliceExpr{start,end,step}))
        try:
            inner = ex.deref(v.fields[0][1] if isinstance(v.fields[0], tuple) else v.fields[0], o.state)
            se = ex.deref(inner.fields[0][1] if isinstance(inner.fields[0], tuple) else inner.fields[0], o.state)
            got = {n: tree(fv, ex, o.state) for n, fv in se.fields}
        except Exception:
            bad.append(conj(o.pc))
            why.append("result is not Ok(Slice(SliceExpr{..}))")
            continue
        tr = trace(o)
        fs = o.state.facts.get(start.tag().term)
        start_present = bool(fs and fs[0] == "eq" and fs[1] == 1)
        try:
            end, step, used = expected_slice(tr, start_present)
        except ValueError as e:
            bad.append(conj(o.pc))
            why.append(f"protocol: {e}: {tr}")
            continue
        n_ok += 1
        want = {"start": (start.name + ".Some.0") if start_present else None, "end": end, "step": step}
        if len(samples) < 4:
            samples.append({"trace": [f"{q}({t_})={r_}" for q, t_, r_ in tr], "slice": got})
        if fs is None and got.get("start") != start.name:
            # the path never looks at whether a start expression was written, and does not pass it through either: with a start
            # written (tag = Some) the result loses it
            bad.append(conj(o.pc + [f"(= {start.tag().term} 1)"]))
            why.append(f"trace {tr}: the written start bound is dropped (parser builds {got})")
            continue
        if fs is None:
            want["start"] = start.name
        if got != want:
            bad.append(conj(o.pc))
            why.append(f"trace {tr} should give {want}, parser builds {got}")
    r = {"id": "X-parse_slice", "engine": "E2-X mirsmt (slice)",
         "statement": "slice syntax: after the optional start expression, `:` [end] [`:` [step]] (and `::` [step], lexed as one token) is "
                      "parsed into SliceExpr{start, end, step} with each written bound in its own field and every omitted bound None",
         "bound": "Parser::parse_slice: every protocol trace (token queries with arbitrary answers, sub-parser results arbitrary) - "
                  f"{len(outs)} paths; the token stream itself (lexer) is not modelled",
         "encoding": "token queries as uninterpreted booleans; AST as constructed values",
         "functions_encoded": [n + " (MIR)" for n in ex.encoded], "paths": len(outs), "samples_tokens": samples}
    return finish(r, ex, bad, why, n_ok, t0, log_dir, "slice")


# ---- operator levels ------------------------------------------------------------------------------------------

LEVELS = {
    # level: (sub-parser for operands, {token: AST operator}, associativity)
    "or_expr": ("and_expr", {"Or": "Or"}, "left"),
    "and_expr": ("not_expr", {"And": "And"}, "left"),
    "additive": ("multiplicative", {"Plus": "Add", "Minus": "Sub"}, "left"),
    "multiplicative": ("power", {"Star": "Mul", "SlashSlash": "FloorDiv", "Slash": "Div", "Percent": "Mod"}, "left"),
    "power": ("unary", {"StarStar": "Pow"}, "right"),
    "comparison": ("range_expr", {"EqEq": "Eq", "NotEq": "NotEq", "Lt": "Lt", "Gt": "Gt", "LtEq": "LtEq", "GtEq": "GtEq", "In": "In",
                                  "Is": "Is"}, "left"),
}
# prefix levels: (token, AST unary operator, sub-parser when the token is absent)
PREFIX = {"not_expr": ("Not", "Not", "comparison"), "unary": ("Minus", "Neg", None)}


class SkipPath(Exception):
    pass


def expected_level(level, tr):
    sub, ops, assoc = LEVELS[level]
    i = 0
    if not tr or tr[0][0] != "call" or tr[0][1] != sub:
        raise ValueError(f"first operand must come from {sub}")
    cur = ok_payload_name(tr[0][2])
    i = 1
    while i < len(tr):
        matched = None
        while i < len(tr) and tr[i][0] in ("match_token", "check_keyword"):
            if tr[i][0] == "check_keyword":
                if tr[i][2]:
                    raise SkipPath()      # the two-token operator `not in`: outside this obligation
                i += 1
                continue
            if tr[i][1] not in ops:
                raise ValueError(f"{level} asks for a token of another level: {tr[i][1]}")
            if tr[i][2]:
                matched = tr[i][1]
                i += 1
                break
            i += 1
        if matched is None:
            break
        if i >= len(tr) or tr[i][0] != "call":
            raise ValueError("operand expected after an operator")
        want_sub = sub if assoc == "left" else level
        if tr[i][1] != want_sub:
            raise ValueError(f"right operand of {matched} must come from {want_sub}, not {tr[i][1]}")
        cur = ("bin", ops[matched], cur, ok_payload_name(tr[i][2]))
        i += 1
        if assoc == "right":
            break
    if i != len(tr):
        raise ValueError("unexpected extra events")
    return cur


def run_parse_levels(log_dir):
    import mirx_props as mp
    t0 = time.time()
    P, R = load()
    bad, why, n_ok, samples, encoded, paths = [], [], 0, [], [], 0
    ex_all = None
    results = []
    for level in LEVELS:
        f = parser_fn(P, level)
        ex = executor(P, R, {"multiplicative": 11, "comparison": 13}.get(level, 8))
        args, outs = run_fn(ex, f)
        encoded += ex.encoded
        paths += len(outs)
        lbad, lwhy = [], []
        for o in outs:
            if o.kind == "unsupported":
                lbad.append(conj(o.pc))
                lwhy.append(f"{level}: unsupported MIR: {o.info}")
                continue
            if o.kind != "return":
                lbad.append(conj(o.pc))
                lwhy.append(f"{level}: panic {o.info}")
                continue
            v = ex.deref(o.value, o.state)
            if isinstance(v, Adt) and v.variant == "Err":
                continue
            tr = trace(o)
            if any(q[2] == "false" and q[0] == "match_token" for q in tr[-8:]) and "event budget" in getattr(ex, "truncated", set()):
                # a path cut by the event budget (the loop was forced to stop): outside the stated bound
                if sum(1 for q in tr if q[0] == "call") > 3:
                    continue
            try:
                want = expected_level(level, tr)
            except SkipPath:
                continue
            except ValueError as e:
                lbad.append(conj(o.pc))
                lwhy.append(f"{level}: protocol: {e}")
                continue
            got = tree(v, ex, o.state)
            n_ok += 1
            if len(samples) < 6 and isinstance(got, tuple):
                samples.append({"level": level, "trace": [f"{q}({t_})={r_}" for q, t_, r_ in tr], "ast": str(got)})
            if got != want:
                lbad.append(conj(o.pc))
                lwhy.append(f"{level}: trace {[(q, t_, r_) for q, t_, r_ in tr]} should parse to {want}, parser builds {got}")
        results.append((level, ex, lbad, lwhy))
    # prefix operators: `not e`, `-e`
    for level, (token, astop, fallthrough) in PREFIX.items():
        f = parser_fn(P, level)
        ex = executor(P, R, 6)
        selfv = ex.sym_value("Parser", "self")
        pd = R.resolve("Parser")
        pnames = [x[0] for x in pd.variants[0][1]] if pd is not None else []
        if "pos" in pnames:
            # a token has just been consumed when `pos - 1` is evaluated
            ex.enc.side.append(f"(>= {selfv.child(None, pnames.index('pos')).term} 1)")
        ex.call_stack = [f.name]
        try:
            outs = ex._run(f, [selfv], {}, 0, None)
        finally:
            ex.call_stack = []
        encoded += ex.encoded
        paths += len(outs)
        lbad, lwhy = [], []
        for o in outs:
            if o.kind == "unsupported":
                lbad.append(conj(o.pc))
                lwhy.append(f"{level}: unsupported MIR: {o.info}")
                continue
            if o.kind != "return":
                lbad.append(conj(o.pc))
                lwhy.append(f"{level}: panic {o.info}")
                continue
            v = ex.deref(o.value, o.state)
            if isinstance(v, Adt) and v.variant == "Err":
                continue
            tr = trace(o)
            if not tr or tr[0][0] != "match_token" or tr[0][1] != token:
                lbad.append(conj(o.pc))
                lwhy.append(f"{level}: does not start by looking for `{token}`: {tr}")
                continue
            got = tree(v, ex, o.state)
            if tr[0][2]:
                calls = [q for q in tr if q[0] == "call"]
                ok = (len(calls) == 1 and calls[0][1] == level and isinstance(got, tuple) and got[0] == "Unary"
                      and got[1] == (astop,) and got[2] == ok_payload_name(calls[0][2]))
                n_ok += 1
                if not ok:
                    lbad.append(conj(o.pc))
                    lwhy.append(f"{level}: after `{token}` the parser builds {got} from trace {tr}")
            elif fallthrough is not None:
                calls = [q for q in tr if q[0] == "call"]
                ok = len(calls) == 1 and calls[0][1] == fallthrough and got in (calls[0][2], ok_payload_name(calls[0][2]))
                if not ok:
                    lbad.append(conj(o.pc))
                    lwhy.append(f"{level}: without `{token}` the parser must hand over to {fallthrough}: {tr} -> {got}")
        results.append((level, ex, lbad, lwhy))
    r = {"id": "X-parse_operators", "engine": "E2-X mirsmt (slice)",
         "statement": "binary-operator grammar: `or` < `and` < ... < `+ -` < `* / // %` < `**`: each level takes its operands from the next "
                      "tighter level, maps each operator token to the AST operator of the same meaning, groups to the left "
                      "(`a - b - c` = `(a - b) - c`) and `**` to the right (`a ** b ** c` = `a ** (b ** c)`)",
         "bound": f"Parser::or_expr, and_expr, not_expr, comparison (all operators but the two-token `not in`), additive, multiplicative, power, "
                  f"unary minus: every protocol trace with up to 2-3 operators per level ({paths} paths); token stream (lexer) not modelled; "
                  "the range level is not included",
         "encoding": "token queries as uninterpreted booleans; AST as constructed values",
         "functions_encoded": [n + " (MIR)" for n in encoded], "paths": paths, "samples_tokens": samples}
    # feasibility of any bad path (per level, own solver context)
    worst = None
    for level, ex, lbad, lwhy in results:
        lbad2 = [b for b in lbad if b != "false"]
        if not lbad2:
            continue
        res = solver.check(mp.smt_lines(ex, [disj(lbad2)]), [], "z3", 60)
        if res.status != "unsat":
            # name the path that is actually feasible
            reason = lwhy[0]
            for b, w in zip(lbad, lwhy):
                if b != "false" and solver.check(mp.smt_lines(ex, [b]), [], "z3", 60).status != "unsat":
                    reason = w
                    break
            worst = (level, reason, res.status)
            break
    r["wall_s"] = round(time.time() - t0, 2)
    if n_ok == 0:
        r.update(status="inconclusive", reason="no path produced an AST (vacuous)")
        return r
    r["vacuity_ok"] = True
    if worst is None:
        r.update(status="held", solver=f"{paths} paths over {len(results)} levels: no feasible path deviates")
        return r
    return native_check(r, "operators", worst[1], log_dir)


def finish(r, ex, bad, why, n_ok, t0, log_dir, kind):
    import mirx_props as mp
    r["wall_s"] = round(time.time() - t0, 2)
    if n_ok == 0:
        r.update(status="inconclusive", reason="no path produced an AST (vacuous)")
        return r
    r["vacuity_ok"] = True
    bad2 = [(b, w) for b, w in zip(bad, why) if b != "false"]
    if not bad2:
        r.update(status="held", solver="no path deviates from the documented grammar (syntactic)")
        return r
    res = solver.check(mp.smt_lines(ex, [disj([b for b, _ in bad2])]), [], "z3", 60)
    r["solver"] = f"z3: {res.status} in {res.wall:.2f} s"
    if res.status == "unsat":
        r["status"] = "held"
        return r
    return native_check(r, kind, bad2[0][1], log_dir)


NATIVE = {
    "slice": [("x[a:b:c]", "(Slice x a b c)"), ("x[a:b]", "(Slice x a b None)"), ("x[a:]", "(Slice x a None None)"),
              ("x[:b]", "(Slice x None b None)"), ("x[:]", "(Slice x None None None)"), ("x[::c]", "(Slice x None None c)"),
              ("x[a::c]", "(Slice x a None c)"), ("x[:b:c]", "(Slice x None b c)"), ("x[a::]", "(Slice x a None None)"),
              ("x[a:b:]", "(Slice x a b None)"), ("x[::]", "(Slice x None None None)"), ("x[a: :c]", "(Slice x a None c)")],
    "operators": [("a - b - c", "(Sub (Sub a b) c)"), ("a + b - c", "(Sub (Add a b) c)"), ("a * b / c", "(Div (Mul a b) c)"),
                  ("a // b % c", "(Mod (FloorDiv a b) c)"), ("a % b // c", "(FloorDiv (Mod a b) c)"), ("a ** b ** c", "(Pow a (Pow b c))"),
                  ("a + b * c", "(Add a (Mul b c))"), ("a * b + c", "(Add (Mul a b) c)"), ("a * b ** c", "(Mul a (Pow b c))"),
                  ("a - b * c - a", "(Sub (Sub a (Mul b c)) a)"), ("p or q and r", "(Or p (And q r))"), ("p and q or r", "(Or (And p q) r)"),
                  ("p or q or r", "(Or (Or p q) r)"), ("a / b", "(Div a b)"), ("a // b", "(FloorDiv a b)"), ("a % b", "(Mod a b)"),
                  ("a < b", "(Lt a b)"), ("a <= b", "(LtEq a b)"), ("a > b", "(Gt a b)"), ("a >= b", "(GtEq a b)"), ("a == b", "(Eq a b)"),
                  ("a != b", "(NotEq a b)"), ("a + b < c", "(Lt (Add a b) c)"), ("not p and q", "(And (Not p) q)"),
                  ("not a < b", "(Not (Lt a b))"), ("-a + b", "(Add (Neg a) b)"), ("a - -b", "(Sub a (Neg b))"),
                  ("p and a < b", "(And p (Lt a b))"), ("- -a", "(Neg (Neg a))"), ("not not p", "(Not (Not p))"),
                  ("-a * b", "(Mul (Neg a) b)"), ("not p or q", "(Or (Not p) q)"),
                  ("a == b and p", "(And (Eq a b) p)"), ("a - b < c - a", "(Lt (Sub a b) (Sub c a))")],
}


def native_check(r, kind, why, log_dir):
    """Run the documented example sentences through the real lexer + parser and compare the ASTs."""
    import kani
    os.makedirs(log_dir, exist_ok=True)
    src = ""
    for k, (e, _) in enumerate(NATIVE[kind]):
        if kind == "slice":
            src += f"def f{k}(x: List[int], a: int, b: int, c: int) -> List[int]:\n    return {e}\n\n"
        else:
            src += f"def f{k}(a: int, b: int, c: int, p: bool, q: bool, r: bool) -> int:\n    return {e}\n\n"
    path = os.path.join(log_dir, f"parse_replay_{kind}.incn")
    with open(path, "w") as fh:
        fh.write(src)
    texts, broken = [], False
    for prof in ("dev", "release"):
        binp = kani.build_replay(prof, True, log_dir)
        rc, out, _, to = common.run([binp, "astdump", path], timeout=60)
        got = dict(re.findall(r"^AST f(\d+) (.*)$", out, re.M))
        if not got:
            broken = True
            texts.append(f"[{prof}] the example sentences do not parse: {out.strip()[-160:]}")
            continue
        for k, (e, want) in enumerate(NATIVE[kind]):
            g = got.get(str(k))
            if g != want:
                broken = True
                texts.append(f"[{prof}] `{e}` parses to {g}, documented {want}")
    text = "; ".join(texts) or "all example sentences parse to the documented ASTs"
    r["native"] = text
    if broken:
        os.makedirs(os.path.join(common.REPLAYS_DIR, "MIRX"), exist_ok=True)
        rp = os.path.join(common.REPLAYS_DIR, "MIRX", r["id"] + ".replay")
        with open(rp, "w") as fh:
            fh.write(f"mirx parse {kind}\n# {r['statement']}\n# solver: {why[:300]}\n# native: {text}\n")
        r.update(status="violated", replay=rp, counterexample={"path": why[:400], "native": text})
    else:
        r.update(status="inconclusive", reason=f"a feasible path deviates from the documented grammar ({why[:300]}) but the documented example "
                 f"sentences still parse as documented")
    return r


def replay_parse(pid, line, path):
    r = native_check({"id": "replay", "statement": ""}, line[2], "", os.path.join(common.WORK_DIR, pid, "replay"))
    say(r.get("native", ""))
    if r.get("status") == "violated":
        say(f"VIOLATION property={pid} replay={path}")
        return 1
    return 0
