"""E2-X obligations: the compiler's pure mapping functions (adapters, lowering result types, the binop emission
plan and the emitted tokens) decided against the documented table by enum-level symbolic execution of the whole-crate
MIR (mirsmt/mirx.py) + SMT.  Serves C07 (IR side) and C04 (operator -> helper selection, incl. the cross-level
obligation "the helper the emitter selects on a path computes the documented result for the operands of that path")."""
import os
import re
import sys
import time

import common
from common import Inconclusive, say

sys.path.insert(0, os.path.join(common.VERIF, "mirsmt"))
import dump  # noqa: E402
import mir  # noqa: E402
import mirx  # noqa: E402
import rtypes  # noqa: E402
import solver  # noqa: E402
import symex  # noqa: E402
from symex import Adt, Scalar, Sym, Tokens, conj, disj, neg  # noqa: E402

PROPS = ("C07", "C04", "C01", "C13", "C05", "C11", "C06", "C14", "C17", "C03", "C08", "C09", "C12", "C15", "C16", "C02", "C10")

_LOADED = {}


def load(log):
    if "P" in _LOADED:
        return _LOADED["P"], _LOADED["R"]
    t0 = time.time()
    try:
        text, _, path = dump.dump_mir("incan", repo=common.REPO)
        ctext, _, cpath = dump.dump_mir("incan_core", repo=common.REPO)
    except dump.DumpError as e:
        raise Inconclusive(str(e))
    fns = mir.parse_mir(text)
    core = mir.parse_mir(ctext)
    P = symex.Program()
    P.add(fns, common.REPO)
    P.add({"incan_core::" + k: v for k, v in core.items()}, common.REPO)
    R = rtypes.Registry(common.REPO)
    log["mirx_dump_s"] = round(time.time() - t0, 1)
    log["mirx_functions_in_dump"] = len(fns)
    _LOADED["P"], _LOADED["R"] = P, R
    return P, R


def need(P, name):
    f = P.lookup(name)
    if f is None:
        # methods: match by suffix `::name`
        c = [f for n, f in P.fns.items() if n.endswith("::" + name)]
        if len(c) == 1:
            return c[0]
        raise Inconclusive(f"function `{name}` not found (or ambiguous) in the MIR dump")
    return f


def variants(R, ty):
    td = R.resolve(ty)
    if td is None or td.kind != "enum":
        raise Inconclusive(f"enum {ty} not found in the sources")
    return [v[0] for v in td.variants]


def idx(R, ty, name):
    vs = variants(R, ty)
    if name not in vs:
        raise Inconclusive(f"{ty} has no variant {name} any more")
    return vs.index(name)


class XOb:
    def __init__(self, oid, statement, bound, run):
        self.id = oid
        self.statement = statement
        self.bound = bound
        self.run = run   # () -> dict(status=..., ...)


def smt_lines(ex, assertions):
    lines = ex.enc.preamble()
    for s in ex.enc.side:
        lines.append(f"(assert {s})")
    for a in assertions:
        lines.append(f"(assert {a})")
    return lines


def query(ex, assertions, names, base, timeout=120):
    """sat? -> (status, model)"""
    r = solver.check(smt_lines(ex, assertions), names, "z3", timeout, save_as=base + ".smt2")
    r2 = None
    if r.status == "unsat":
        r2 = solver.check(smt_lines(ex, assertions), names, "cvc5", timeout)
    return r, r2


def tag_names(ex):
    return [d.split()[1] for d in ex.enc.decls if d.startswith("(declare-const ")]


def table_obligation(P, R, log_dir, oid, statement, bound, fname, arg_types, expected, self_arg=False, replay=None):
    """Generic: run `fname` on fully symbolic arguments; `expected(ex, args, outcome)` returns an SMT formula that must
    hold on that path (or a Python bool); ask the solver for pc AND NOT expected on any path, and for coverage."""
    def run():
        t0 = time.time()
        f = need(P, fname)
        ex = mirx.make_executor(P, R)
        args = []
        if self_arg:
            args.append(symex.Opaque("self"))
        for k, t in enumerate(arg_types):
            args.append(ex.sym_value(t, f"a{k}"))
        outs = ex.run(f, args)
        bad = []
        rets = 0
        for o in outs:
            if o.kind != "return":
                bad.append(conj(o.pc))     # these functions must not panic on any input
                continue
            rets += 1
            want = expected(ex, args, o)
            if want is True:
                continue
            if want is False:
                bad.append(conj(o.pc))
            else:
                bad.append(conj(o.pc + [neg(want)]))
        base = os.path.join(log_dir, oid)
        r = {"id": oid, "engine": "E2-X mirsmt", "statement": statement, "bound": bound,
             "encoding": "enum tags as bounded Int, fields on demand; tokens as pushed strings",
             "functions_encoded": [n + " (MIR)" for n in ex.encoded], "paths": len(outs)}
        # vacuity: every path condition set must be jointly satisfiable at least once
        vac, _ = query(ex, [disj([conj(o.pc) for o in outs if o.kind == "return"])], [], base + ".vac")
        if vac.status != "sat" or rets == 0:
            r.update(status="inconclusive", reason=f"vacuity twin is {vac.status} ({rets} returning paths)", wall_s=round(time.time() - t0, 2))
            return r
        r["vacuity_ok"] = True
        if not bad:
            r.update(status="held", solver="no path can differ from the documented value (syntactic)", wall_s=round(time.time() - t0, 2))
            return r
        res, res2 = query(ex, [disj(bad)], tag_names(ex), base)
        r["solver"] = f"z3: {res.status} in {res.wall:.2f} s" + (f"; cvc5: {res2.status} in {res2.wall:.2f} s" if res2 else "")
        r["wall_s"] = round(time.time() - t0, 2)
        if res.status == "unsat" and (res2 is None or res2.status != "sat"):
            r["status"] = "held"
            return r
        if res.status == "inconclusive":
            r.update(status="inconclusive", reason="solver: " + res.raw[:200])
            return r
        model = (res if res.status == "sat" else res2).model
        r["model"] = {k: solver.to_text(v) for k, v in model.items()}
        if replay is None:
            r.update(status="inconclusive", reason=f"model {r['model']} found but this obligation has no native replay")
            return r
        ok, text, line = replay(model)
        r["native"] = text
        if ok is True:
            os.makedirs(os.path.join(common.REPLAYS_DIR, "MIRX"), exist_ok=True)
            path = os.path.join(common.REPLAYS_DIR, "MIRX", oid + ".replay")
            with open(path, "w") as fh:
                fh.write(line + "\n# " + statement + "\n# model: " + str(r["model"]) + "\n# native: " + text + "\n")
            r.update(status="violated", replay=path, counterexample={"model": r["model"], "native": text})
        else:
            r.update(status="inconclusive", reason=f"model does not reproduce natively: {text}")
        return r
    return XOb(oid, statement, bound, run)


# ---- documented table in SMT ---------------------------------------------------------------------------------

ARITH = ["Add", "Sub", "Mul", "Div", "FloorDiv", "Mod", "Pow"]
CMP_AST = ["Eq", "NotEq", "Lt", "LtEq", "Gt", "GtEq"]
DOC_AST_TO_NUM = {"Add": "Add", "Sub": "Sub", "Mul": "Mul", "Div": "Div", "FloorDiv": "FloorDiv", "Mod": "Mod", "Pow": "Pow",
                  "Eq": "Eq", "NotEq": "NotEq", "Lt": "Lt", "LtEq": "LtEq", "Gt": "Gt", "GtEq": "GtEq"}
DOC_IR_TO_NUM = {"Add": "Add", "Sub": "Sub", "Mul": "Mul", "Div": "Div", "FloorDiv": "FloorDiv", "Mod": "Mod", "Pow": "Pow",
                 "Eq": "Eq", "Ne": "NotEq", "Lt": "Lt", "Le": "LtEq", "Gt": "Gt", "Ge": "GtEq"}
DOC_AST_TO_IR = {"Add": "Add", "Sub": "Sub", "Mul": "Mul", "Div": "Div", "FloorDiv": "FloorDiv", "Mod": "Mod", "Pow": "Pow",
                 "Eq": "Eq", "NotEq": "Ne", "Lt": "Lt", "LtEq": "Le", "Gt": "Gt", "GtEq": "Ge", "And": "And", "Or": "Or"}
INFIX = {"Add": "+", "Sub": "-", "Mul": "*", "Eq": "==", "Ne": "!=", "Lt": "<", "Le": "<=", "Gt": ">", "Ge": ">=",
         "And": "&&", "Or": "||", "BitAnd": "&", "BitOr": "|", "BitXor": "^", "Shl": "<<", "Shr": ">>"}


def adt_name(v):
    return v.variant if isinstance(v, Adt) else None


def opt_payload(v):
    """Option<Adt> value -> payload variant name or None"""
    if isinstance(v, Adt) and v.variant == "Some":
        f = v.fields[0]
        f = f[1] if isinstance(f, tuple) else f
        return adt_name(f)
    return None


def tag_is(sym, R, ty, names):
    t = sym.tag().term
    return disj([f"(= {t} {idx(R, ty, n)})" for n in names])


def build(pid, P, R, tier, log_dir):
    obs = []
    if pid not in ("C07",):
        return obs
    AST_OP = "incan_syntax::ast::BinaryOp"
    IR_OP = "ir::expr::BinOp"

    # ---- adapters over EVERY variant (Kani covers samples; here the tag is symbolic over the whole enum) ----------
    def exp_op_from_ast(ex, args, o):
        op = args[0]
        got = opt_payload(o.value)
        ok = []
        for name in variants(R, AST_OP):
            want = DOC_AST_TO_NUM.get(name)
            if want == got:
                ok.append(name)
        return tag_is(op, R, AST_OP, ok) if ok else False

    def exp_op_from_ir(ex, args, o):
        op = args[0]
        got = opt_payload(o.value)
        ok = [n for n in variants(R, IR_OP) if DOC_IR_TO_NUM.get(n) == got]
        return tag_is(op, R, IR_OP, ok) if ok else False

    def exp_lower_binop(ex, args, o):
        op = args[1]
        got = adt_name(o.value)
        # numeric and logical operators keep their meaning; In / NotIn / Is are not numeric (any target accepted)
        ok = [n for n in variants(R, AST_OP) if DOC_AST_TO_IR.get(n, got) == got]
        return tag_is(op, R, AST_OP, ok) if ok else False

    def exp_ir_ty(ex, args, o):
        ty = args[0]
        got = opt_payload(o.value)
        want = {"Int": "Int", "Float": "Float"}
        ok = [n for n in variants(R, "IrType") if want.get(n) == got]
        return tag_is(ty, R, "IrType", ok) if ok else False

    def exp_res_ty(ex, args, o):
        ty = args[0]
        got = opt_payload(o.value)
        want = {"Int": "Int", "Float": "Float"}
        ok = [n for n in variants(R, "ResolvedType") if want.get(n) == got]
        return tag_is(ty, R, "ResolvedType", ok) if ok else False

    if pid == "C07":
        obs.append(table_obligation(P, R, log_dir, "X-numeric_op_from_ast", "every surface BinaryOp maps to the documented NumericOp (None for "
                                    "and/or/in/not in/is)", f"all {len(variants(R, AST_OP))} BinaryOp variants (symbolic tag)",
                                    "numeric_op_from_ast", [AST_OP], exp_op_from_ast))
        obs.append(table_obligation(P, R, log_dir, "X-numeric_op_from_ir", "every IR BinOp maps to the documented NumericOp (None for logical/bitwise)",
                                    f"all {len(variants(R, IR_OP))} BinOp variants", "numeric_op_from_ir", [IR_OP], exp_op_from_ir))
        obs.append(table_obligation(P, R, log_dir, "X-lower_binop", "lowering maps every numeric/comparison/logical surface operator to the IR operator "
                                    "of the same meaning, so numeric_op_from_ir(lower_binop(op)) == numeric_op_from_ast(op)",
                                    "all BinaryOp variants", "lower_binop", [AST_OP], exp_lower_binop, self_arg=True))
        obs.append(table_obligation(P, R, log_dir, "X-ir_type_to_numeric_ty", "Some(Int)/Some(Float) exactly on IrType::Int / IrType::Float",
                                    f"all {len(variants(R, 'IrType'))} IrType variants (payloads irrelevant)", "ir_type_to_numeric_ty", ["IrType"], exp_ir_ty))
        obs.append(table_obligation(P, R, log_dir, "X-numeric_ty_from_resolved", "Some(Int)/Some(Float) exactly on ResolvedType::Int / ::Float",
                                    f"all {len(variants(R, 'ResolvedType'))} ResolvedType variants", "numeric_ty_from_resolved", ["symbols::ResolvedType"], exp_res_ty))

        # ---- lowering's result type ---------------------------------------------------------------------------------
        def exp_binary_result_type(ex, args, o):
            left, right, op, pk = args[1], args[2], args[3], args[4]
            lt, rt, ot = left.tag().term, right.tag().term, op.tag().term
            I, F = idx(R, "IrType", "Int"), idx(R, "IrType", "Float")
            num = lambda t: f"(or (= {t} {I}) (= {t} {F}))"  # noqa: E731
            anyf = f"(or (= {lt} {F}) (= {rt} {F}))"
            arith = disj([f"(= {ot} {idx(R, AST_OP, n)})" for n in ARITH])
            is_div = f"(= {ot} {idx(R, AST_OP, 'Div')})"
            is_pow = f"(= {ot} {idx(R, AST_OP, 'Pow')})"
            pkt = pk.tag().term   # Option tag: 0 None, 1 Some
            nonneg = f"(and (= {pkt} 1) (= {pk.child('Some', 0).tag().term} {idx(R, 'PowExponentKind', 'NonNegativeIntLiteral')}))"
            doc_float = f"(ite {is_div} true (ite {is_pow} (not (and (not {anyf}) {nonneg})) {anyf}))"
            got = o.value
            if isinstance(got, Adt):
                g = got.variant
                if g == "Bool":
                    return neg(arith)
                if g == "Int":
                    return f"(and {arith} {num(lt)} {num(rt)} (not {doc_float}))"
                if g == "Float":
                    return f"(and {arith} {num(lt)} {num(rt)} {doc_float})"
                return False
            if got is left:    # "not numeric -> the left operand's type"
                return f"(and {arith} (not (and {num(lt)} {num(rt)})))"
            return False
        obs.append(table_obligation(P, R, log_dir, "X-binary_result_type", "lowering types comparisons/logical ops as bool and arithmetic over int/float "
                                    "operands by the documented table (/ always float; + - * // % float iff an operand is; ** int only for int ** "
                                    "non-negative int literal); non-numeric operands keep the left type",
                                    "all BinaryOp x all IrType^2 variants x all Option<PowExponentKind>", "binary_result_type",
                                    ["IrType", "IrType", AST_OP, "Option<PowExponentKind>"], exp_binary_result_type, self_arg=True))
    return obs


def run(pid, tier, seed):
    log = {}
    log_dir = os.path.join(common.WORK_DIR, pid, "mirx-" + tier)
    os.makedirs(log_dir, exist_ok=True)
    import parse_props
    if pid == "C10":
        say(f"[{pid}] E2-X: dumping the MIR of incan_syntax from {common.REPO}")
        import lex_props
        obs = lex_props.build(pid, tier, log_dir)
    elif pid == "C11":
        say(f"[{pid}] E2-X: dumping the MIR of incan_syntax and incan from {common.REPO}")
        obs = parse_props.build(pid, tier, log_dir)
        P, R = load(log)
        import tc_props
        obs += tc_props.build(pid, P, R, tier, log_dir)
    else:
        say(f"[{pid}] E2-X: dumping whole-crate MIR of incan from {common.REPO}")
        P, R = load(log)
        obs = build(pid, P, R, tier, log_dir)
        import emit_props
        import lower_props
        import plan_props
        import tc_props
        if pid in ("C07", "C04", "C13"):
            obs += plan_props.build(pid, P, R, tier, log_dir)
        obs += tc_props.build(pid, P, R, tier, log_dir)
        obs += emit_props.build(pid, P, R, tier, log_dir)
        obs += lower_props.build(pid, P, R, tier, log_dir)
        obs += parse_props.build(pid, tier, log_dir)
        import stmt_props
        obs += stmt_props.build(pid, P, R, tier, log_dir)
        import imp_props
        obs += imp_props.build(pid, P, R, tier, log_dir)
        import c03_props
        obs += c03_props.build(pid, P, R, tier, log_dir)
        import fmt_props
        obs += fmt_props.build(pid, P, R, tier, log_dir)
        import gen_props
        obs += gen_props.build(pid, P, R, tier, log_dir)
        import scan_props
        obs += scan_props.build(pid, P, R, tier, log_dir)
    results = []
    for ob in obs:
        t0 = time.time()
        try:
            r = ob.run()
        except Inconclusive as e:
            r = {"id": ob.id, "engine": "E2-X mirsmt", "statement": ob.statement, "bound": ob.bound, "status": "inconclusive",
                 "reason": str(e), "wall_s": round(time.time() - t0, 2)}
        except (mir.Unsupported, symex.PathExplosion) as e:
            r = {"id": ob.id, "engine": "E2-X mirsmt", "statement": ob.statement, "bound": ob.bound, "status": "inconclusive",
                 "reason": f"encoder does not support the current code: {e}", "wall_s": round(time.time() - t0, 2)}
        say(f"  [{r['status']:>12}] {r['id']}  ({r.get('wall_s', '?')} s) {r.get('solver', '')}" +
            (f" -- {r.get('reason')}" if r["status"] == "inconclusive" else ""))
        results.append(r)
    assumptions = [
        "E2-X: values of enum/struct types are symbolic (tag + fields created on demand from the type definitions read from the sources); "
        "Box/&/Clone are identity; quote! expansions are modelled as token pushes; unsupported MIR aborts the obligation (inconclusive)",
        "E2-X preconditions (facts about what earlier phases can produce): integer literals in source are 0..=i64::MAX (a leading minus is a "
        "separate unary node), so the operand of a unary minus / an IR Int literal is never i64::MIN; exponent parentheses up to depth 2",
        "E2-X slices: code before the entry block (recursive checks / lowering of sub-expressions, symbol lookups) is summarised by arbitrary "
        "values of its results; locals assigned before the entry are arbitrary; calls into the checker's/lowerer's own stateful helpers "
        "(types_compatible, errors.push, lookup_var, lower_expr) are uninterpreted events",
        "emitted-token obligations: operand sub-expressions are atoms; `syn` (same version the compiler links) decides whether and how the "
        "emitted tokens parse",
    ]
    extra = {"mirx_dump_s": log.get("mirx_dump_s"), "mirx_functions_in_dump": log.get("mirx_functions_in_dump")}
    return results, assumptions, extra


def replay_file(pid, path):
    import plan_props
    return plan_props.replay_file(pid, path)
