"""E2-X slices of `AstLowering::lower_expr` (C01 / C05 / C07): the arms for binary, unary, index and slice expressions are
executed from the arm's first block with the expression being lowered symbolic; the recursive lowering of sub-expressions
is summarised by ARBITRARY results, each tagged with the sub-expression it was called on, so that the obligation can say
"the left operand of the IR node is the lowering of the left operand of the source node"."""
import os
import re
import time

import common
from common import Inconclusive, say
import mir
import mirx
import solver
import symex
from symex import Adt, Sym, conj, disj, neg

AST_OP = "incan_syntax::ast::BinaryOp"
AST_TO_IR = {"Add": "Add", "Sub": "Sub", "Mul": "Mul", "Div": "Div", "FloorDiv": "FloorDiv", "Mod": "Mod", "Pow": "Pow", "Eq": "Eq",
             "NotEq": "Ne", "Lt": "Lt", "LtEq": "Le", "Gt": "Gt", "GtEq": "Ge", "And": "And", "Or": "Or", "Is": "Eq"}
ARITH = ["Add", "Sub", "Mul", "Div", "FloorDiv", "Mod", "Pow"]


def build(pid, P, R, tier, log_dir):
    import mirx_props as mp
    obs = []
    if pid in ("C01", "C07"):
        obs.append(mp.XOb("X-lower_binary", "", "", lambda: run_arm(P, R, mp, log_dir, "Binary")))
        obs.append(mp.XOb("X-lower_unary", "", "", lambda: run_arm(P, R, mp, log_dir, "Unary")))
    if pid in ("C13", "C17", "C01"):
        obs.append(mp.XOb("X-lower_ctor", "", "", lambda: run_ctor(P, R, mp, log_dir, 2 if tier == "quick" else 3)))
    if pid in ("C01", "C05"):
        obs.append(mp.XOb("X-lower_index", "", "", lambda: run_arm(P, R, mp, log_dir, "Index")))
        obs.append(mp.XOb("X-lower_slice", "", "", lambda: run_arm(P, R, mp, log_dir, "Slice")))
    return obs


def arm_entry(f, variant):
    for bn, b in f.blocks.items():
        if any(re.search(r"\(\(\*_2\) as " + variant + r"\)", s) for s in b.stmts):
            return bn
    raise Inconclusive(f"{f.name}: the arm for Expr::{variant} was not found")


def field(adt, name):
    for f in adt.fields:
        if isinstance(f, tuple) and f[0] == name:
            return f[1]
    return None


def lowered_of(o, marker):
    """The result variable of the (summarised) recursive lowering call whose argument is the sub-expression `marker`."""
    for e in o.events:
        if e[0].endswith(("lower_expr", "lower_expr_spanned")) and len(e[1]) >= 2 and marker in e[1][1]:
            return e[2]
    return None


def is_result_of(v, evname):
    """v is (the Ok payload of) the arbitrary result `evname` of a summarised call, possibly boxed"""
    return isinstance(v, Sym) and evname is not None and (v.name == evname or v.name.startswith(evname + "."))


def run_arm(P, R, mp, log_dir, variant):
    import tc_props
    t0 = time.time()
    fs = [v for k, v in P.fns.items() if re.search(r"lower::expr::<impl at [^>]*>::lower_expr$", k)]
    if len(fs) != 1:
        raise Inconclusive("AstLowering::lower_expr not found (or ambiguous) in the MIR dump")
    f = fs[0]
    entry = arm_entry(f, variant)
    ex = mirx.make_executor(P, R, max_paths=2000000)
    ex.opaque_calls = mirx.slice_opaque
    ex.recursion_bound = 2
    ex.tolerate_unsupported = True
    ex.summarize = tc_props.SUMMARIZE + [r"::lower_expr$", r"::lower_expr_spanned$", r"::lookup_var$"]
    selfv = ex.sym_value("AstLowering", "self")
    expr = ex.sym_value("incan_syntax::ast::Expr", "expr")
    evars = mp.variants(R, "incan_syntax::ast::Expr")
    st0 = symex.State()
    k = evars.index(variant)
    st0.facts[expr.tag().term] = ("eq", k)
    st0.pc.append(f"(= {expr.tag().term} {k})")
    ex.call_stack = [f.name]
    try:
        outs = ex._run(f, [selfv, expr], {}, 0, st0, entry=entry, preset={})
    finally:
        ex.call_stack = []
    node = None
    i_ty = [x[0] for x in R.resolve("TypedExpr").variants[0][1]].index("ty")
    bad, unsupported, n_ok, shapes = [], [], 0, []
    stmt, bound = "", ""
    if variant == "Binary":
        op = expr.child("Binary", 1)
        rexpr = expr.child("Binary", 2)       # Box<Spanned<Expr>>
        lm = tc_props.LitModel(ex, R, mp, rexpr, 2)
        for t in lm.lits:
            ex.enc.side.append(f"(>= {t} 0)")
        avars = mp.variants(R, AST_OP)
        irt = mp.variants(R, "IrType")
        I, F = irt.index("Int"), irt.index("Float")
        ot = op.tag().term
        op_is = lambda n: f"(= {ot} {avars.index(n)})"  # noqa: E731
        not_in = conj([neg(op_is("In")), neg(op_is("NotIn"))])
        stmt = ("lowering of `l <op> r` (every operator except in / not in): the IR node is BinOp with the operator of the same meaning, "
                "its left operand is the lowering of l and its right operand the lowering of r, and its type is the documented "
                "result type for int/float operands (exponent kind read from r's syntax)")
        bound = "all 16 non-membership operators x arbitrary lowered operands (every IrType) x every exponent shape up to 2 parentheses"
        for o in outs:
            if o.kind == "unsupported":
                unsupported.append(conj(o.pc + [not_in]))
                continue
            if o.kind != "return":
                bad.append(conj(o.pc + [not_in]))
                continue
            v = ex.deref(o.value, o.state)
            if isinstance(v, Adt) and v.variant == "Err":
                continue
            binop = tc_props.find_adt(v, ex, o.state, "BinOp")
            fo = o.state.facts.get(ot)
            opn = avars[fo[1]] if fo and fo[0] == "eq" else None
            if opn in ("In", "NotIn"):
                continue
            if binop is None or opn is None:
                bad.append(conj(o.pc + [not_in]))
                continue
            n_ok += 1
            el, er = lowered_of(o, "Binary.0"), lowered_of(o, "Binary.2")
            opv = ex.deref(field(binop, "op"), o.state)
            left = ex.deref(field(binop, "left"), o.state)
            right = ex.deref(field(binop, "right"), o.state)
            ok = (isinstance(opv, Adt) and opv.variant == AST_TO_IR.get(opn) and is_result_of(left, el) and is_result_of(right, er)
                  and el != er)
            shapes.append(f"{opn}: " + mirx.show(binop, ex, o.state)[:140])
            if not ok:
                bad.append(conj(o.pc))
                continue
            te = tc_props.find_adt(v, ex, o.state, None) if False else None
            # type of the node
            outer = ex.deref(v.fields[0][1] if isinstance(v.fields[0], tuple) else v.fields[0], o.state) if isinstance(v, Adt) else None
            ty = ex.deref(field(outer, "ty"), o.state) if isinstance(outer, Adt) else None
            lt = left.child(None, i_ty).tag().term
            rt = right.child(None, i_ty).tag().term
            both = f"(and (or (= {lt} {I}) (= {lt} {F})) (or (= {rt} {I}) (= {rt} {F})))"
            anyf = f"(or (= {lt} {F}) (= {rt} {F}))"
            docf = f"(ite {op_is('Div')} true (ite {op_is('Pow')} (not (and (not {anyf}) {lm.nonneg})) {anyf}))"
            if opn in ARITH:
                if isinstance(ty, Adt) and ty.variant == "Float":
                    bad.append(conj(o.pc + [both, neg(docf)]))
                elif isinstance(ty, Adt) and ty.variant == "Int":
                    bad.append(conj(o.pc + [both, docf]))
                else:
                    bad.append(conj(o.pc + [both]))
            else:
                if not (isinstance(ty, Adt) and ty.variant == "Bool"):
                    bad.append(conj(o.pc))
    elif variant == "Unary":
        uop = expr.child("Unary", 0)
        uvars = mp.variants(R, "incan_syntax::ast::UnaryOp")
        stmt = "lowering of `-e` / `not e`: UnaryOp with the operator of the same meaning applied to the lowering of e, typed as e"
        bound = "both unary operators x arbitrary lowered operand"
        for o in outs:
            if o.kind == "unsupported":
                unsupported.append(conj(o.pc))
                continue
            if o.kind != "return":
                bad.append(conj(o.pc))
                continue
            v = ex.deref(o.value, o.state)
            if isinstance(v, Adt) and v.variant == "Err":
                continue
            un = tc_props.find_adt(v, ex, o.state, "UnaryOp")
            fo = o.state.facts.get(uop.tag().term)
            if un is None or not fo or fo[0] != "eq":
                bad.append(conj(o.pc))
                continue
            n_ok += 1
            ee = lowered_of(o, "Unary.1")
            opv = ex.deref(field(un, "op"), o.state)
            operand = ex.deref(field(un, "operand"), o.state)
            ok = isinstance(opv, Adt) and opv.variant == uvars[fo[1]] and is_result_of(operand, ee)
            shapes.append(mirx.show(un, ex, o.state)[:140])
            if not ok:
                bad.append(conj(o.pc))
    elif variant == "Index":
        stmt = "lowering of `o[i]`: Index with object = lowering of o and index = lowering of i (never swapped)"
        bound = "arbitrary lowered object / index"
        for o in outs:
            if o.kind == "unsupported":
                unsupported.append(conj(o.pc))
                continue
            if o.kind != "return":
                bad.append(conj(o.pc))
                continue
            v = ex.deref(o.value, o.state)
            if isinstance(v, Adt) and v.variant == "Err":
                continue
            ix = tc_props.find_adt(v, ex, o.state, "Index")
            if ix is None:
                bad.append(conj(o.pc))
                continue
            n_ok += 1
            eo, ei = lowered_of(o, "Index.0"), lowered_of(o, "Index.1")
            obj = ex.deref(field(ix, "object"), o.state)
            idx = ex.deref(field(ix, "index"), o.state)
            shapes.append(mirx.show(ix, ex, o.state)[:140])
            if not (is_result_of(obj, eo) and is_result_of(idx, ei) and eo != ei):
                bad.append(conj(o.pc))
    elif variant == "Slice":
        stmt = ("lowering of `t[a:b:c]`: Slice with target = lowering of t and start / end / step = the lowering of a / b / c "
                "respectively, each present exactly when written (never swapped, never dropped)")
        bound = "arbitrary lowered target; each of the three bounds present or absent"
        sl = expr.child("Slice", 1)           # SliceExpr
        sd = R.resolve("incan_syntax::ast::SliceExpr")
        snames = [x[0] for x in sd.variants[0][1]]
        parts = {n: sl.child(None, snames.index(n)) for n in ("start", "end", "step")}
        for o in outs:
            if o.kind == "unsupported":
                unsupported.append(conj(o.pc))
                continue
            if o.kind != "return":
                bad.append(conj(o.pc))
                continue
            v = ex.deref(o.value, o.state)
            if isinstance(v, Adt) and v.variant == "Err":
                continue
            s_ = tc_props.find_adt(v, ex, o.state, "Slice")
            if s_ is None:
                bad.append(conj(o.pc))
                continue
            n_ok += 1
            et = lowered_of(o, "Slice.0")
            tgt = ex.deref(field(s_, "target"), o.state)
            ok = is_result_of(tgt, et)
            for n in ("start", "end", "step"):
                fo = o.state.facts.get(parts[n].tag().term)
                present = bool(fo and fo[0] == "eq" and fo[1] == 1)
                got = ex.deref(field(s_, n), o.state)
                if present:
                    ev = lowered_of(o, f"Slice.1.{snames.index(n)}.Some")
                    inner = None
                    if isinstance(got, Adt) and got.variant == "Some":
                        g0 = got.fields[0]
                        inner = ex.deref(g0[1] if isinstance(g0, tuple) else g0, o.state)
                    ok = ok and is_result_of(inner, ev)
                else:
                    ok = ok and isinstance(got, Adt) and got.variant == "None"
            shapes.append(mirx.show(s_, ex, o.state)[:160])
            if not ok:
                bad.append(conj(o.pc))
    oid = {"Binary": "X-lower_binary", "Unary": "X-lower_unary", "Index": "X-lower_index", "Slice": "X-lower_slice"}[variant]
    r = {"id": oid, "engine": "E2-X mirsmt (slice)", "statement": stmt,
         "bound": f"Expr::{variant} arm of AstLowering::lower_expr from its first block; {bound}; recursive lowering summarised by arbitrary "
                  "results tagged with the sub-expression they come from",
         "encoding": "enum tags as bounded Int", "functions_encoded": [n + " (MIR)" for n in ex.encoded], "paths": len(outs),
         "shapes": shapes[:3]}
    base = os.path.join(log_dir, oid)
    if n_ok == 0:
        r.update(status="inconclusive", reason="no path produced the expected IR node (vacuous)", wall_s=round(time.time() - t0, 2))
        return r
    r["vacuity_ok"] = True
    for u in unsupported:
        res = solver.check(mp.smt_lines(ex, [u]), [], "z3", 60)
        if res.status != "unsat":
            info = [o.info for o in outs if o.kind == "unsupported"][0]
            r.update(status="inconclusive", reason=f"a path inside the statement's domain leaves the supported MIR fragment: {info}",
                     wall_s=round(time.time() - t0, 2))
            return r
    bad = [b for b in bad if b != "false"]
    if not bad:
        r.update(status="held", solver="no path can differ (syntactic)", wall_s=round(time.time() - t0, 2))
        return r
    res, res2 = mp.query(ex, [disj(bad)], mp.tag_names(ex), base)
    r["solver"] = f"z3: {res.status} in {res.wall:.2f} s" + (f"; cvc5: {res2.status} in {res2.wall:.2f} s" if res2 else "")
    r["wall_s"] = round(time.time() - t0, 2)
    if res.status == "unsat" and (res2 is None or res2.status != "sat"):
        r["status"] = "held"
        return r
    if res.status == "inconclusive":
        r.update(status="inconclusive", reason="solver: " + res.raw[:200])
        return r
    model = (res if res.status == "sat" else res2).model
    return finish_lower(r, variant, model, expr, mp, R, log_dir)


PROGS = {
    # variant -> (source, regex the generated `return ...;` must match)
}


def finish_lower(r, variant, model, expr, mp, R, log_dir):
    opn = None
    if variant == "Binary":
        avars = mp.variants(R, AST_OP)
        t = expr.child("Binary", 1).tag().term
        opn = avars[solver.value_int(model[t])] if t in model else "Sub"
        r["model"] = {"op": opn}
    broken, text = native_lower_tests(variant, opn, log_dir)
    r["native"] = text
    if broken is None:
        r.update(status="inconclusive", reason=text)
    elif broken:
        os.makedirs(os.path.join(common.REPLAYS_DIR, "MIRX"), exist_ok=True)
        rp = os.path.join(common.REPLAYS_DIR, "MIRX", r["id"] + ".replay")
        with open(rp, "w") as fh:
            fh.write(f"mirx lower {variant} {opn or '-'}\n# {r['statement']}\n# {text}\n")
        r.update(status="violated", replay=rp, counterexample={"model": r.get("model"), "native": text})
    else:
        r.update(status="inconclusive", reason=f"the solver's model does not reproduce through the real pipeline: {text}")
    return r


def replay_lower(pid, line, path):
    log_dir = os.path.join(common.WORK_DIR, pid, "replay")
    broken, text = native_lower_tests(line[2], None if line[3] == "-" else line[3], log_dir)
    say(text)
    if broken:
        say(f"VIOLATION property={pid} replay={path}")
        return 1
    return 0


def native_lower_tests(variant, opn, log_dir):
    """Native replay: programs whose generated Rust shows operand order / operator / bounds. -> (broken?, text)"""
    import kani
    import emit_props
    tests = []
    if variant == "Binary":
        sym = {"Add": "+", "Sub": "-", "Mul": "*", "Div": "/", "FloorDiv": "//", "Mod": "%", "Pow": "**", "Eq": "==", "NotEq": "!=", "Lt": "<",
               "LtEq": "<=", "Gt": ">", "GtEq": ">=", "And": "and", "Or": "or"}.get(opn)
        if sym is None:
            return None, f"model operator {opn} has no surface program"
        ty = "bool" if opn in ("And", "Or") else "int"
        tests.append((f"def f(a: {ty}, b: {ty}) -> None:\n    let x = a {sym} b\n", r"let x(?:\s*:[^=]+)? = (.*?);", "a", "b", opn))
    elif variant == "Unary":
        tests.append(("def f(a: int) -> int:\n    return -a\n", r"return (.*?);", "a", None, "Neg"))
        tests.append(("def f(a: bool) -> bool:\n    return not a\n", r"return (.*?);", "a", None, "Not"))
    elif variant == "Index":
        tests.append(("def f(x: List[int], i: int) -> int:\n    return x[i]\n", r"return (.*?);", "x", "i", "Index"))
    else:
        for sl, want in (("a:b:c", "x (call:Some a) (call:Some b) (call:Some c)"), ("a:b", "x (call:Some a) (call:Some b) None"),
                         (":b", "x None (call:Some b) None"), ("a:", "x (call:Some a) None None"), ("::c", "x None None (call:Some c)"),
                         # literal bounds (a lowering that treats particular literals specially shows here)
                         ("0:b:c", "x (call:Some 0) (call:Some b) (call:Some c)"), ("0::c", "x (call:Some 0) None (call:Some c)"),
                         ("a:b:1", "x (call:Some a) (call:Some b) (call:Some 1)"), ("0:b", "x (call:Some 0) (call:Some b) None"),
                         ("1:0:c", "x (call:Some 1) (call:Some 0) (call:Some c)"), ("a:0:1", "x (call:Some a) (call:Some 0) (call:Some 1)")):
            tests.append((f"def f(x: List[int], a: int, b: int, c: int) -> List[int]:\n    return x[{sl}]\n", r"return (.*?);", want, None, "Slice"))
    texts, broken = [], False
    os.makedirs(log_dir, exist_ok=True)
    for k, (src, rx, a1, a2, what) in enumerate(tests):
        path = os.path.join(log_dir, f"lower_replay_{k}.incn")
        with open(path, "w") as fh:
            fh.write(src)
        for prof in ("dev", "release"):
            binp = kani.build_replay(prof, True, log_dir)
            rc, out, _, to = common.run([binp, "emitrust", path], timeout=60)
            m = re.search(rx, out, re.S)
            if not m:
                texts.append(f"[{prof}] {src.strip().splitlines()[-1].strip()}: no generated expression ({out.strip()[-100:]})")
                broken = broken or "CODEGEN-ERROR" in out
                continue
            res = emit_props.syn_batch([emit_props.rust_tokens(m.group(1))], log_dir)[0]
            if what == "Slice":
                ok = res[0] == "OK" and res[1].endswith(a1 + ")")
            elif a2 is None:
                ok = res[0] == "OK" and re.match(r"^\((un-|un!) a\)$", res[1]) is not None and (("un-" in res[1]) == (what == "Neg"))
            else:
                ok = res[0] == "OK" and re.match(r"^\(\S+ " + a1 + " " + a2 + r"\)$", res[1]) is not None
            broken = broken or not ok
            texts.append(f"[{prof}] `{src.strip().splitlines()[-1].strip()}` generated `{' '.join(m.group(1).split())}` -> {res[1]}")
    return broken, "; ".join(texts)


# ---- `Name(args)`: validated-newtype rewrite / struct construction (C17 kernel, C13 constructor detection) -----------------------
def run_ctor(P, R, mp, log_dir, bound=2):
    """Call arm of AstLowering::lower_expr for a callee that is a plain identifier."""
    import tc_props
    t0 = time.time()
    fs = [v for k, v in P.fns.items() if re.search(r"lower::expr::<impl at [^>]*>::lower_expr$", k)]
    if len(fs) != 1:
        raise Inconclusive("AstLowering::lower_expr not found (or ambiguous) in the MIR dump")
    f = fs[0]
    entry = arm_entry(f, "Call")
    ex = mirx.make_executor(P, R, max_paths=2000000)
    ex.opaque_calls = mirx.slice_opaque
    ex.model_sequences = True
    ex.seq_bound = bound
    ex.recursion_bound = 1
    ex.max_steps = 3000
    ex.tolerate_unsupported = True
    ex.summarize = tc_props.SUMMARIZE + [r"::lower_expr$", r"::lower_expr_spanned$", r"::lower_call_args$", r"HashMap::<.*>::(contains_key|get)(::<.*>)?$",
                                         r"impl str>::chars$", r"Chars<.*> as .*Iterator>::next$", r"char::.*is_uppercase$", r"char::methods::.*",
                                         r"BuiltinFn::from_name$", r"PartialEq>::(ne|eq)$", r"fmt::rt::Argument", r"Arguments::<.*>::(new|from_str_nonconst)",
                                         r"must_use", r"IntoIter<.*> as .*Iterator>::map", r"IntoIterator>::into_iter$"]
    selfv = ex.sym_value("AstLowering", "self")
    expr = ex.sym_value("incan_syntax::ast::Expr", "expr")
    evars = mp.variants(R, "incan_syntax::ast::Expr")
    st0 = symex.State()
    k = evars.index("Call")
    st0.facts[expr.tag().term] = ("eq", k)
    st0.pc.append(f"(= {expr.tag().term} {k})")
    callee = expr.child("Call", 0).child(None, 0)       # Box<Spanned<Expr>> -> .node
    IDENT = evars.index("Ident")
    ex.call_stack = [f.name]
    try:
        outs = ex._run(f, [selfv, expr], {}, 0, st0, entry=entry, preset={})
    finally:
        ex.call_stack = []
    args = expr.child("Call", 1)
    name = callee.child("Ident", 0)
    lnames = [x[0] for x in R.resolve("AstLowering").variants[0][1]]
    nt_map = f"sym<{selfv.child(None, lnames.index('newtype_checked_ctor')).name}:"
    st_map = f"sym<{selfv.child(None, lnames.index('struct_names')).name}:"
    cavars = mp.variants(R, "incan_syntax::ast::CallArg")
    bad, n_ok, classes, shapes = [], 0, {}, []
    for o in outs:
        fc = o.state.facts.get(callee.tag().term)
        is_ident = fc and fc[0] == "eq" and fc[1] == IDENT
        if o.kind == "unsupported":
            bad.append((conj(o.pc + [f"(= {callee.tag().term} {IDENT})"]), f"unsupported MIR: {o.info}"))
            continue
        if o.kind != "return":
            bad.append((conj(o.pc + [f"(= {callee.tag().term} {IDENT})"]), f"panic: {o.info}"))
            continue
        if not is_ident:
            continue
        v = ex.deref(o.value, o.state)
        if isinstance(v, Adt) and v.variant == "Err":
            continue
        # the decisions taken on this path (answers of the summarised queries)
        def answer(pred):
            for e in o.events:
                if pred(e):
                    t = e[2]
                    return True if t in o.pc else False if f"(not {t})" in o.pc else None
            return None
        known = answer(lambda e: e[0].endswith("contains_key") and e[1][0].startswith(st_map))
        checked = answer(lambda e: e[0].endswith("contains_key") and e[1][0].startswith(nt_map))
        upper_ev = [e for e in o.events if "is_uppercase" in e[0]]
        upper = None
        if upper_ev:
            t = upper_ev[0][2]
            upper = True if t in o.pc else False if f"(not {t})" in o.pc else None
        outside_impl = answer(lambda e: e[0].endswith("::ne") or e[0].endswith("PartialEq::ne"))
        n = o.state.facts.get("len:" + args.name)
        a0 = mirx.seq_elem(ex, args, 0) if n else None
        a0_pos = None
        if a0 is not None and a0._tag is not None:
            fa = o.state.facts.get(a0.tag().term)
            a0_pos = (fa[0] == "eq" and cavars[fa[1]] == "Positional") if fa else None
        text = mirx.show(v, ex, o.state)
        is_struct = "IrExprKind::Struct(" in text
        expect_ev = [e[2] for e in o.events if e[0].endswith("to_string") and any('"expect"' in a for a in e[1])]
        is_rewrite = text.count("IrExprKind::MethodCall(") >= 2 and any(f"method: sym<{ev}:" in text for ev in expect_ev)
        ctor_site = (known is True) or (upper is True)
        n_ok += 1
        if not ctor_site:
            key = "not a constructor"
            classes[key] = classes.get(key, 0) + 1
            if is_struct or is_rewrite:
                bad.append((conj(o.pc), f"a call of a name that is neither a known struct nor capitalised is lowered as a construction: {text[:160]}"))
            continue
        must_rewrite = checked is True and n == 1 and a0_pos is True and outside_impl is True
        key = "validated newtype construction" if must_rewrite else "plain construction"
        classes[key] = classes.get(key, 0) + 1
        if len(shapes) < 4 and classes[key] == 1:
            shapes.append(f"{key}: {text[:300]}")
        lowered = {}
        for e in o.events:
            if e[0].endswith(("lower_expr", "lower_expr_spanned")) and len(e[1]) >= 2:
                m = re.match(r"^sym<([^:>]+):", e[1][1])
                if m:
                    lowered[e[2]] = m.group(1)
        if must_rewrite:
            # T::<hook>(lower(x)).expect(..): the hook is called on the lowering of THE argument, on the type's own name
            inner_ok = (is_rewrite and not is_struct and f"sym<{name.name}:" in text and "VarRefKind::TypeName" in text
                        and any(ev + ".Ok.0" in text and a0.name in src for ev, src in lowered.items()))
            if not inner_ok and os.environ.get("VERIF_DEBUG"):
                print("DBG", text, lowered, a0.name)
            if not inner_ok:
                bad.append((conj(o.pc), f"`T(x)` of a newtype with a validation hook, outside T's own methods, is lowered to {text[:260]}"))
        else:
            if is_rewrite:
                if checked is True and n == 1 and a0_pos is True and outside_impl is None:
                    continue        # the inside-impl test was not decided on this path (cannot happen: it is the last conjunct)
                bad.append((conj(o.pc), f"a construction that must stay plain ({'inside the own impl' if outside_impl is False else 'no hook / not one positional argument'}) is rewritten: {text[:200]}"))
                continue
            if not is_struct:
                bad.append((conj(o.pc), f"a constructor call is lowered to {text[:200]}"))
                continue
            # fields in argument order, each the lowering of its own argument
            order = []
            for ev, src in lowered.items():
                pos = text.find(ev + ".Ok.0")
                m = re.search(re.escape(args.name) + r"\.e(\d+)\.", src)
                if pos >= 0 and m:
                    order.append((pos, int(m.group(1))))
            got_order = [i for _, i in sorted(order)]
            if got_order != list(range(n or 0)):
                bad.append((conj(o.pc), f"struct fields are built from arguments {got_order}, the call has {n} arguments in order"))
    r = {"id": "X-lower_ctor", "engine": "E2-X mirsmt (slice)",
         "statement": "lowering of `Name(args)`: when Name is a known struct or capitalised it is a construction; if Name has a validation hook "
                      "recorded, the call has exactly one positional argument and the site is not inside Name's own methods, the IR is "
                      "`Name::<hook>(lowering of the argument).expect(..)` (the hook cannot be bypassed); otherwise a struct literal whose fields "
                      "are the lowerings of the arguments in order; other names are never lowered as constructions",
         "bound": f"Call arm of AstLowering::lower_expr with an identifier callee; 0..={bound} arguments, positional or named; the answers of "
                  "struct_names / newtype_checked_ctor lookups, the capitalisation test and the inside-own-impl comparison are arbitrary; which hook is "
                  "recorded (select_newtype_checked_ctor) and the run-time behaviour of the hook are not part of this obligation",
         "encoding": "call expression as a symbolic ADT, argument list as a symbolic sequence, map lookups and string tests as arbitrary booleans",
         "functions_encoded": [n_ + " (MIR)" for n_ in ex.encoded], "paths": len(outs), "compositions": classes, "shapes": shapes}
    r["wall_s"] = round(time.time() - t0, 2)
    if not {"validated newtype construction", "plain construction", "not a constructor"} <= set(classes):
        first = next((w for b, w in bad if b != "false"), "-")
        return native_ctor(r, f"not every case was reached ({classes}); first problem: {first[:300]}", log_dir)
    r["vacuity_ok"] = True
    live = [(b, w) for b, w in bad if b != "false"]
    for b, w in live:
        res = solver.check(mp.smt_lines(ex, [b]), [], "z3", 60)
        if res.status != "unsat":
            return native_ctor(r, w, log_dir)
    r.update(status="held", solver=f"{n_ok} paths follow the documented decision" + (f"; {len(live)} deviating paths infeasible (z3 unsat)" if live else " (syntactic)"))
    return r


CTOR_PROGRAM = '''type Email = newtype str:
    def from_underlying(s: str) -> Result[Email, str]:
        if len(s) == 0:
            return Err("empty")
        return Ok(Email(s))

    def make_raw(s: str) -> Email:
        return Email(s)

type Name = newtype str:
    def from_underlying(s: str) -> Result[Name, str]:
        if len(s) > 100:
            return Err("too long")
        return Ok(Name(s))

    def to_email(s: str) -> Email:
        return Email(s)

model Pair:
    a: int
    b: int

def build(s: str) -> Email:
    return Email(s)

def pair(x: int, y: int) -> Pair:
    return Pair(a=x, b=y)

def _twice(v: int) -> int:
    return v * 2

def use_helper(n: int) -> int:
    return _twice(v=n)
'''


# a construction site textually ABOVE the newtype's declaration (the hook table is filled before any body is lowered)
CTOR_PROGRAM_EARLY = '''def early(n: int) -> int:
    a = Attempts(n)
    return 0

type Attempts = newtype int:
    def from_underlying(n: int) -> Result[Attempts, str]:
        if n < 0:
            return Err("negative")
        return Ok(Attempts(n))
'''


def native_ctor(r, why, log_dir):
    import kani
    os.makedirs(log_dir, exist_ok=True)
    path = os.path.join(log_dir, "ctor_replay.incn")
    with open(path, "w") as fh:
        fh.write(CTOR_PROGRAM)
    texts, broken = [], False
    for prof in ("dev", "release"):
        binp = kani.build_replay(prof, True, log_dir)
        rc, out, _, to = common.run([binp, "emitrust", path], timeout=120)
        src = re.sub(r"\s+", "", out)
        m_build = re.search(r"fnbuild\(s:String\)->Email\{(.*?)\}fn", src)
        m_raw = re.search(r"fnmake_raw\(s:String\)->Email\{(.*?)\}", src)
        m_other = re.search(r"fnto_email\(s:String\)->Email\{(.*?)\}\s*(?:pub)?(?:fn|\}|impl|#)", src)
        ok = ("RUST-END" in out and m_build is not None and "Email::from_underlying(" in m_build.group(1) and ".expect(" in m_build.group(1)
              and m_raw is not None and "from_underlying" not in m_raw.group(1) and re.search(r"Pair\{a:x,b:y,?\}", src) is not None
              and m_other is not None and "Email::from_underlying(" in m_other.group(1)
              and "return_twice(n)" in src.replace("n.clone()", "n"))
        path2 = os.path.join(log_dir, "ctor_replay_early.incn")
        with open(path2, "w") as fh:
            fh.write(CTOR_PROGRAM_EARLY)
        rc2, out2, _, _to2 = common.run([binp, "emitrust", path2], timeout=120)
        src2 = re.sub(r"\s+", "", out2)
        m_early = re.search(r"fnearly\(n:i64\)->i64\{(.*?)\}", src2)
        if not ("RUST-END" in out2 and m_early is not None and "Attempts::from_underlying(" in m_early.group(1)):
            broken = True
            texts.append(f"[{prof}] early() (construction above the declaration): {m_early.group(1)[:120] if m_early else out2.strip()[-160:]}")
        if not ok:
            broken = True
            texts.append(f"[{prof}] build(): {m_build.group(1)[:120] if m_build else None}; make_raw(): {m_raw.group(1)[:80] if m_raw else None}; Name.to_email(): {m_other.group(1)[:120] if m_other else None}; ...{out.strip()[-200:] if 'RUST-END' not in out else ''}")
    text = "; ".join(texts) or "Email(s) outside the type - also inside ANOTHER validated newtype's method - goes through from_underlying(..).expect(..), inside its own method it stays plain, Pair(a=x, b=y) is a struct literal"
    r["native"] = text
    if broken:
        os.makedirs(os.path.join(common.REPLAYS_DIR, "MIRX"), exist_ok=True)
        rp = os.path.join(common.REPLAYS_DIR, "MIRX", r["id"] + ".replay")
        with open(rp, "w") as fh:
            fh.write(f"mirx ctor\n# {r['statement']}\n# solver: {why[:400]}\n# native: {text}\n")
        r.update(status="violated", replay=rp, counterexample={"path": why[:500], "native": text})
    else:
        r.update(status="inconclusive", reason=f"a feasible path deviates ({why[:300]}) but the construction program is emitted as documented")
    return r


def replay_ctor(pid, line, path):
    r = native_ctor({"id": "replay", "statement": ""}, "", os.path.join(common.WORK_DIR, pid, "replay"))
    say(r.get("native", ""))
    if r.get("status") == "violated":
        say(f"VIOLATION property={pid} replay={path}")
        return 1
    return 0
