"""E2-X obligations on small orchestration functions whose environment (file system, formatter, printing) is a set of uninterpreted
calls: `check_formatted` and `format_files` (C09), `ProjectGenerator::generate_cargo_toml` / `add_rust_crate` (C12, C15)."""
import os
import re
import time

import common
from common import Inconclusive

import mirx
import solver
import symex
from mir import Unsupported
from symex import Opaque, S


def only_fn(P, suffix):
    c = [v for k, v in P.fns.items() if k.endswith(suffix)]
    if len(c) != 1:
        raise Inconclusive(f"`{suffix}` not found (or ambiguous) in the MIR dump")
    return c[0]


def slice_executor(P, R, bound, summarize=()):
    ex = mirx.make_executor(P, R, max_paths=400000)
    ex.opaque_calls = mirx.slice_opaque
    ex.model_sequences = True
    ex.seq_bound = bound
    ex.tolerate_unsupported = True
    ex.max_steps = 8000
    ex.summarize = tuple(summarize)
    return ex


_FEAS = {}


def prefetch(mp, ex, queries):
    """Decide many (pc + extra) conjunctions in one solver process; results are cached for `feasible`."""
    qs = [symex.conj(list(q)) for q in queries]
    todo = [q for q in dict.fromkeys(qs) if (id(ex), q) not in _FEAS]
    res = solver.check_many(mp.smt_lines(ex, []), [[q] for q in todo], "z3", 600)
    for q, r_ in zip(todo, res):
        if r_ != "inconclusive":
            _FEAS[(id(ex), q)] = r_


def feasible(mp, ex, pc, extra=()):
    q = symex.conj(list(pc) + list(extra))
    r_ = _FEAS.get((id(ex), q))
    if r_ is None:
        r_ = solver.check(mp.smt_lines(ex, [q]), [], "z3", 60).status
        _FEAS[(id(ex), q)] = r_
    return r_ != "unsat"


def result_of(name, r, bad, paths, queries, t0, replay=None):
    r.update(paths=paths, queries=queries, wall_s=round(time.time() - t0, 2))
    if paths == 0 and not bad:
        r.update(status="inconclusive", reason="no feasible path explored (vacuity)")
        return r
    r["vacuity_ok"] = True
    if not bad:
        r.update(status="held", solver=f"{queries} z3 queries; all {paths} feasible paths as documented")
        return r
    why = "; ".join(bad[:4])
    if replay is None:
        r.update(status="inconclusive", reason=f"deviation found ({why[:400]}) but this obligation has no native replay")
        return r
    ok, text = replay()
    r["native"] = text[:600]
    if ok:
        os.makedirs(os.path.join(common.REPLAYS_DIR, "MIRX"), exist_ok=True)
        rp = os.path.join(common.REPLAYS_DIR, "MIRX", name + ".replay")
        with open(rp, "w") as fh:
            fh.write(f"mirx {name}\n# {r['statement'][:300]}\n# solver: {why[:600]}\n# native: {text[:600]}\n")
        r.update(status="violated", replay=rp, counterexample={"path": why[:600], "native": text[:600]})
    else:
        r.update(status="inconclusive", reason=f"deviation found ({why[:300]}) but the native scenario behaves as documented: {text[:200]}")
    return r


def native(mode, log_dir, *args):
    import kani
    texts, broken = [], False
    for prof in ("dev", "release"):
        binp = kani.build_replay(prof, True, log_dir)
        rc, out, _, to = common.run([binp, mode] + list(args), timeout=300)
        bad = [l for l in out.splitlines() if l.startswith("BROKEN")]
        if to or rc not in (0, 1) or not out.strip():
            raise Inconclusive(f"replay {mode} failed (rc={rc}): {out[-300:]}")
        if bad:
            broken = True
            texts.append(f"[{prof}] " + " | ".join(bad[:3]))
    return broken, "; ".join(texts) or f"every {mode} scenario behaves as documented"


# ---- C09: --check agrees with formatting, and check / diff never write ---------------------------------------------------------------
def check_formatted_ob(P, R, mp, log_dir):
    statement = ("check_formatted(src) is Ok(src == format_source(src)) - the comparison is between the INPUT and the formatter's output for that same input - "
                 "and a formatting error is passed on")

    def run():
        t0 = time.time()
        f = only_fn(P, "check_formatted")
        ex = slice_executor(P, R, 1, (r"format_source$",))
        outs = ex.run(f, [Opaque("src")])
        r = {"id": "X-check_formatted", "engine": "E2-X mirsmt", "statement": statement, "bound": "format_source is an uninterpreted call with an arbitrary result",
             "functions_encoded": [n + " (MIR)" for n in ex.encoded]}
        bad, n = [], 0
        for o in outs:
            if not feasible(mp, ex, o.pc):
                continue
            n += 1
            evs = o.state.events
            fs_ = [e for e in evs if e[0].endswith("format_source")]
            if o.kind != "return" or len(fs_) != 1 or fs_[0][1] != ("opaque<src>",):
                bad.append(f"{o.kind}: format_source calls {[(e[0], e[1]) for e in fs_]}")
                continue
            val = mirx.show(o.value, ex, o.state)
            ok_tag = o.state.facts.get(fs_[0][2] + "!tag")
            if ok_tag == ("eq", 1):
                if not val.startswith("Result::Err("):
                    bad.append(f"formatting error swallowed: returns {val[:80]}")
                continue
            eqs = [e for e in evs if e[0].endswith("::eq") or e[0].endswith("::ne")]
            want_args = {("opaque<src>", f"sym<{fs_[0][2]}.Ok.0:String>"), (f"sym<{fs_[0][2]}.Ok.0:String>", "opaque<src>")}
            if len(eqs) != 1 or eqs[0][1] not in want_args:
                bad.append(f"compares {[(e[0], e[1]) for e in eqs]}")
                continue
            res = eqs[0][2] if eqs[0][0].endswith("::eq") else f"(not {eqs[0][2]})"
            if val.replace(" ", "") != f"Result::Ok({res})".replace(" ", ""):
                bad.append(f"returns {val[:100]}, documented Ok({res})")
        return result_of("X-check_formatted", r, bad, n, len(outs), t0, lambda: native("fmtcli", log_dir, os.path.join(common.WORK_DIR, "fmtcli")))
    return mp.XOb("X-check_formatted", statement, "", run)


def format_files_ob(P, R, mp, log_dir, bound):
    statement = ("format_files(path, check, diff): with --check or --diff (or both) no file is ever written; the exit is a failure exactly when some file would change "
                 "(or could not be read / formatted); without them each changed file - and only those - is overwritten once with ITS OWN formatted text")

    def run():
        t0 = time.time()
        f = only_fn(P, "format_files")
        ex = slice_executor(P, R, bound, (r"collect_incn_files$", r"format_source$", r"format_diff$"))
        cm = ex.enc.bool_var("check_mode")
        dm = ex.enc.bool_var("diff_mode")
        outs = ex.run(f, [Opaque("path"), cm, dm])
        r = {"id": "X-format_files", "engine": "E2-X mirsmt", "statement": statement,
             "bound": f"0..={bound} files; both flags symbolic; the file system (read_to_string, write), format_source, the text comparison and printing are uninterpreted "
                      "calls with arbitrary results",
             "functions_encoded": [n + " (MIR)" for n in ex.encoded]}
        bad, n, q = [], 0, 0
        prefetch(mp, ex, [o.pc for o in outs] + [list(o.pc) + ["(or check_mode diff_mode)"] for o in outs] +
                 [list(o.pc) + ["(not (or check_mode diff_mode))"] for o in outs])
        for o in outs:
            q += 1
            if not feasible(mp, ex, o.pc):
                continue
            n += 1
            if o.kind != "return":
                bad.append(f"{o.kind}: {o.info}")
                continue
            evs = o.state.events
            writes = [e for e in evs if e[0].endswith("fs::write")]
            mode_rw = not feasible(mp, ex, o.pc, ["(or check_mode diff_mode)"])     # this path is the rewrite mode only
            q += 1
            if writes and not mode_rw:
                bad.append(f"{len(writes)} fs::write call(s) on a path where --check / --diff can be set")
            # per file: read -> format -> compare
            files, cur = [], None
            for e in evs:
                if e[0].endswith("fs::read_to_string"):
                    cur = {"path": e[1][0], "read": e[2], "fmt": None, "ne": None, "writes": []}
                    files.append(cur)
                elif cur is not None and e[0].endswith("format_source"):
                    cur["fmt"] = e
                elif cur is not None and (e[0].endswith("::ne") or e[0].endswith("::eq")):
                    cur["ne"] = e
                elif cur is not None and e[0].endswith("fs::write"):
                    cur["writes"].append(e)
            nfiles = o.state.facts.get("len:" + next((e[2] for e in evs if e[0].endswith("collect_incn_files")), "?"))
            if nfiles is not None and nfiles != len(files):
                bad.append(f"{nfiles} files collected but {len(files)} read")
            any_changed = any_error = False
            for fl in files:
                read_ok = o.state.facts.get(fl["read"] + "!tag") == ("eq", 0)
                if not read_ok:
                    any_error = True
                    if fl["writes"]:
                        bad.append("a file that could not be read is written")
                    continue
                if fl["fmt"] is None or fl["fmt"][1] != (f"sym<{fl['read']}.Ok.0:String>",):
                    bad.append(f"format_source is not applied to the text read from the file: {fl['fmt'] and fl['fmt'][1]}")
                    continue
                fmt_ok = o.state.facts.get(fl["fmt"][2] + "!tag") == ("eq", 0)
                if not fmt_ok:
                    any_error = True
                    if fl["writes"]:
                        bad.append("a file that could not be formatted is written")
                    continue
                src_t, out_t = f"sym<{fl['read']}.Ok.0:String>", f"sym<{fl['fmt'][2]}.Ok.0:String>"
                if fl["ne"] is None or set(fl["ne"][1]) != {src_t, out_t}:
                    bad.append(f"`changed` does not compare the file's text with its formatted text: {fl['ne'] and fl['ne'][1]}")
                    continue
                neq = fl["ne"][2] if fl["ne"][0].endswith("::ne") else f"(not {fl['ne'][2]})"
                changed = neq in o.pc or (neq.startswith("(not ") and False)
                unchanged = f"(not {neq})" in o.pc
                if not changed and not unchanged:
                    changed = feasible(mp, ex, o.pc, [neq]) and not feasible(mp, ex, o.pc, [f"(not {neq})"])
                    q += 2
                any_changed = any_changed or changed
                if mode_rw:
                    if changed and (len(fl["writes"]) != 1 or fl["writes"][0][1] != (fl["path"], out_t)):
                        bad.append(f"a changed file is written {len(fl['writes'])} times / with {[w[1] for w in fl['writes']]}, documented once with its own formatted text")
                    if changed and fl["writes"] and o.state.facts.get(fl["writes"][0][2] + "!tag") == ("eq", 1):
                        any_error = True
                    if not changed and fl["writes"]:
                        bad.append("an unchanged file is written")
            val = mirx.show(o.value, ex, o.state)
            is_ok = val.startswith("Result::Ok(")
            if nfiles == 0 or (nfiles is None and not files):
                continue
            if mode_rw:
                if is_ok == any_error:
                    bad.append(f"rewrite mode: returns {val[:60]} with any_error={any_error}")
            else:
                should_fail = any_error or (any_changed and not mode_rw)
                # on paths where neither flag is forced the branch structure decides; only assert the forced cases
                only_check = not feasible(mp, ex, o.pc, ["(not (or check_mode diff_mode))"])
                q += 1
                if only_check and is_ok == should_fail:
                    bad.append(f"check/diff mode: returns {val[:60]} although changed={any_changed}, error={any_error}")
        return result_of("X-format_files", r, bad, n, q, t0, lambda: native("fmtcli", log_dir, os.path.join(common.WORK_DIR, "fmtcli")))
    return mp.XOb("X-format_files", statement, "", run)


def build(pid, P, R, tier, log_dir):
    import mirx_props as mp
    obs = []
    if pid in ("C12", "C15"):
        obs.append(cargo_toml_ob(P, R, mp, log_dir, 2 if tier == "quick" else 3, pid))
    if pid == "C12":
        obs.append(mod_decls_ob(P, R, mp, log_dir, 2 if tier == "quick" else 3))
    if pid == "C15":
        obs.append(add_rust_crate_ob(P, R, mp, log_dir))
        obs.append(generate_writes_ob(P, R, mp, log_dir, tier))
    if pid == "C17":
        obs.append(hook_select_ob(P, R, mp, log_dir, 2 if tier == "quick" else 3))
    if pid == "C16":
        obs.append(test_harness_ob(P, R, mp, log_dir))
        obs.append(test_attr_ob(P, R, mp, log_dir))
        obs.append(test_filter_ob(P, R, mp, log_dir))
        obs.append(run_tests_ob(P, R, mp, log_dir, 2 if tier == "quick" else 3))
    if pid == "C09":
        obs.append(check_formatted_ob(P, R, mp, log_dir))
        obs.append(format_files_ob(P, R, mp, log_dir, 2 if tier == "quick" else 3))
    return obs


# ---- C12 / C15: the Cargo.toml dependency table --------------------------------------------------------------------------------------
FEATURE_LINES = {
    # documented pins of the crates the compiler itself adds (docs + property C15)
    "serde": 'serde = { version = "1.0", features = ["derive"] }',
    "serde_json": 'serde_json = "1.0"',
    "axum": 'axum = "0.8"',
}
TOKIO = 'tokio = { version = "1", features = ["rt-multi-thread", "macros", "time", "sync"%s] }'


def cargo_executor(P, R, bound, reverse):
    from symex import Adt, Ref
    ex = slice_executor(P, R, bound)
    ex.model_symmaps = True
    ex.model_maps = True
    ex.model_vecs = True
    ex.symmap_reverse = reverse
    t = dict(mirx.STATE_INTRINSICS)

    def final_ref(r, st):
        while isinstance(r, Ref):
            v = ex._load(r.frame, r.place, st)
            if not isinstance(v, Ref):
                return r
            r = v
        return None

    def map_iter(ex_, callee, args, st):
        m = ex_.deref(args[0], st)
        if not isinstance(m, symex.Sym):
            raise Unsupported(f"iteration over {m!r}")
        out = []
        for n, st2 in mirx.symmap_entries(ex_, m, st):
            order = list(range(n))
            if ex_.symmap_reverse:
                order.reverse()        # HashMap iteration order is arbitrary: the second run visits the entries the other way round
            ents = Adt("Vec", "lit", [symex.Tup([mirx.symmap_key(ex_, m, j), mirx.symmap_val(ex_, m, j)]) for j in order])
            out.append(("return", mirx.SeqIter(ents, 0, n), None, st2))
        return out

    def collect_vec(ex_, callee, args, st):
        it = ex_.deref(args[0], st)
        if not isinstance(it, mirx.SeqIter):
            raise Unsupported(f"collect of {it!r}")
        return [("return", Adt("Vec", "lit", [mirx.seq_elem(ex_, it.seq, k) for k in range(it.lo, it.hi)]), None, st)]

    def deref_mut(ex_, callee, args, st):
        return [("return", args[0], None, st)]

    def sort_by_key0(ex_, callee, args, st):
        """`v.sort_by(|a, b| a.0.cmp(b.0))` / `v.sort()` on (key, value) pairs: every permutation that is ascending in the keys' order (string
        order is abstracted by the order of the strings' ids - equal strings have equal ids)."""
        import itertools
        r = final_ref(args[0], st)
        v = ex_.deref(args[0], st)
        if r is None or not (isinstance(v, Adt) and v.ty == "Vec"):
            raise Unsupported(f"sort of {v!r}")
        els = list(v.fields)
        if len(els) < 2:
            return [("return", symex.Unit(), None, st)]
        ids = [mirx.str_id(ex_, (e.items[0] if isinstance(e, symex.Tup) else e), st) for e in els]
        out = []
        for perm in itertools.permutations(range(len(els))):
            conds = [f"(< {ids[a]} {ids[b]})" for a, b in zip(perm, perm[1:])]
            st2 = st.fork()
            st2.pc += [c for c in conds if c not in st2.pc]
            ex_._store(r.frame, r.place, Adt("Vec", "lit", [els[k] for k in perm]), st2)
            out.append(("return", symex.Unit(), None, st2))
        return out

    def vec_into_iter(ex_, callee, args, st):
        v = ex_.deref(args[0], st)
        if isinstance(v, Adt) and v.ty == "Vec":
            return [("return", mirx.SeqIter(v, 0, len(v.fields)), None, st)]
        return mirx.st_into_iter(ex_, callee, args, st)
    first = {
        r"HashSet::<&str>::new$": mirx.st_set_new,
        r"HashSet::<&str>::insert$": mirx.st_set_insert,
        r"HashSet::<&str>::contains::<.*>$": mirx.st_set_contains,
        r"HashMap::<(std::string::)?String, .*>::iter$": map_iter,
        r"^<&(std::collections::)?HashMap<(std::string::)?String, .*> as (std::iter::)?IntoIterator>::into_iter$": map_iter,
        r"^<(std::collections::)?hash_map::Iter<.*> as (std::iter::)?Iterator>::collect::<(std::vec::)?Vec<.*>>$": collect_vec,
        r"^<(std::vec::)?Vec<.*> as (std::ops::)?DerefMut>::deref_mut$": deref_mut,
        r"^(core|std|alloc)::slice::<impl \[.*\]>::(sort_by|sort_unstable_by)::<.*>$": sort_by_key0,
        r"^(core|std|alloc)::slice::<impl \[.*\]>::(sort|sort_unstable)$": sort_by_key0,
        r"^<(std::vec::)?Vec<.*> as (std::iter::)?IntoIterator>::into_iter$": vec_into_iter,
        r"^<(std::vec::)?(vec::)?IntoIter<.*> as (std::iter::)?Iterator>::next$": mirx.st_iter_next,
    }
    ex.state_intrinsics = {**first, **{k: v for k, v in t.items() if k not in first}}
    return ex


def dep_lines(ex, o):
    """The dependency lines pushed on this path, in order: (name term | constant name, spec description)."""
    evs = o.state.events
    by_res = {e[2]: e for e in evs}
    from mir import split_top
    lines = None
    for e in evs:
        if e[0].endswith("::join") and len(e[1]) == 2 and e[1][1] == 'opaque<const "\\n">':
            m = re.match(r"^Vec::lit\((.*)\)$", e[1][0], re.S)
            lines = split_top(m.group(1)) if m and m.group(1).strip() else []
    if lines is None:
        return [("?", "the dependency lines are not joined with newlines any more")]
    out = []
    for item in lines:
        m = re.match(r"^sym<(ev\d+):String>$", item)
        src = by_res.get(m.group(1)) if m else None
        desc = None
        while src is not None and src[0].endswith("must_use"):
            m2 = re.match(r"^sym<(ev\d+):String>$", src[1][0])
            src = by_res.get(m2.group(1)) if m2 else None
        if src is None:
            out.append(("?", item))
            continue
        if src[0].endswith("to_string"):
            mm = re.match(r'^opaque<const "(.*)">$', src[1][0], re.S)
            text = mm.group(1).encode().decode("unicode_escape") if mm else src[1][0]
            out.append(("const", text))
            continue
        if src[0].endswith("format"):
            am = re.match(r"^sym<(ev\d+):Arguments>$", src[1][0])
            a = by_res.get(am.group(1)) if am else None
            tmpl = a[1][0] if a else "?"
            argl = re.findall(r"sym<(ev\d+):Argument>", a[1][1]) if a and len(a[1]) > 1 else []
            roots = [by_res[x][1][0] if x in by_res else "?" for x in argl]
            out.append(("fmt", tmpl, tuple(roots)))
            continue
        out.append(("?", src[0]))
    return out


def cargo_toml_ob(P, R, mp, log_dir, bound, pid):
    statement = ("ProjectGenerator::generate_cargo_toml, the [dependencies] table: incan_stdlib and incan_derive by path (features `web` / `json` exactly with axum / serde); the "
                 "documented pinned lines for serde + serde_json, axum + tokio(net), tokio exactly when the corresponding need is set; one line `name = spec` for every "
                 "`rust::` crate whose name is none of those - and no second line for one that is; every spec is the recorded version (never `*`); and the sequence of lines "
                 "is the same whichever order the HashMap yields its entries in")

    def run():
        t0 = time.time()
        f = only_fn(P, "generate_cargo_toml")
        runs = []
        for rev in (False, True):
            ex = cargo_executor(P, R, bound, rev)
            g = ex.sym_value("backend::project::ProjectGenerator", "g")
            try:
                outs = ex.run(f, [g])
            except (Unsupported, symex.PathExplosion) as x:
                # the function no longer has a shape the model covers (e.g. a new hash container): the native scenarios decide
                r0 = {"id": "X-cargo_toml", "engine": "E2-X mirsmt", "statement": statement, "bound": "-", "functions_encoded": [n + " (MIR)" for n in ex.encoded]}
                return result_of("X-cargo_toml", r0, [f"generate_cargo_toml is not executable by the model any more: {str(x)[:160]}"], 0, 0, t0, lambda: cargo_native(log_dir, pid))
            # representation invariant of the map (X-add_rust_crate; add_rust_crate_with_version inserts Some): every recorded spec is Some
            outs = [o for o in outs if not any(re.match(r"^g\.6\.v\d+!tag$", str(k)) and v == ("eq", 0) for k, v in o.state.facts.items())]
            runs.append((ex, outs))
        exA, outsA = runs[0]
        r = {"id": "X-cargo_toml", "engine": "E2-X mirsmt", "statement": statement,
             "bound": f"0..={bound} `rust::` crates with symbolic names and recorded specs (invariant: Some), all four flags symbolic; string equality / order = equality / order of symbolic ids "
                      "(decided by z3); format! / join / Path are uninterpreted; the map is iterated in both directions",
             "functions_encoded": [n + " (MIR)" for n in exA.encoded]}
        bad, wild, q, n = [], [], 0, 0
        # constants are pairwise different strings
        for ex, _ in runs:
            consts = [v for k, v in getattr(ex, "str_ids", {}).items() if "const" in k]
            if len(consts) > 1:
                ex.enc.side.append("(distinct " + " ".join(consts) + ")")
        prefetch(mp, exA, [o.pc for o in outsA])
        infos = []
        for ex, outs in runs:
            prefetch(mp, ex, [o.pc for o in outs])
            info = []
            for o in outs:
                if not feasible(mp, ex, o.pc):
                    continue
                if o.kind != "return":
                    bad.append(f"{o.kind}: {o.info}")
                    continue
                info.append((o, dep_lines(ex, o)))
            infos.append(info)
        # ---- content (first run) ----
        sid = lambda ex, key: ex.str_ids.get(key)
        for o, lines in infos[0]:
            n += 1
            flags = {nm: (f"g.{i}" in o.pc) for nm, i in (("serde", 3), ("tokio", 4), ("axum", 5))}
            unknown_flag = [nm for nm, i in (("serde", 3), ("tokio", 4), ("axum", 5)) if f"g.{i}" not in o.pc and f"(not g.{i})" not in o.pc]
            nmap = o.state.facts.get("len:g.6", 0)
            want = []
            feats = (["web"] if flags["axum"] else []) + (["json"] if flags["serde"] else [])
            # naming: [package] name and the [[bin]] / [lib] name are the project's own name, unmodified
            reps = [e for e in o.state.events if e[0].endswith("replace") and len(e[1]) == 3 and "{name}" in e[1][1]]
            if len(reps) != 1 or reps[0][1][2] != "sym<g.1:String>":
                bad.append(f"the target table is named {[e_[1][2][:60] for e_ in reps]}, documented: the project's name as given")
            finals = [e for e in o.state.events if e[0].endswith("Arguments::new") and "[package]" in e[1][0]]
            by_res_ = {e[2]: e for e in o.state.events}
            if finals:
                a0 = re.findall(r"sym<(ev\d+):Argument>", finals[-1][1][1])
                first = by_res_.get(a0[0]) if a0 else None
                if not first or first[1][0] != "sym<g.1:String>":
                    bad.append(f"[package] name is {first and first[1][0][:60]}, documented: the project's name as given")
            else:
                bad.append("the manifest template ([package] ..) is not instantiated on this path")
            if len(lines) < 2 or lines[0][0] != "fmt" or "incan_stdlib = { path" not in lines[0][1] or lines[1][0] != "fmt" or "incan_derive = { path" not in lines[1][1]:
                bad.append(f"the table does not start with incan_stdlib and incan_derive by path: {lines[:2]}")
                continue
            if ("features" in lines[0][1]) != bool(feats):
                bad.append(f"incan_stdlib features {'missing' if feats else 'present'} with needs {flags}")
            fixed = []
            if flags["serde"]:
                fixed += [FEATURE_LINES["serde"], FEATURE_LINES["serde_json"]]
            if flags["axum"]:
                fixed += [FEATURE_LINES["axum"], TOKIO % ', "net"']
            elif flags["tokio"]:
                fixed += [TOKIO % ""]
            got_fixed = [l[1] for l in lines[2:] if l[0] == "const"]
            if got_fixed != fixed and not unknown_flag:
                bad.append(f"needs {flags}: feature crates declared as {got_fixed}, documented {fixed}")
            builtin = ["incan_stdlib", "incan_derive"] + [x.split(" =")[0] for x in fixed]
            rust_lines = [l for l in lines[2:] if l[0] == "fmt"]
            # which map entry does each rust line belong to, and is its spec the entry's own
            seen = []
            for l in rust_lines:
                m = re.match(r"^sym<g\.6\.k(\d+):String>$", l[2][0]) if l[2] else None
                if not m:
                    bad.append(f"a dependency line is not keyed by a `rust::` crate name: {l}")
                    continue
                j = int(m.group(1))
                seen.append(j)
                if len(l[2]) >= 2:
                    if l[2][1] != f"sym<g.6.v{j}.Some.0:String>":
                        bad.append(f"crate #{j} is declared with the spec of another entry: {l[2][1]}")
                elif '"*"' in l[1] or "*" in l[1]:
                    wild.append(f"crate #{j} without a recorded version is declared as `*`")
                else:
                    bad.append(f"crate #{j} is declared without its spec: {l[1][:60]}")
            if len(seen) != len(set(seen)):
                bad.append(f"a `rust::` crate is declared twice: entries {seen}")
            for j in range(nmap):
                kid = sid(exA, f"g.6.k{j}")
                if kid is None:
                    continue
                is_builtin = symex.disj([f"(= {kid} {sid(exA, repr(Opaque(chr(34).join(['const ', b, '']))))})" for b in builtin
                                         if sid(exA, repr(Opaque('const "%s"' % b)))]) if builtin else "false"
                q += 1
                if j in seen and feasible(mp, exA, o.pc, [is_builtin]):
                    bad.append(f"`rust::` crate #{j} gets its own line although its name can equal a crate already declared ({builtin})")
                if j not in seen and feasible(mp, exA, o.pc, [symex.neg(is_builtin)]):
                    bad.append(f"`rust::` crate #{j} gets no line although its name differs from every crate already declared")
        # ---- order independence: compatible paths of the two runs list the same lines in the same order ----
        exB = runs[1][0]
        pairs = 0
        if len(infos) == 2:
            # both executors share variable names (same construction), so a pc of run B can be asserted in run A's context
            # the order of the `rust::` lines does not depend on the feature flags (they are decided before the loop): compare the flag-free paths
            noflags = lambda o_: all(f"(not g.{i})" in o_.pc for i in (3, 4, 5))
            cand = [(oa, la, ob, lb) for (oa, la) in infos[0] if noflags(oa) for (ob, lb) in infos[1] if noflags(ob)
                    and oa.state.facts.get("len:g.6") == ob.state.facts.get("len:g.6") and (oa.state.facts.get("len:g.6") or 0) >= 2]
            for d in exB.enc.decls:
                if d not in exA.enc.decls:
                    exA.enc.decls.append(d)
            for s_ in exB.enc.side:
                if s_ not in exA.enc.side:
                    exA.enc.side.append(s_)
            prefetch(mp, exA, [list(oa.pc) + list(ob.pc) for (oa, la, ob, lb) in cand if la != lb])
            for (oa, la, ob, lb) in cand:
                if la == lb:
                    continue
                q += 1
                pairs += 1
                if feasible(mp, exA, list(oa.pc) + list(ob.pc)):
                    bad.append("the order of the dependency lines follows the map's iteration order: "
                               f"{[l[2][0] if l[0] == 'fmt' and l[2] else l[1][:20] for l in la[2:]]} vs {[l[2][0] if l[0] == 'fmt' and l[2] else l[1][:20] for l in lb[2:]]}")
                    break
        r["pairs_compared"] = pairs
        r["wildcards"] = len(wild)
        kf = [x for x in common.load_known_findings().get("findings", []) if x.get("obligation") == "X-cargo_toml" and x.get("property") == pid]
        res = result_of("X-cargo_toml", r, bad, n, q, t0, lambda: cargo_native(log_dir, pid))
        if res["status"] == "held" and wild:
            if pid == "C15":
                ok, text = cargo_native(log_dir, pid, only_wild=True)
                if kf and ok:
                    res.update(status="known-finding", finding=f"X-cargo_toml: {kf[0]['what'][:220]}", witness=text[:300])
                elif ok:
                    res.update(status="violated", counterexample={"path": wild[0], "native": text[:400]})
                    os.makedirs(os.path.join(common.REPLAYS_DIR, "MIRX"), exist_ok=True)
                    res["replay"] = os.path.join(common.REPLAYS_DIR, "MIRX", "X-cargo_toml.replay")
                    open(res["replay"], "w").write(f"mirx cargotoml\n# {wild[0]}\n# native: {text[:400]}\n")
                else:
                    res.update(status="inconclusive", reason=f"{wild[0]} on a feasible path, but the native scenario shows no `*`")
        return res
    return mp.XOb("X-cargo_toml", statement, "", run)


def cargo_native(log_dir, pid, only_wild=False):
    """Run the public ProjectGenerator in several processes; -> (broken?, text)."""
    import kani
    problems = []
    for prof in ("dev", "release"):
        binp = kani.build_replay(prof, True, log_dir)
        outs = []
        for k in range(5 if prof == "dev" else 2):
            rc, out, _, to = common.run([binp, "cargotoml", os.path.join(common.WORK_DIR, "cargotoml")], timeout=120)
            deps = {m.group(1): m.group(2) for m in re.finditer(r"^DEPS (\S+) (.*)$", out, re.M)}
            refused = {m.group(1): m.group(2).split(",") for m in re.finditer(r"^REFUSED (\S+) (.*)$", out, re.M)}
            if not only_wild and k == 0:
                if re.search(r"^REBUILD stale", out, re.M):
                    problems.append(f"[{prof}] rebuild into the same directory: Cargo.toml still declares the previous build's crates")
                nm = re.search(r"^NAMES (.*)$", out, re.M)
                if nm and set(nm.group(1).split("|")) != {'name = "hello-world"'}:
                    problems.append(f"[{prof}] project `hello-world`: package / binary are named {nm.group(1)}")
            if to or rc != 0 or len(deps) < 5:
                raise Inconclusive(f"replay cargotoml failed (rc={rc}): {out[-200:]}")
            outs.append(deps)
        for name, line in outs[0].items():
            names = [x.split(" =")[0].strip() for x in line.split("|")]
            if only_wild:
                if '"*"' in line:
                    problems.append(f"[{prof}] {name}: {[x for x in line.split('|') if '*' in x]}")
                continue
            if any(o_.get(name) != line for o_ in outs[1:]):
                problems.append(f"[{prof}] {name}: the dependency lines differ between two runs of the same program")
            if len(names) != len(set(names)):
                problems.append(f"[{prof}] {name}: a crate is declared twice: {sorted(x for x in names if names.count(x) > 1)}")
            if name == "web_and_json" and ('"web"' not in line or '"json"' not in line):
                problems.append(f"[{prof}] {name}: incan_stdlib lacks the web / json feature: {line.split('|')[0][:100]}")
            need = {"eight_crates": ["rand", "regex", "anyhow", "log", "bytes", "futures", "itertools", "uuid"], "serde_overlap": ["serde", "serde_json", "chrono"],
                    "axum_tokio_overlap": ["axum", "tokio", "tracing"], "tokio_only": ["tokio", "reqwest", "regex"], "unknown_crate": ["rand", "left_pad"],
                    "all_known": ["serde", "serde_json", "tokio", "time", "chrono", "reqwest", "uuid", "rand", "regex", "anyhow", "thiserror", "tracing", "clap",
                                  "log", "env_logger", "sqlx", "futures", "bytes", "itertools"]}.get(name, [])
            if name != "unknown_crate" and refused.get(name):
                problems.append(f"[{prof}] {name}: crates with a documented pin are refused: {refused[name]}")
            miss = [c for c in need + ["incan_stdlib", "incan_derive"] if c not in names and c not in refused.get(name, [])]
            if miss:
                problems.append(f"[{prof}] {name}: no dependency declared for {miss}")
            if name != "unknown_crate" and '"*"' in line:
                problems.append(f"[{prof}] {name}: a crate with a documented pin is declared as `*`: {[x for x in line.split('|') if '*' in x]}")
            if name == "axum_tokio_overlap" and '"net"' not in line:
                problems.append(f"[{prof}] {name}: tokio lacks the `net` feature although the web framework is used")
    return bool(problems), "; ".join(problems[:4]) or "every scenario: same lines in every process, each crate once, documented pins"


# the known-good table as documented (UnknownCrateError's message lists the names; the pins are the documented ones)
KNOWN_GOOD = {
    "serde": '{ version = "1.0", features = ["derive"] }', "serde_json": '"1.0"',
    "tokio": '{ version = "1", features = ["rt-multi-thread", "macros", "time", "sync"] }',
    "time": '{ version = "0.3", features = ["formatting", "macros"] }', "chrono": '{ version = "0.4", features = ["serde"] }',
    "reqwest": '{ version = "0.11", features = ["json"] }', "uuid": '{ version = "1.0", features = ["v4", "serde"] }', "rand": '"0.8"', "regex": '"1.0"',
    "anyhow": '"1.0"', "thiserror": '"1.0"', "tracing": '"0.1"', "clap": '{ version = "4.0", features = ["derive"] }', "log": '"0.4"', "env_logger": '"0.10"',
    "sqlx": '{ version = "0.7", features = ["runtime-tokio-native-tls", "postgres"] }', "futures": '"0.3"', "bytes": '"1.0"', "itertools": '"0.12"',
}


def add_rust_crate_ob(P, R, mp, log_dir):
    statement = ("ProjectGenerator::add_rust_crate(name): for each of the 19 known-good crates the dependency recorded under `name` is Some(its documented pin); "
                 "for any other name NOTHING is recorded and Err(UnknownCrateError{name}) is returned - so the dependency map never holds an entry without a "
                 "version (the invariant generate_cargo_toml is checked under)")

    def run():
        t0 = time.time()
        f = only_fn(P, ">::add_rust_crate")
        ex = slice_executor(P, R, 1)
        g = ex.sym_value("backend::project::ProjectGenerator", "g")
        try:
            outs = ex.run(f, [g, Opaque("name")])
        except (Unsupported, symex.PathExplosion) as x:
            outs, err = [], str(x)
        r = {"id": "X-add_rust_crate", "engine": "E2-X mirsmt", "statement": statement,
             "bound": "the name is a symbolic string; each comparison `name == \"<crate>\"` is an uninterpreted answer, constrained only by: at most one of them is true",
             "functions_encoded": [n + " (MIR)" for n in ex.encoded]}
        bad, n, seen = [], 0, {}
        if not outs:
            bad.append(f"add_rust_crate is no longer a chain of name comparisons followed by one insert: {locals().get('err', 'no path')}")
        for o in outs:
            evs = o.state.events
            eqs = {e[2]: re.match(r'^opaque<const "(.*)">$', e[1][1]).group(1) for e in evs
                   if e[0].endswith("::eq") and len(e[1]) == 2 and e[1][0] == "opaque<name>" and re.match(r'^opaque<const "(.*)">$', e[1][1])}
            true_ = [c for ev_, c in eqs.items() if ev_ in o.pc]
            if len(true_) > 1:
                continue            # the name equals two different constants: infeasible
            n += 1
            ins = [e for e in evs if e[0].endswith("HashMap::insert")]
            val = mirx.show(o.value, ex, o.state)
            if o.kind != "return":
                bad.append(f"{o.kind}: {o.info}")
                continue
            if not true_:
                if ins:
                    bad.append(f"a name that equals no known-good crate is recorded: {ins[0][1][2][:60]}")
                if not val.startswith("Result::Err("):
                    bad.append(f"a name that equals no known-good crate is accepted (returns {val[:40]})")
                tested = set(eqs.values())
                miss = [c for c in KNOWN_GOOD if c not in tested]
                if miss and not ins:
                    bad.append(f"refused without ever comparing the name with {miss[:4]}")
                continue
            c = true_[0]
            by_res = {e[2]: e for e in evs}
            if len(ins) != 1:
                bad.append(f"`{c}`: {len(ins)} inserts")
                continue
            key, value = ins[0][1][1], ins[0][1][2]
            km = re.match(r"^sym<(ev\d+):String>$", key)
            if not km or by_res[km.group(1)][1] != ("opaque<name>",):
                bad.append(f"`{c}` is recorded under another key: {key}")
            vm = re.match(r"^Option::Some\(sym<(ev\d+):String>\)$", value)
            spec = None
            if vm and by_res.get(vm.group(1)) and by_res[vm.group(1)][0].endswith("to_string"):
                mm = re.match(r'^opaque<const "(.*)">$', by_res[vm.group(1)][1][0], re.S)
                spec = mm.group(1).encode().decode("unicode_escape") if mm else None
            seen[c] = spec
            if c not in KNOWN_GOOD:
                bad.append(f"`{c}` is accepted but is not in the documented known-good list")
            elif spec != KNOWN_GOOD[c]:
                bad.append(f"`{c}` is recorded as {value[:60]} / {spec}, documented pin {KNOWN_GOOD[c]}")
        for c in KNOWN_GOOD:
            if outs and c not in seen:
                bad.append(f"known-good crate `{c}` has no accepting path (the lookup is no longer a chain of comparisons with the documented names)")
        r["table"] = len(seen)
        return result_of("X-add_rust_crate", r, bad, n, len(outs), t0, lambda: cargo_native(log_dir, "C15"))
    return mp.XOb("X-add_rust_crate", statement, "", run)


# ---- C16: the test harness ---------------------------------------------------------------------------------------------------------------------
def field_accesses(text, struct_pat, index, ty_pat):
    """(reads, writes) of field `index` of any local whose declared type matches `struct_pat`, per function, from the MIR text."""
    reads, writes = {}, {}
    cur, locs = None, {}
    proj = re.compile(r"\(\(?\*?(_\d+)\)?\." + str(index) + r": " + ty_pat + r"\)")
    for line in text.splitlines():
        m = re.match(r"^fn (.+?)\((.*)$", line)
        if m:
            cur = m.group(1)
            locs = {a.group(1): a.group(2) for a in re.finditer(r"(_\d+): ([^,)]+(?:<[^>]*>)?)", m.group(2))}
            continue
        m = re.match(r"^\s*let (?:mut )?(_\d+): (.*);$", line)
        if m:
            locs[m.group(1)] = m.group(2)
            continue
        if cur is None:
            continue
        for pm in proj.finditer(line):
            if not re.search(struct_pat, locs.get(pm.group(1), "")):
                continue
            is_write = line.strip().startswith(pm.group(0) + " = ")
            (writes if is_write else reads).setdefault(cur, []).append(line.strip()[:100])
    return reads, writes


def test_harness_ob(P, R, mp, log_dir):
    statement = ("the generated test project actually contains the selected test: the test-mode flag and the selected test function that the runner sets on the code "
                 "generator (set_test_mode / set_test_function) are READ by code generation - a value that is written and never read cannot influence the generated "
                 "Rust, and then `cargo test` in the generated project runs nothing and every test is reported as passed")

    def run():
        t0 = time.time()
        td = R.resolve("IrCodegen")
        if td is None:
            raise Inconclusive("IrCodegen not found in the sources")
        names = [x[0] for x in td.variants[0][1]]
        text = open(os.path.join(common.WORK_DIR, "mir", "incan.mir"), errors="replace").read()
        r = {"id": "X-test_harness", "engine": "E2-X mirsmt", "statement": statement,
             "bound": "frame condition over the MIR of every function of the crate: reads / writes of IrCodegen.test_mode and IrCodegen.test_function through any local of that type",
             "encoding": "MIR field projections"}
        bad, info = [], {}
        for fld, ty in (("test_mode", r"bool"), ("test_function", r"std::option::Option<std::string::String>")):
            if fld not in names:
                bad.append(f"IrCodegen has no field {fld} any more")
                continue
            rd, wr = field_accesses(text, r"IrCodegen", names.index(fld), ty)
            info[fld] = {"written_by": sorted(wr)[:4], "read_by": sorted(rd)[:4]}
            if not wr:
                bad.append(f"{fld} is never written (pattern out of date?)")
            elif not rd:
                bad.append(f"IrCodegen.{fld} is written by {sorted(x.split('::')[-1] for x in wr)} and read by no function: it cannot influence the generated code")
        r["accesses"] = info
        r["wall_s"] = round(time.time() - t0, 2)
        r["vacuity_ok"] = bool(info)
        if not bad:
            r.update(status="held", solver="both fields are read by code generation", paths=len(info))
            return r
        why = "; ".join(bad)
        ok, text_ = testrun_native(log_dir)
        r["native"] = text_[:600]
        kf = [x for x in common.load_known_findings().get("findings", []) if x.get("obligation") == "X-test_harness"]
        if ok and kf:
            r.update(status="known-finding", finding=f"X-test_harness: {kf[0]['what'][:240]}", witness=text_[:300], paths=len(info))
        elif ok:
            os.makedirs(os.path.join(common.REPLAYS_DIR, "MIRX"), exist_ok=True)
            rp = os.path.join(common.REPLAYS_DIR, "MIRX", "X-test_harness.replay")
            open(rp, "w").write(f"mirx testrun\n# {why[:400]}\n# native: {text_[:400]}\n")
            r.update(status="violated", replay=rp, counterexample={"path": why[:400], "native": text_[:400]}, paths=len(info))
        else:
            r.update(status="inconclusive", reason=f"{why[:300]} - but natively: {text_[:200]}", paths=len(info))
        return r
    return mp.XOb("X-test_harness", statement, "", run)


def testrun_native(log_dir):
    """`incan test` (the public run_tests) on a file with one passing and one failing test -> (broken?, text)."""
    import kani
    binp = kani.build_replay("dev", True, log_dir)
    rc, out, _, to = common.run([binp, "testrun", os.path.join(common.WORK_DIR, "testrun")], timeout=900)
    lines = [l for l in out.splitlines() if l.startswith("OK ") or l.startswith("BROKEN ")]
    if to or not lines:
        raise Inconclusive(f"replay testrun failed (rc={rc}): {out[-300:]}")
    bad = [l for l in lines if l.startswith("BROKEN")]
    return bool(bad), " | ".join(bad) or "a failing test is reported as failed, a passing one as passed"


def run_tests_ob(P, R, mp, log_dir, bound):
    statement = ("`incan test`, the verdict loop of run_tests (from the collected tests to the exit status): a test marked @skip is never run; every other test is run "
                 "exactly once, in order, unless --exitfirst stopped the run after a failure; @xfail inverts the verdict (a passing xfail test is a failure, a failing one is "
                 "not); the exit status is a failure exactly when some executed test failed without @xfail or passed with it")

    def run():
        t0 = time.time()
        from symex import Adt
        f = [v for k, v in P.fns.items() if k == "run_tests" or k.endswith("::run_tests")]
        if len(f) != 1:
            raise Inconclusive("run_tests not found (or ambiguous) in the MIR dump")
        f = f[0]
        # entry = the block that creates the `results` vector (the loop over the filtered tests follows)
        entry = next((bb for bb, blk in f.blocks.items() if "Vec::<(TestInfo, TestResult)>::new()" in (blk.term or "")), None)
        if entry is None:
            raise Inconclusive("the verdict loop of run_tests was not found (no `results` vector)")
        src_local = None
        for nm, ty in f.locals.items():
            if ty.replace(" ", "") in ("std::vec::Vec<cli::test_runner::TestInfo>", "std::vec::Vec<TestInfo>"):
                src_local = src_local or nm
        ex = slice_executor(P, R, min(bound, 2), (r"run_single_test$", r"print_test_result$", r"^style", r"discover_", r"Instant::", r"Duration::", r"io::_print", r"fmt::"))
        ex.model_vecs = True
        ex.seq_bounds = {"tests": bound}          # thorough: up to 3 tests, marker lists stay at 0..=2 (the per-test logic is the same for each)
        ex.max_paths = 6000000

        def vec_into_iter(ex_, callee, args, st):
            v = ex_.deref(args[0], st)
            if isinstance(v, Adt) and v.ty == "Vec":
                return [("return", mirx.SeqIter(v, 0, len(v.fields)), None, st)]
            if isinstance(v, symex.Sym):
                return [("return", mirx.SeqIter(v, 0, n), None, st2) for n, st2 in mirx.seq_lengths(ex_, v, st)]
            return mirx.st_into_iter(ex_, callee, args, st)
        first = {r"^<(std::vec::)?Vec<.*> as (std::iter::)?IntoIterator>::into_iter$": vec_into_iter,
                 r"^<(std::vec::)?(vec::)?IntoIter<.*> as (std::iter::)?Iterator>::next$": mirx.st_iter_next}
        ex.state_intrinsics = {**first, **dict(mirx.STATE_INTRINSICS)}
        tests = ex.sym_value("std::vec::Vec<cli::test_runner::TestInfo>", "tests")
        args = [Opaque("path"), ex.enc.bool_var("verbose"), ex.enc.bool_var("stop_on_fail"), ex.enc.bool_var("include_slow"), Opaque("filter"),
                ex.enc.bool_var("use_color"), ex.enc.bool_var("fail_on_empty")]
        # the collected-tests local and the start time are live at the entry: arbitrary values
        live = {nm: tests for nm, ty in f.locals.items() if "Vec<" in ty and "TestInfo>" in ty and "(" not in ty}
        live.update({nm: Opaque("start") for nm, ty in f.locals.items() if ty.strip().endswith("Instant")})
        outs = ex.run_slice(f, entry, live, args)
        r = {"id": "X-run_tests", "engine": "E2-X mirsmt", "statement": statement,
             "bound": f"0..={bound} collected tests with 0..={min(bound, 2)} markers each (every marker kind), every outcome of run_single_test (uninterpreted), --exitfirst symbolic; "
                      "discovery, filtering and printing are outside (the slice starts where the filtered list exists)",
             "functions_encoded": [n + " (MIR)" for n in ex.encoded]}
        mk = [v[0] for v in R.resolve("cli::test_runner::TestMarker").variants]
        rs = [v[0] for v in R.resolve("cli::test_runner::TestResult").variants]
        SKIP, XFAIL, PASSED, FAILED = mk.index("Skip"), mk.index("XFail"), rs.index("Passed"), rs.index("Failed")
        i_markers = [x[0] for x in R.resolve("cli::test_runner::TestInfo").variants[0][1]].index("markers")
        prefetch(mp, ex, [o.pc for o in outs])
        bad, n = [], 0
        for o in outs:
            if not feasible(mp, ex, o.pc):
                continue
            n += 1
            if o.kind != "return":
                bad.append(f"{o.kind}: {o.info}")
                continue
            facts = o.state.facts
            nt = facts.get("len:tests")
            if nt is None:
                bad.append("the collected tests are never traversed")
                continue
            runs = []
            for e in o.state.events:
                if e[0].endswith("run_single_test"):
                    m = re.search(r"tests\.e(\d+)", e[1][0])
                    runs.append((int(m.group(1)) if m else -1, facts.get(e[2] + "!tag")))
            stop = "stop_on_fail" in o.pc
            failed_any, stopped_at = False, None
            order_ok = [k for k, _ in runs] == sorted(k for k, _ in runs) and len({k for k, _ in runs}) == len(runs)
            if not order_ok:
                bad.append(f"tests are run out of order or more than once: {[k for k, _ in runs]}")
            for k in range(nt):
                nm = facts.get(f"len:tests.e{k}.{i_markers}")
                tags = [facts.get(f"tests.e{k}.{i_markers}.e{j}!tag") for j in range(nm or 0)]
                has_skip = any(t == ("eq", SKIP) for t in tags)
                no_skip = nm is not None and all(t is not None and t != ("eq", SKIP) and (t[0] == "eq" or SKIP in t[1]) for t in tags)
                is_xfail = any(t == ("eq", XFAIL) for t in tags)
                res = next((rt for kk, rt in runs if kk == k), None)
                was_run = any(kk == k for kk, _ in runs)
                if stopped_at is not None:
                    if was_run:
                        bad.append(f"--exitfirst: test #{k} is run after test #{stopped_at} failed")
                    continue
                if was_run and not no_skip:
                    bad.append(f"test #{k} is run although " + ("it carries @skip" if has_skip else "one of its markers, which the loop never looked at, may be @skip"))
                if not was_run and not has_skip:
                    bad.append(f"test #{k} is not run although " + ("it carries no @skip" if no_skip else "no @skip marker was found on it"))
                if was_run and res and res[0] == "eq":
                    verdict_fail = (res[1] == FAILED and not is_xfail) or (res[1] == PASSED and is_xfail)
                    failed_any = failed_any or verdict_fail
                    if stop and res[1] == FAILED and not is_xfail:
                        stopped_at = k
            val = mirx.show(o.value, ex, o.state)
            if val.startswith("Result::Ok(") == failed_any and all(rt and rt[0] == "eq" and rt[1] in (PASSED, FAILED) for _, rt in runs):
                bad.append(f"exit status {val[:24]} although failed={failed_any} (runs {[(k, rs[rt[1]]) for k, rt in runs]})")
        return result_of("X-run_tests", r, bad, n, len(outs), t0, lambda: testrun_native(log_dir))
    return mp.XOb("X-run_tests", statement, "", run)


def mod_decls_ob(P, R, mp, log_dir, bound):
    statement = ("ProjectGenerator::generate_multi: the `mod <name>;` declarations inserted into main.rs are the same sequence whichever order the module HashMap yields "
                 "its entries in (they are sorted by name), and there is exactly one per module")

    def run():
        t0 = time.time()
        from symex import Adt
        f = only_fn(P, ">::generate_multi")
        runs = []
        for rev in (False, True):
            ex = cargo_executor(P, R, bound, rev)
            ex.summarize = tuple(ex.summarize) + (r"generate_cargo_toml$", r"fs::", r"Path", r"str>::find", r"String::insert", r"String::push_str$", r"fmt::format", r"^format$")

            def map_keys(ex_, callee, args, st, _ex=ex):
                m = ex_.deref(args[0], st)
                if not isinstance(m, symex.Sym):
                    raise Unsupported(f"keys of {m!r}")
                out = []
                for n_, st2 in mirx.symmap_entries(ex_, m, st):
                    order = list(range(n_))
                    if ex_.symmap_reverse:
                        order.reverse()
                    out.append(("return", mirx.SeqIter(Adt("Vec", "lit", [mirx.symmap_key(ex_, m, j) for j in order]), 0, n_), None, st2))
                return out

            def collect_keys(ex_, callee, args, st):
                it = ex_.deref(args[0], st)
                if not isinstance(it, mirx.SeqIter):
                    raise Unsupported(f"collect of {it!r}")
                return [("return", Adt("Vec", "lit", [mirx.seq_elem(ex_, it.seq, k) for k in range(it.lo, it.hi)]), None, st)]

            def collect_string(ex_, callee, args, st):
                """`iter.map(f).collect::<String>()`: the pieces in order (event CONCAT), result opaque"""
                mi = ex_.deref(args[0], st)
                if not isinstance(mi, mirx.MapIter):
                    raise Unsupported(f"collect::<String> of {mi!r}")
                fcl = mirx._closure_fn(ex_, mi.ctext)
                res, work = [], [(mi.inner.lo, [], st)]
                while work:
                    k, acc, s1 = work.pop()
                    if k >= mi.inner.hi:
                        s2 = s1.fork()
                        s2.events.append(("CONCAT", tuple(acc), "concat"))
                        res.append(("return", Opaque("mods"), None, s2))
                        continue
                    for o in ex_.run(fcl, [mi.env, mirx.iter_elem(ex_, mi.inner, k)], {}, 1, s1):
                        if o.kind != "return":
                            res.append((o.kind, o.value, o.info, o.state))
                        else:
                            # the piece is the result of format!("mod {};\n", name): identify it by the name it displays
                            shown = [e for e in o.state.events if e[0].endswith("new_display")]
                            work.append((k + 1, acc + [shown[-1][1][0] if shown else mirx.show(o.value, ex_, o.state)], o.state))
                return res

            def slice_iter_any(ex_, callee, args, st):
                v = ex_.deref(args[0], st)
                if isinstance(v, Adt) and v.ty == "Vec":
                    return [("return", mirx.SeqIter(v, 0, len(v.fields)), None, st)]
                return mirx.st_slice_iter(ex_, callee, args, st)
            def map_is_empty(ex_, callee, args, st):
                m = ex_.deref(args[0], st)
                if not isinstance(m, symex.Sym):
                    raise Unsupported(f"is_empty of {m!r}")
                return [("return", S("bool", "true" if n_ == 0 else "false"), None, st2) for n_, st2 in mirx.symmap_entries(ex_, m, st)]
            first = {
                r"HashMap::<(std::string::)?String, (std::string::)?String>::is_empty$": map_is_empty,
                r"HashMap::<(std::string::)?String, (std::string::)?String>::keys$": map_keys,
                r"^<(std::collections::)?hash_map::Keys<.*> as (std::iter::)?Iterator>::collect::<(std::vec::)?Vec<.*>>$": collect_keys,
                r"^<Map<.*> as (std::iter::)?Iterator>::collect::<(std::string::)?String>$": collect_string,
                r"^(core|std)::slice::<impl \[.*\]>::iter$": slice_iter_any,
            }
            ex.state_intrinsics = {**first, **{k: v for k, v in ex.state_intrinsics.items() if k not in first}}
            g = ex.sym_value("backend::project::ProjectGenerator", "g")
            mods = ex.sym_value("std::collections::HashMap<std::string::String, std::string::String>", "mods")
            outs = ex.run(f, [g, Opaque("main_code"), mods])
            runs.append((ex, outs))
        exA, exB = runs[0][0], runs[1][0]
        r = {"id": "X-mod_decls", "engine": "E2-X mirsmt", "statement": statement,
             "bound": f"0..={bound} modules with symbolic names; the file system, Cargo.toml generation and the text surgery on main.rs are uninterpreted; the map is iterated in both directions",
             "functions_encoded": [n + " (MIR)" for n in exA.encoded]}
        bad, n, q = [], 0, 0
        infos = []
        for ex, outs in runs:
            prefetch(mp, ex, [o.pc for o in outs])
            info = []
            for o in outs:
                if not feasible(mp, ex, o.pc):
                    continue
                if o.kind != "return":
                    if "attempt to compute" in str(o.info):
                        continue      # position arithmetic on uninterpreted `find` / `len` answers (bounded by the text's length in reality): outside
                    bad.append(f"{o.kind}: {o.info}")
                    continue
                nm = o.state.facts.get("len:mods")
                cc = [e for e in o.state.events if e[0] == "CONCAT"]
                val = mirx.show(o.value, ex, o.state)
                if nm and val.startswith("Result::Ok") and (len(cc) != 1 or len(cc[0][1]) != nm or len(set(cc[0][1])) != nm):
                    bad.append(f"{nm} modules but the declarations are {cc[0][1] if cc else None}")
                info.append((o, cc[0][1] if cc else None, nm))
            infos.append(info)
        n = len(infos[0])
        for d in exB.enc.decls:
            if d not in exA.enc.decls:
                exA.enc.decls.append(d)
        for s_ in exB.enc.side:
            if s_ not in exA.enc.side:
                exA.enc.side.append(s_)
        cand = [(oa, la, ob, lb) for (oa, la, na) in infos[0] for (ob, lb, nb) in infos[1] if na == nb and (na or 0) >= 2 and la is not None and lb is not None and la != lb]
        prefetch(mp, exA, [list(oa.pc) + list(ob.pc) for (oa, la, ob, lb) in cand])
        for (oa, la, ob, lb) in cand:
            q += 1
            if feasible(mp, exA, list(oa.pc) + list(ob.pc)):
                bad.append(f"the order of the `mod` declarations follows the map's iteration order: {la} vs {lb}")
                break
        r["pairs_compared"] = len(cand)
        return result_of("X-mod_decls", r, bad, n, q + sum(len(i) for i in infos), t0, lambda: mods_native(log_dir))
    return mp.XOb("X-mod_decls", statement, "", run)


def mods_native(log_dir):
    """generate_multi in several processes: the `mod` lines of main.rs must be identical and complete -> (broken?, text)"""
    import kani
    problems = []
    for prof in ("dev", "release"):
        binp = kani.build_replay(prof, True, log_dir)
        seen = []
        for k in range(5 if prof == "dev" else 2):
            rc, out, _, to = common.run([binp, "cargotoml", os.path.join(common.WORK_DIR, "cargotoml")], timeout=120)
            m = re.search(r"^MODS multi (.*)$", out, re.M)
            if to or rc != 0 or not m:
                raise Inconclusive(f"replay cargotoml failed (rc={rc}): {out[-200:]}")
            seen.append(m.group(1))
        if len(set(seen)) > 1:
            problems.append(f"[{prof}] main.rs differs between runs of the same project: {seen[0][:80]} vs {next(x for x in seen if x != seen[0])[:80]}")
        names = [x.replace("pub ", "").replace("mod ", "").rstrip(";") for x in seen[0].split("|")]
        want = ["alpha", "beta", "config", "db", "handlers", "models", "utils", "zeta"]
        if sorted(names) != want:
            problems.append(f"[{prof}] main.rs declares {names}, the project has {want}")
    return bool(problems), "; ".join(problems[:3]) or "generate_multi: the same eight `mod` lines in every process"


# ---- C17: which hook is recorded for a newtype ---------------------------------------------------------------------------------------------------
def hook_select_ob(P, R, mp, log_dir, bound):
    statement = ("AstLowering::select_newtype_checked_ctor: the validation hook recorded for a newtype is, among its STATIC methods named from_* that take exactly the "
                 "underlying type and return Result[<the newtype>, _] (the candidates): `from_underlying` if it is one of them, else the only candidate if there is exactly "
                 "one, else none - whatever other methods (other shapes, other names, with a receiver) the newtype has")

    def run():
        import itertools
        t0 = time.time()
        f = only_fn(P, "::select_newtype_checked_ctor")
        ex = slice_executor(P, R, bound, (r"PartialEq>::eq$", r"PartialEq<.*>>::eq$", r"collections::from_str$", r"str>::starts_with", r"tracing", r"Level", r"Callsite", r"Interest",
                                            r"FieldSet", r"Arguments", r"^display", r"^debug", r"ValueSet", r"Metadata"))
        ex.model_vecs = True
        ex.recursion_bound = 0
        n_ = ex.sym_value("incan_syntax::ast::NewtypeDecl", "n")
        outs = ex.run(f, [n_])
        nt = [x[0] for x in R.resolve("incan_syntax::ast::NewtypeDecl").variants[0][1]]
        md = [x[0] for x in R.resolve("incan_syntax::ast::MethodDecl").variants[0][1]]
        iM, iU, iN = nt.index("methods"), nt.index("underlying"), nt.index("name")
        jN, jR, jP, jT = md.index("name"), md.index("receiver"), md.index("params"), md.index("return_type")
        tyv = [v[0] for v in R.resolve("incan_syntax::ast::Type").variants]
        GEN, SIMPLE = tyv.index("Generic"), tyv.index("Simple")
        r = {"id": "X-select_hook", "engine": "E2-X mirsmt", "statement": statement,
             "bound": f"newtypes with 0..={bound} methods (receiver present / absent, 0..={bound} parameters, any return type shape); name tests, type equality and the built-in "
                      "name lookup are uninterpreted answers; an answer the code never asked for is free (any value that makes the recorded hook wrong is a deviation)",
             "functions_encoded": [n + " (MIR)" for n in ex.encoded]}
        prefetch(mp, ex, [o.pc for o in outs])
        bad, n = [], 0
        for o in outs:
            if not feasible(mp, ex, o.pc):
                continue
            n += 1
            if o.kind != "return":
                bad.append(f"{o.kind}: {o.info}")
                continue
            facts, evs = o.state.facts, o.state.events
            nm = facts.get(f"len:n.{iM}")
            if nm is None:
                bad.append("the methods are never examined")
                continue

            def ans(e):
                return True if e[2] in o.pc else False if f"(not {e[2]})" in o.pc else None
            cand, isfu = [], []
            for k in range(nm):
                m = f"n.{iM}.e{k}.0"
                rt = facts.get(f"{m}.{jR}!tag")
                static = None if not rt or rt[0] != "eq" else (rt[1] == 0)
                sw = next((ans(e) for e in evs if e[0].endswith("starts_with") and f"sym<{m}.{jN}:" in e[1][0]), None)
                pl = facts.get(f"len:{m}.{jP}")
                if pl is not None and pl != 1:
                    param = False
                else:
                    param = next((ans(e) for e in evs if e[0].endswith("eq") and len(e[1]) == 2 and f"sym<{m}.{jP}.e0." in e[1][0] and f"sym<n.{iU}." in e[1][1]), None)
                rty = f"{m}.{jT}.0"
                tg = facts.get(f"{rty}!tag")
                ret = None
                if tg and ((tg[0] == "eq" and tg[1] != GEN) or (tg[0] == "ne" and GEN in tg[1])):
                    ret = False
                else:
                    cmp_ = next((e for e in evs if (e[0].endswith("::ne") or e[0].endswith("::eq")) and len(e[1]) == 2 and
                                 any(x[2] in e[1][0] for x in evs if x[0].endswith("from_str") and f"sym<{rty}.Generic.0:" in x[1][0])), None)
                    is_result = None if cmp_ is None or ans(cmp_) is None else (ans(cmp_) != cmp_[0].endswith("::ne"))
                    al = facts.get(f"len:{rty}.Generic.1")
                    a0 = facts.get(f"{rty}.Generic.1.e0.0!tag")
                    nameeq = next((ans(e) for e in evs if e[0].endswith("eq") and len(e[1]) == 2 and f"sym<{rty}.Generic.1.e0.0.Simple.0:" in e[1][0] + e[1][1] and f"sym<n.{iN}:" in e[1][0] + e[1][1]), None)
                    if is_result is False or al == 0 or (a0 and ((a0[0] == "eq" and a0[1] != SIMPLE) or (a0[0] == "ne" and SIMPLE in a0[1]))) or nameeq is False:
                        ret = False
                    elif is_result and nameeq:
                        ret = True
                tests = [static, sw, param, ret]
                cand.append(False if any(t is False for t in tests) else True if all(t is True for t in tests) else None)
                isfu.append(next((ans(e) for e in evs if e[0].endswith("eq") and len(e[1]) == 2 and f"sym<{m}.{jN}:" in e[1][0] + e[1][1] and "from_underlying" in (e[1][0] + e[1][1]).lower()), None))
            val = mirx.show(o.value, ex, o.state)
            got = None
            mm = re.search(r"n\.%d\.e(\d+)\.0\.%d" % (iM, jN), val)
            if val.startswith("Option::Some") or "Some(" in val:
                src = val
                if mm is None:      # the name went through a summarised clone: find the event
                    em = re.search(r"sym<(ev\d+):", val)
                    ev_ = next((e for e in evs if em and e[2] == em.group(1)), None)
                    src = ev_[1][0] if ev_ else val
                    mm = re.search(r"n\.%d\.e(\d+)\.0\.%d" % (iM, jN), src)
                got = int(mm.group(1)) if mm else -1
            # every completion of the unasked answers must give the recorded hook
            free_c = [k for k in range(nm) if cand[k] is None]
            free_f = [k for k in range(nm) if isfu[k] is None]
            wrong = None
            for cv in itertools.product([True, False], repeat=len(free_c)):
                c = list(cand)
                for k, v in zip(free_c, cv):
                    c[k] = v
                for fv in itertools.product([True, False], repeat=len(free_f)):
                    fu = list(isfu)
                    for k, v in zip(free_f, fv):
                        fu[k] = v
                    cs = [k for k in range(nm) if c[k]]
                    first_fu = next((k for k in cs if fu[k]), None)
                    want = first_fu if first_fu is not None else (cs[0] if len(cs) == 1 else None)
                    if want != got and not (want is not None and got is not None and want != got and fu[want] and fu[got] and c[got]):
                        wrong = (want, got, c, fu)
                        break
                if wrong:
                    break
            if wrong:
                bad.append(f"{nm} methods, candidates {wrong[2]}, named from_underlying {wrong[3]}: documented hook = method #{wrong[0]}, recorded = "
                           f"{'none' if got is None else 'method #' + str(got)}")
        return result_of("X-select_hook", r, bad, n, len(outs), t0, lambda: hook_native(log_dir))
    return mp.XOb("X-select_hook", statement, "", run)


HOOK_PROGRAMS = [
    # (name, source, function whose body must / must not go through the hook, expected hook call or None)
    ("from_underlying_only", "type A = newtype int:\n    def from_underlying(n: int) -> Result[A, str]:\n        return Ok(A(n))\n\ndef mk(n: int) -> A:\n    return A(n)\n", "A::from_underlying("),
    ("single_from_star", "type E = newtype str:\n    def from_str(s: str) -> Result[E, str]:\n        return Ok(E(s))\n\ndef mk(s: str) -> E:\n    return E(s)\n", "E::from_str("),
    ("from_star_next_to_other_shape", "type E = newtype str:\n    def from_str(s: str) -> Result[E, str]:\n        return Ok(E(s))\n\n    def from_parts(a: str, b: str) -> E:\n        return E(a)\n\ndef mk(s: str) -> E:\n    return E(s)\n", "E::from_str("),
    ("prefers_from_underlying", "type E = newtype str:\n    def from_str(s: str) -> Result[E, str]:\n        return Ok(E(s))\n\n    def from_underlying(s: str) -> Result[E, str]:\n        return Ok(E(s))\n\ndef mk(s: str) -> E:\n    return E(s)\n", "E::from_underlying("),
    ("two_candidates_no_hook", "type E = newtype str:\n    def from_a(s: str) -> Result[E, str]:\n        return Ok(E(s))\n\n    def from_b(s: str) -> Result[E, str]:\n        return Ok(E(s))\n\ndef mk(s: str) -> E:\n    return E(s)\n", None),
    ("instance_method_is_no_hook", "type E = newtype str:\n    def from_x(self, s: str) -> Result[E, str]:\n        return Ok(E(s))\n\ndef mk(s: str) -> E:\n    return E(s)\n", None),
    ("wrong_param_type_is_no_hook", "type E = newtype str:\n    def from_n(n: int) -> Result[E, str]:\n        return Ok(E(\"x\"))\n\ndef mk(s: str) -> E:\n    return E(s)\n", None),
]


def hook_native(log_dir):
    import kani
    os.makedirs(log_dir, exist_ok=True)
    problems = []
    for prof in ("dev", "release"):
        binp = kani.build_replay(prof, True, log_dir)
        for name, src, want in HOOK_PROGRAMS:
            path = os.path.join(log_dir, f"hook_{name}.incn")
            open(path, "w").write(src)
            rc, out, _, to = common.run([binp, "emitrust", path], timeout=120)
            flat = re.sub(r"\s+", "", out)
            m = re.search(r"fnmk\([^)]*\)->\w+\{(.*?)\}", flat)
            body = m.group(1) if m else ""
            if "RUST-END" not in out or not m:
                problems.append(f"[{prof}] {name}: {out.strip()[-120:]}")
            elif want and want not in body:
                problems.append(f"[{prof}] {name}: construction does not go through {want}..): {body[:80]}")
            elif not want and "::from_" in body:
                problems.append(f"[{prof}] {name}: construction goes through a hook although none qualifies: {body[:80]}")
    return bool(problems), "; ".join(problems[:4]) or f"{len(HOOK_PROGRAMS)} newtypes: the documented hook (or none) is the one used at the construction site"


def test_attr_ob(P, R, mp, log_dir):
    statement = ("IrEmitter::emit_function: the function the runner selected (test_function == Some(its name)) is emitted with `#[test]` on EVERY path - whatever its return "
                 "type, parameters, visibility or async-ness - and no other function is")

    def run():
        import emit_props
        t0 = time.time()
        f = only_fn(P, "::emit_function")
        ex = emit_props.atom_executor(P, R)
        ex.model_sequences = True
        ex.seq_bound = 1
        ex.tolerate_unsupported = True
        ex.summarize = [r"collect_mutated_params$", r"emit_visibility$", r"emit_type$", r"::emit_stmt$", r"escape_keyword$", r"RefCell", r"format_ident", r"Ident::new",
                        r"PartialEq.*::eq$", r"as_deref$"]
        selfv = ex.sym_value("IrEmitter", "self")
        func = ex.sym_value("backend::ir::decl::IrFunction", "func")
        outs = ex.run(f, [selfv, func])
        td = R.resolve("IrEmitter")
        names = [x[0] for x in td.variants[0][1]]
        r = {"id": "X-test_attr", "engine": "E2-X mirsmt", "statement": statement,
             "bound": "IrFunction symbolic (return type, flags; 0..=1 parameters and statements - they do not matter here); `self.test_function == Some(name)` an uninterpreted answer",
             "functions_encoded": [n + " (MIR)" for n in ex.encoded]}
        if "test_function" not in names:
            return result_of("X-test_attr", r, ["IrEmitter has no test_function field: the emitter cannot know which function to mark"], 0, 0, t0, lambda: testrun_native(log_dir))
        k = names.index("test_function")
        prefetch(mp, ex, [o.pc for o in outs])
        bad, n = [], 0
        for o in outs:
            if not feasible(mp, ex, o.pc):
                continue
            n += 1
            if o.kind != "return":
                bad.append(f"{o.kind}: {o.info}")
                continue
            if mirx.show(o.value, ex, o.state).startswith("Result::Err"):
                continue            # emission of a body statement failed: nothing is emitted
            toks = emit_props.tokens_of(ex, o) or []
            has = any(toks[i:i + 4] == ["#", "[", "test", "]"] for i in range(len(toks)))
            sel = next((e for e in o.state.events if e[0].endswith("::eq") and len(e[1]) == 2 and f"sym<self.{k}" in e[1][0] + e[1][1]), None)
            chosen = None if sel is None else (True if sel[2] in o.pc else False if f"(not {sel[2]})" in o.pc else None)
            tg = o.state.facts.get(f"self.{k}!tag")
            if chosen is None and tg == ("eq", 0):
                chosen = False          # no test function selected at all
            if chosen is None:
                bad.append("a path never asks whether this is the selected test function" + (" and marks it #[test]" if has else ""))
            elif chosen != has:
                bad.append(f"selected={chosen} but #[test] {'emitted' if has else 'missing'} (path {[p_ for p_ in o.pc if 'tag' in p_ or 'func.' in p_][:4]})")
        return result_of("X-test_attr", r, bad, n, len(outs), t0, lambda: testrun_native(log_dir))
    return mp.XOb("X-test_attr", statement, "", run)


def test_filter_ob(P, R, mp, log_dir):
    statement = ("`incan test` selection: a collected test is executed iff its name contains the -k keyword (when one is given) AND it is not marked @slow unless --slow is "
                 "given - the two conditions are independent")

    def run():
        import itertools
        t0 = time.time()
        cands = [v for k, v in P.fns.items() if re.match(r"^run_tests::\{closure#\d+\}$", k.split("::", 0)[-1] if False else k) or re.search(r"(^|::)run_tests::\{closure#\d+\}$", k)]
        sel = [f for f in cands if len(f.params) == 2 and "&TestInfo" in f.params[1][1].replace(" ", "") and "&&" not in f.params[1][1] and "bool" in (f.ret or "")]
        if len(sel) != 1:
            raise Inconclusive(f"the selection closure of run_tests was not found ({len(sel)} candidates)")
        f = sel[0]
        ex = slice_executor(P, R, 2, (r"str>::contains", r"\]>::contains", r"PartialEq"))
        flt = ex.sym_value("std::option::Option<&str>", "filter")
        slow = ex.enc.bool_var("include_slow")
        # captured variables in the order of the closure's upvars (types tell which is which)
        up = re.findall(r"&(?:'\w+ )?(std::option::Option<&str>|bool)", f.params[0][1])
        env_order = []
        ty0 = f.locals.get(f.params[0][0], f.params[0][1])
        env = symex.Tup([flt, slow])
        test = ex.sym_value("cli::test_runner::TestInfo", "t")
        outs = ex.run(f, [env, test])
        r = {"id": "X-test_filter", "engine": "E2-X mirsmt", "statement": statement,
             "bound": "the selection closure of run_tests on a symbolic test; `name.contains(keyword)` and `markers.contains(Slow)` are uninterpreted answers; an answer "
                      "the code never asked for is free",
             "functions_encoded": [n + " (MIR)" for n in ex.encoded]}
        prefetch(mp, ex, [o.pc for o in outs])
        bad, n = [], 0
        for o in outs:
            if not feasible(mp, ex, o.pc):
                continue
            n += 1
            if o.kind != "return":
                bad.append(f"{o.kind}: {o.info}")
                continue
            v = ex.deref(o.value, o.state)
            if not (isinstance(v, symex.Scalar) and v.term in ("true", "false")):
                got = None
                if isinstance(v, symex.Scalar):
                    got = True if v.term in o.pc else False if f"(not {v.term})" in o.pc else None
                if got is None:
                    bad.append(f"verdict is not decided on the path: {getattr(v, 'term', v)}")
                    continue
            else:
                got = v.term == "true"
            ft = o.state.facts.get("filter!tag")
            has_filter = None if not ft or ft[0] != "eq" else ft[1] == 1
            def ans(pred):
                e = next((e for e in o.state.events if pred(e)), None)
                return None if e is None else (True if e[2] in o.pc else False if f"(not {e[2]})" in o.pc else None)
            kw = ans(lambda e: e[0].endswith("contains") and "t.1" in e[1][0])           # function_name
            sl = ans(lambda e: e[0].endswith("contains") and "t.2" in e[1][0])           # markers
            inc = True if "include_slow" in o.pc else False if "(not include_slow)" in o.pc else None
            frees = [x for x in (("hf", has_filter), ("kw", kw), ("sl", sl), ("inc", inc)) if x[1] is None]
            wrong = None
            for vals in itertools.product([True, False], repeat=len(frees)):
                a = {"hf": has_filter, "kw": kw, "sl": sl, "inc": inc}
                a.update({k: v_ for (k, _), v_ in zip(frees, vals)})
                want = ((not a["hf"]) or a["kw"]) and (a["inc"] or not a["sl"])
                if want != got:
                    wrong = a
                    break
            if wrong:
                bad.append(f"selected={got} although -k given={wrong['hf']}, name matches={wrong['kw']}, @slow={wrong['sl']}, --slow={wrong['inc']}")
        return result_of("X-test_filter", r, bad, n, len(outs), t0, lambda: testrun_native(log_dir))
    return mp.XOb("X-test_filter", statement, "", run)


def generate_writes_ob(P, R, mp, log_dir, tier="quick"):
    statement = ("ProjectGenerator::generate / generate_multi: every successful call WRITES Cargo.toml, and what it writes is the manifest just generated for "
                 "this program (never a stale or skipped manifest), and writes the main source it was given")

    def run():
        t0 = time.time()
        bad, n, enc = [], 0, set()
        for fname, extra in ((">::generate", []),) + (((">::generate_multi", ["mods"]),) if tier != "quick" else ()):
            cands_ = [v for k_, v in P.fns.items() if k_.endswith(fname) and k_.startswith("project::")]
            if len(cands_) != 1:
                raise Inconclusive(f"ProjectGenerator{fname[1:]} not found in the MIR dump")
            f = cands_[0]
            ex = slice_executor(P, R, 1, (r"generate_cargo_toml$", r"fs::", r"Path", r"PathBuf", r"str>::", r"String::", r"fmt::format", r"^format$", r"HashMap::", r"HashSet::",
                                            r"Vec::", r"slice::", r"Iterator>::", r"IntoIterator>::", r"sort", r"Option::", r"Deref>::deref$", r"AsRef"))
            ex.tolerate_unsupported = True
            g = ex.sym_value("backend::project::ProjectGenerator", "g")
            args = [g, Opaque("code")] + [Opaque(x) for x in extra]
            try:
                outs = ex.run(f, args)
            except (Unsupported, symex.PathExplosion) as x:
                bad.append(f"{fname[3:]}: not executable by the model: {str(x)[:120]}")
                continue
            enc |= set(ex.encoded)
            prefetch(mp, ex, [o.pc for o in outs])
            for o in outs:
                if not feasible(mp, ex, o.pc):
                    continue
                n += 1
                if o.kind != "return":
                    if o.kind == "unsupported" or "attempt to compute" in str(o.info):
                        continue        # position arithmetic on uninterpreted text positions: outside
                    bad.append(f"{fname[3:]}: {o.kind}: {o.info}")
                    continue
                if not mirx.show(o.value, ex, o.state).startswith("Result::Ok"):
                    continue
                evs = o.state.events
                gen = [e for e in evs if e[0].endswith("generate_cargo_toml")]
                writes = [e for e in evs if e[0].endswith("fs::write")]
                manifest = [w for w in writes if gen and f"sym<{gen[-1][2]}:String>" in " ".join(w[1])]
                if len(gen) != 1:
                    bad.append(f"{fname[3:]}: the manifest is generated {len(gen)} times on a successful path")
                elif not manifest:
                    bad.append(f"{fname[3:]}: a successful path does not write the manifest it generated (writes: {[w[1][1][:30] for w in writes]})")
                elif not any("Cargo.toml" in " ".join(by[1]) for by in evs if by[0].endswith("join") and any(by[2] in a for a in manifest[0][1])):
                    bad.append(f"{fname[3:]}: the generated manifest is written to {manifest[0][1][0][:60]}, not to <out>/Cargo.toml")
        r = {"id": "X-generate_writes", "engine": "E2-X mirsmt", "statement": statement,
             "bound": "the single-file project writer (thorough: also the flat multi-file one; generate_nested is outside: its path count explodes) with the file system, path arithmetic, containers and text surgery as uninterpreted calls (loops over modules: 0..=1 iteration)",
             "functions_encoded": sorted(n_ + " (MIR)" for n_ in enc)}
        return result_of("X-generate_writes", r, bad, n, n, t0, lambda: cargo_native(log_dir, "C15"))
    return mp.XOb("X-generate_writes", statement, "", run)
