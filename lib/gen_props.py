"""E2-X obligations on small orchestration functions whose environment (file system, formatter, printing) is a set of uninterpreted
calls: `check_formatted` and `format_files` (C09), `ProjectGenerator::generate_cargo_toml` / `add_rust_crate` (C12, C15)."""
import os
import re
import time

import common
from common import Inconclusive

import mirx
import solver
import symex
from mir import Unsupported
from symex import Opaque, S


def only_fn(P, suffix):
    c = [v for k, v in P.fns.items() if k.endswith(suffix)]
    if len(c) != 1:
        raise Inconclusive(f"`{suffix}` not found (or ambiguous) in the MIR dump")
    return c[0]


def slice_executor(P, R, bound, summarize=()):
    ex = mirx.make_executor(P, R, max_paths=400000)
    ex.opaque_calls = mirx.slice_opaque
    ex.model_sequences = True
    ex.seq_bound = bound
    ex.tolerate_unsupported = True
    ex.max_steps = 8000
    ex.summarize = tuple(summarize)
    return ex


_FEAS = {}


def prefetch(mp, ex, queries):
    """Decide many (pc + extra) conjunctions in one solver process; results are cached for `feasible`."""
    qs = [symex.conj(list(q)) for q in queries]
    todo = [q for q in dict.fromkeys(qs) if (id(ex), q) not in _FEAS]
    res = solver.check_many(mp.smt_lines(ex, []), [[q] for q in todo], "z3", 600)
    for q, r_ in zip(todo, res):
        if r_ != "inconclusive":
            _FEAS[(id(ex), q)] = r_


def feasible(mp, ex, pc, extra=()):
    q = symex.conj(list(pc) + list(extra))
    r_ = _FEAS.get((id(ex), q))
    if r_ is None:
        r_ = solver.check(mp.smt_lines(ex, [q]), [], "z3", 60).status
        _FEAS[(id(ex), q)] = r_
    return r_ != "unsat"


def result_of(name, r, bad, paths, queries, t0, replay=None):
    r.update(paths=paths, queries=queries, wall_s=round(time.time() - t0, 2))
    if paths == 0:
        r.update(status="inconclusive", reason="no feasible path explored (vacuity)")
        return r
    r["vacuity_ok"] = True
    if not bad:
        r.update(status="held", solver=f"{queries} z3 queries; all {paths} feasible paths as documented")
        return r
    why = "; ".join(bad[:4])
    if replay is None:
        r.update(status="inconclusive", reason=f"deviation found ({why[:400]}) but this obligation has no native replay")
        return r
    ok, text = replay()
    r["native"] = text[:600]
    if ok:
        os.makedirs(os.path.join(common.REPLAYS_DIR, "MIRX"), exist_ok=True)
        rp = os.path.join(common.REPLAYS_DIR, "MIRX", name + ".replay")
        with open(rp, "w") as fh:
            fh.write(f"mirx {name}\n# {r['statement'][:300]}\n# solver: {why[:600]}\n# native: {text[:600]}\n")
        r.update(status="violated", replay=rp, counterexample={"path": why[:600], "native": text[:600]})
    else:
        r.update(status="inconclusive", reason=f"deviation found ({why[:300]}) but the native scenario behaves as documented: {text[:200]}")
    return r


def native(mode, log_dir, *args):
    import kani
    texts, broken = [], False
    for prof in ("dev", "release"):
        binp = kani.build_replay(prof, True, log_dir)
        rc, out, _, to = common.run([binp, mode] + list(args), timeout=300)
        bad = [l for l in out.splitlines() if l.startswith("BROKEN")]
        if to or rc not in (0, 1) or not out.strip():
            raise Inconclusive(f"replay {mode} failed (rc={rc}): {out[-300:]}")
        if bad:
            broken = True
            texts.append(f"[{prof}] " + " | ".join(bad[:3]))
    return broken, "; ".join(texts) or f"every {mode} scenario behaves as documented"


# ---- C09: --check agrees with formatting, and check / diff never write ---------------------------------------------------------------
def check_formatted_ob(P, R, mp, log_dir):
    statement = ("check_formatted(src) is Ok(src == format_source(src)) - the comparison is between the INPUT and the formatter's output for that same input - "
                 "and a formatting error is passed on")

    def run():
        t0 = time.time()
        f = only_fn(P, "check_formatted")
        ex = slice_executor(P, R, 1, (r"format_source$",))
        outs = ex.run(f, [Opaque("src")])
        r = {"id": "X-check_formatted", "engine": "E2-X mirsmt", "statement": statement, "bound": "format_source is an uninterpreted call with an arbitrary result",
             "functions_encoded": [n + " (MIR)" for n in ex.encoded]}
        bad, n = [], 0
        for o in outs:
            if not feasible(mp, ex, o.pc):
                continue
            n += 1
            evs = o.state.events
            fs_ = [e for e in evs if e[0].endswith("format_source")]
            if o.kind != "return" or len(fs_) != 1 or fs_[0][1] != ("opaque<src>",):
                bad.append(f"{o.kind}: format_source calls {[(e[0], e[1]) for e in fs_]}")
                continue
            val = mirx.show(o.value, ex, o.state)
            ok_tag = o.state.facts.get(fs_[0][2] + "!tag")
            if ok_tag == ("eq", 1):
                if not val.startswith("Result::Err("):
                    bad.append(f"formatting error swallowed: returns {val[:80]}")
                continue
            eqs = [e for e in evs if e[0].endswith("::eq") or e[0].endswith("::ne")]
            want_args = {("opaque<src>", f"sym<{fs_[0][2]}.Ok.0:String>"), (f"sym<{fs_[0][2]}.Ok.0:String>", "opaque<src>")}
            if len(eqs) != 1 or eqs[0][1] not in want_args:
                bad.append(f"compares {[(e[0], e[1]) for e in eqs]}")
                continue
            res = eqs[0][2] if eqs[0][0].endswith("::eq") else f"(not {eqs[0][2]})"
            if val.replace(" ", "") != f"Result::Ok({res})".replace(" ", ""):
                bad.append(f"returns {val[:100]}, documented Ok({res})")
        return result_of("X-check_formatted", r, bad, n, len(outs), t0, lambda: native("fmtcli", log_dir, os.path.join(common.WORK_DIR, "fmtcli")))
    return mp.XOb("X-check_formatted", statement, "", run)


def format_files_ob(P, R, mp, log_dir, bound):
    statement = ("format_files(path, check, diff): with --check or --diff (or both) no file is ever written; the exit is a failure exactly when some file would change "
                 "(or could not be read / formatted); without them each changed file - and only those - is overwritten once with ITS OWN formatted text")

    def run():
        t0 = time.time()
        f = only_fn(P, "format_files")
        ex = slice_executor(P, R, bound, (r"collect_incn_files$", r"format_source$", r"format_diff$"))
        cm = ex.enc.bool_var("check_mode")
        dm = ex.enc.bool_var("diff_mode")
        outs = ex.run(f, [Opaque("path"), cm, dm])
        r = {"id": "X-format_files", "engine": "E2-X mirsmt", "statement": statement,
             "bound": f"0..={bound} files; both flags symbolic; the file system (read_to_string, write), format_source, the text comparison and printing are uninterpreted "
                      "calls with arbitrary results",
             "functions_encoded": [n + " (MIR)" for n in ex.encoded]}
        bad, n, q = [], 0, 0
        prefetch(mp, ex, [o.pc for o in outs] + [list(o.pc) + ["(or check_mode diff_mode)"] for o in outs] +
                 [list(o.pc) + ["(not (or check_mode diff_mode))"] for o in outs])
        for o in outs:
            q += 1
            if not feasible(mp, ex, o.pc):
                continue
            n += 1
            if o.kind != "return":
                bad.append(f"{o.kind}: {o.info}")
                continue
            evs = o.state.events
            writes = [e for e in evs if e[0].endswith("fs::write")]
            mode_rw = not feasible(mp, ex, o.pc, ["(or check_mode diff_mode)"])     # this path is the rewrite mode only
            q += 1
            if writes and not mode_rw:
                bad.append(f"{len(writes)} fs::write call(s) on a path where --check / --diff can be set")
            # per file: read -> format -> compare
            files, cur = [], None
            for e in evs:
                if e[0].endswith("fs::read_to_string"):
                    cur = {"path": e[1][0], "read": e[2], "fmt": None, "ne": None, "writes": []}
                    files.append(cur)
                elif cur is not None and e[0].endswith("format_source"):
                    cur["fmt"] = e
                elif cur is not None and (e[0].endswith("::ne") or e[0].endswith("::eq")):
                    cur["ne"] = e
                elif cur is not None and e[0].endswith("fs::write"):
                    cur["writes"].append(e)
            nfiles = o.state.facts.get("len:" + next((e[2] for e in evs if e[0].endswith("collect_incn_files")), "?"))
            if nfiles is not None and nfiles != len(files):
                bad.append(f"{nfiles} files collected but {len(files)} read")
            any_changed = any_error = False
            for fl in files:
                read_ok = o.state.facts.get(fl["read"] + "!tag") == ("eq", 0)
                if not read_ok:
                    any_error = True
                    if fl["writes"]:
                        bad.append("a file that could not be read is written")
                    continue
                if fl["fmt"] is None or fl["fmt"][1] != (f"sym<{fl['read']}.Ok.0:String>",):
                    bad.append(f"format_source is not applied to the text read from the file: {fl['fmt'] and fl['fmt'][1]}")
                    continue
                fmt_ok = o.state.facts.get(fl["fmt"][2] + "!tag") == ("eq", 0)
                if not fmt_ok:
                    any_error = True
                    if fl["writes"]:
                        bad.append("a file that could not be formatted is written")
                    continue
                src_t, out_t = f"sym<{fl['read']}.Ok.0:String>", f"sym<{fl['fmt'][2]}.Ok.0:String>"
                if fl["ne"] is None or set(fl["ne"][1]) != {src_t, out_t}:
                    bad.append(f"`changed` does not compare the file's text with its formatted text: {fl['ne'] and fl['ne'][1]}")
                    continue
                neq = fl["ne"][2] if fl["ne"][0].endswith("::ne") else f"(not {fl['ne'][2]})"
                changed = neq in o.pc or (neq.startswith("(not ") and False)
                unchanged = f"(not {neq})" in o.pc
                if not changed and not unchanged:
                    changed = feasible(mp, ex, o.pc, [neq]) and not feasible(mp, ex, o.pc, [f"(not {neq})"])
                    q += 2
                any_changed = any_changed or changed
                if mode_rw:
                    if changed and (len(fl["writes"]) != 1 or fl["writes"][0][1] != (fl["path"], out_t)):
                        bad.append(f"a changed file is written {len(fl['writes'])} times / with {[w[1] for w in fl['writes']]}, documented once with its own formatted text")
                    if changed and fl["writes"] and o.state.facts.get(fl["writes"][0][2] + "!tag") == ("eq", 1):
                        any_error = True
                    if not changed and fl["writes"]:
                        bad.append("an unchanged file is written")
            val = mirx.show(o.value, ex, o.state)
            is_ok = val.startswith("Result::Ok(")
            if nfiles == 0 or (nfiles is None and not files):
                continue
            if mode_rw:
                if is_ok == any_error:
                    bad.append(f"rewrite mode: returns {val[:60]} with any_error={any_error}")
            else:
                should_fail = any_error or (any_changed and not mode_rw)
                # on paths where neither flag is forced the branch structure decides; only assert the forced cases
                only_check = not feasible(mp, ex, o.pc, ["(not (or check_mode diff_mode))"])
                q += 1
                if only_check and is_ok == should_fail:
                    bad.append(f"check/diff mode: returns {val[:60]} although changed={any_changed}, error={any_error}")
        return result_of("X-format_files", r, bad, n, q, t0, lambda: native("fmtcli", log_dir, os.path.join(common.WORK_DIR, "fmtcli")))
    return mp.XOb("X-format_files", statement, "", run)


def build(pid, P, R, tier, log_dir):
    import mirx_props as mp
    obs = []
    if pid == "C09":
        obs.append(check_formatted_ob(P, R, mp, log_dir))
        obs.append(format_files_ob(P, R, mp, log_dir, 2 if tier == "quick" else 3))
    return obs
