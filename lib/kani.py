"""E1 — run Kani proof harnesses over the working tree, parse CBMC's verdicts, extract and natively replay
counterexamples."""
import concurrent.futures
import os
import re
import shutil
import threading
import time

from common import (KANI_DIR, REPLAY_DIR, REPLAYS_DIR, REPO, WORK_DIR, Inconclusive, run, say)

KANI_FLAGS = ["-Z", "stubbing"]


class Harness:
    """One proof harness = one obligation."""

    def __init__(self, name, module, functions, bound, what, raises=False, tiers=("quick", "thorough"),
                 timeout_quick=300, timeout_thorough=1800, mem_gb_quick=10, mem_gb_thorough=24,
                 optional_covers=(), needs_compiler=False):
        self.name = name
        self.module = module
        self.functions = functions      # real functions the harness drives (for the evidence)
        self.bound = bound              # human-readable bound
        self.what = what                # the statement decided
        self.raises = raises            # the input space contains a documented-raise class
        self.tiers = tiers
        self.timeout = {"quick": timeout_quick, "thorough": timeout_thorough}
        self.mem = {"quick": mem_gb_quick, "thorough": mem_gb_thorough}
        self.optional_covers = set(optional_covers)
        self.needs_compiler = needs_compiler

    @property
    def path(self):
        return f"{self.module}::{self.name}"


def harness_attrs(module, name):
    """Read the harness's #[kani::...] attributes from the source (so the evidence shows what was really used)."""
    src = open(os.path.join(KANI_DIR, "src", module + ".rs")).read()
    m = re.search(r"((?:\s*#\[[^\n]*\]\n)+)\s*fn " + re.escape(name) + r"\(", src)
    attrs = m.group(1) if m else ""
    unwind = re.search(r"kani::unwind\((\d+)\)", attrs)
    stubs = re.findall(r"kani::stub\(([^,]+),\s*([^)]+)\)", attrs)
    return {"unwind": int(unwind.group(1)) if unwind else None,
            "stubs": [f"{a.strip()} -> {b.strip()}" for a, b in stubs]}


def refresh_lock():
    """Harness crate and replay crate resolve the same versions as /repo."""
    for d in (KANI_DIR, REPLAY_DIR):
        shutil.copyfile(os.path.join(REPO, "Cargo.lock"), os.path.join(d, "Cargo.lock"))


def slot_dir(i):
    return os.path.join(KANI_DIR, f"target-{i}")


def warm_up(nslots, log_dir):
    """Compile the working tree + harness crate once (slot 0), then clone the build into the other slots."""
    refresh_lock()
    t0 = time.time()
    rc, out, dt, to = run(["cargo", "kani"] + KANI_FLAGS + ["--only-codegen", "--target-dir", slot_dir(0)],
                          cwd=KANI_DIR, timeout=1500, log=os.path.join(log_dir, "kani_build.log"))
    if rc != 0 or to:
        tail = "\n".join(out.splitlines()[-40:])
        raise Inconclusive(f"cargo kani --only-codegen failed (rc={rc}, timeout={to}); the working tree does not "
                           f"build under Kani:\n{tail}")
    for i in range(1, nslots):
        rc, out, _, _ = run(["rsync", "-a", "--delete", slot_dir(0) + "/", slot_dir(i) + "/"])
        if rc != 0:
            raise Inconclusive("rsync of the Kani build failed: " + out[-400:])
    return time.time() - t0


CHECK_RE = re.compile(r"^Check (\d+): (.+)\n\t - Status: (\w+)\n\t - Description: \"(.*)\"\n\t - Location: (.*)$", re.M)


def parse_log(out):
    res = {"verdict": None, "checks": 0, "failed": [], "covers": {}, "undetermined": 0, "functions": set(),
           "unwind_failed": False, "cbmc_s": None, "stubs_applied": []}
    m = re.search(r"VERIFICATION:- (SUCCESSFUL|FAILED)", out)
    if m:
        res["verdict"] = m.group(1)
    m = re.search(r"Verification Time: ([\d.]+)s", out)
    if m:
        res["cbmc_s"] = float(m.group(1))
    res["stubs_applied"] = [s.strip() for s in re.findall(r"^\s+- Stub: (.*)$", out, re.M)]
    for cm in CHECK_RE.finditer(out):
        _, cid, status, desc, loc = cm.groups()
        res["checks"] += 1
        fm = re.search(r"repo/(\S+?):(\d+):\d+ in function (.*)$", loc)
        if fm:
            res["functions"].add(f"{fm.group(3)} ({fm.group(1)})")
        if ".cover." in cid:
            # the same cover! may be instantiated several times (inlining): satisfied if any instance is
            prev = res["covers"].get(desc)
            if prev != "SATISFIED":
                res["covers"][desc] = status
        elif status == "FAILURE":
            res["failed"].append({"check": cid, "description": desc, "location": loc})
            if "unwinding assertion" in desc:
                res["unwind_failed"] = True
        elif status == "UNDETERMINED":
            res["undetermined"] += 1
    if re.search(r"Status: ERROR|CBMC failed|out of memory|std::bad_alloc|Killed", out) and res["verdict"] is None:
        res["error"] = True
    return res


def parse_playbacks(out):
    """[(check kind, description, [bytes...])] for every generated concrete-playback test."""
    res = []
    for block in out.split("Concrete playback unit test for")[1:]:
        m = re.search(r"/// Check for `([^`\n]+)`: \"([^\n]*)\"\n", block)
        b = re.search(r"let concrete_vals: Vec<Vec<u8>> = vec!\[(.*?)\n    \];", block, re.S)
        if not m or not b:
            continue
        vals = []
        for v in re.findall(r"vec!\[([^\]]*)\]", b.group(1)):
            v = v.strip()
            vals.append(bytes(int(x) for x in v.split(",") if x.strip()) if v else b"")
        res.append((m.group(1), m.group(2), vals))
    return res


_replay_lock = threading.Lock()
_replay_built = {}


def build_replay(profile, compiler, log_dir):
    """Build the native replay runner against the working tree (dev or release)."""
    import common
    key = (profile, compiler)
    with _replay_lock, common.global_lock("replay-build"):
        if key in _replay_built:
            return _replay_built[key]
        refresh_lock()
        tdir = os.path.join(REPLAY_DIR, "target")
        cmd = ["cargo", "build", "--target-dir", tdir]
        if profile == "release":
            cmd.append("--release")
        if compiler:
            cmd += ["--features", "compiler"]
        rc, out, dt, to = run(cmd, cwd=REPLAY_DIR, timeout=1800,
                              log=os.path.join(log_dir, f"replay_build_{profile}_{int(compiler)}.log"))
        if rc != 0 or to:
            raise Inconclusive(f"native replay runner does not build ({profile}): " + "\n".join(out.splitlines()[-30:]))
        # keep a private copy so that a later build with other features does not swap the binary under us
        src = os.path.join(tdir, "release" if profile == "release" else "debug", "replay")
        dst = os.path.join(tdir, f"replay-{profile}-{int(compiler)}-{os.getpid()}")
        shutil.copyfile(src, dst)
        os.chmod(dst, 0o755)
        _replay_built[key] = dst
        import atexit
        atexit.register(lambda p=dst: os.path.exists(p) and os.remove(p))
        return dst


def native_replay(h, vals, log_dir):
    """Re-run the harness body natively on the counterexample's draws, dev and release profile.
    Returns dict(profile -> (status, line))."""
    hexs = ",".join(v.hex() for v in vals) if vals else "-"
    res = {}
    for profile in ("dev", "release"):
        binp = build_replay(profile, h.needs_compiler, log_dir)
        rc, out, _, to = run([binp, "kani", h.name, hexs], timeout=120)
        line = (out.strip().splitlines() or [""])[-1]
        if to:
            res[profile] = ("timeout", "native replay did not terminate within 120 s")
        elif rc == 1 and "REPRODUCED" in out:
            res[profile] = ("reproduced", line)
        elif rc == 0:
            res[profile] = ("held", line)
        elif rc == 3:
            res[profile] = ("assumption-violated", line)
        else:
            res[profile] = ("error", f"rc={rc} {line}")
    return res, hexs


def witness_search(h, log_dir, iters=3000000):
    """Kani established a failure but could not print values (a limitation for some check kinds): look for a concrete input
    of the harness natively. Only ever used after a FAILED verdict; whatever it finds goes through the normal native replay."""
    for profile in ("dev", "release"):
        binp = build_replay(profile, h.needs_compiler, log_dir)
        rc, out, _, to = run([binp, "search", h.name, "1", str(iters)], timeout=600)
        m = re.search(r"FOUND harness=\S+ after=\d+ valid=\d+ draws=(\S*) failure=", out)
        if m:
            hexs = m.group(1)
            return [bytes.fromhex(x) for x in hexs.split(",")] if hexs else []
    return None


def run_harness(h, tier, slot, log_dir):
    """Decide one harness. Returns a result dict with status in {held, violated, inconclusive}."""
    attrs = harness_attrs(h.module, h.name)
    base = ["cargo", "kani"] + KANI_FLAGS + ["--harness", h.path, "--exact", "--target-dir", slot_dir(slot)]
    log = os.path.join(log_dir, f"{h.name}.log")
    rc, out, dt, to = run(base, cwd=KANI_DIR, timeout=h.timeout[tier], mem_gb=h.mem[tier], log=log)
    r = {"harness": h.name, "statement": h.what, "functions_driven": h.functions, "bound": h.bound,
         "unwind": attrs["unwind"], "stubs": attrs["stubs"], "wall_s": round(dt, 1), "log": log}
    if to:
        r.update(status="inconclusive", reason=f"timeout after {h.timeout[tier]} s (not a pass)")
        return r
    p = parse_log(out)
    r.update(checks=p["checks"], cbmc_s=p["cbmc_s"], covers=p["covers"],
             functions_encoded=sorted(p["functions"]), stubs_applied=p["stubs_applied"])
    if re.search(r"CBMC failed with status|Out of memory|ran out of memory|std::bad_alloc", out):
        r.update(status="inconclusive", reason="CBMC aborted (out of memory / solver failure) - not a verdict")
        return r
    if p["verdict"] is None:
        tail = " | ".join(out.strip().splitlines()[-6:])
        r.update(status="inconclusive", reason=f"no verdict from Kani (rc={rc}; OOM, ICE or build error): {tail[-600:]}")
        return r
    if len(attrs["stubs"]) != len(p["stubs_applied"]):
        r.update(status="inconclusive", reason=f"stubs declared {attrs['stubs']} but Kani applied {p['stubs_applied']}")
        return r
    if p["verdict"] == "SUCCESSFUL":
        # vacuity guard: every reachability witness of the harness must be SATISFIED
        missing = [d for d, s in p["covers"].items() if s != "SATISFIED" and d not in h.optional_covers
                   and not (d == "documented raise reached" and not h.raises)]
        if h.raises and p["covers"].get("documented raise reached") != "SATISFIED":
            missing.append("documented raise reached")
        if missing:
            r.update(status="inconclusive", reason=f"vacuity guard: cover witnesses not satisfied: {sorted(set(missing))}")
            return r
        if p["undetermined"]:
            r.update(status="inconclusive", reason=f"{p['undetermined']} checks undetermined")
            return r
        r.update(status="held", covers_satisfied=sum(1 for s in p["covers"].values() if s == "SATISFIED"))
        return r
    # FAILED: get concrete values and replay natively before believing it
    r["failed_checks"] = p["failed"][:8]
    real_failures = [f for f in p["failed"] if "unwinding assertion" not in f["description"]]
    if not real_failures:
        r.update(status="inconclusive",
                 reason="only unwinding assertions failed: the unwind bound no longer covers the code's loops "
                        "(bound guard; not a pass): " + "; ".join(f["location"] for f in p["failed"][:3]))
        return r
    rc2, out2, dt2, to2 = run(base + ["-Z", "concrete-playback", "--concrete-playback=print"], cwd=KANI_DIR,
                              timeout=h.timeout[tier], mem_gb=h.mem[tier], log=log + ".playback")
    pbs = [pb for pb in parse_playbacks(out2) if pb[0] != "cover"]
    r["wall_s"] = round(dt + dt2, 1)
    tried = []
    if not pbs:
        found = witness_search(h, log_dir)
        if found is None:
            r.update(status="inconclusive", reason="Kani reported a failure (" + "; ".join(f["description"] for f in real_failures[:2]) +
                     ") but printed no concrete values, and the native witness search found no reproducing input")
            return r
        pbs = [("solver verdict + native witness search", real_failures[0]["description"], found)]
    for kind, desc, vals in pbs[:6]:
        rep, hexs = native_replay(h, vals, log_dir)
        tried.append({"check": f"{kind}: {desc}", "draws": hexs, "native": rep})
        if any(v[0] == "reproduced" for v in rep.values()):
            os.makedirs(os.path.join(REPLAYS_DIR, h.module.upper()), exist_ok=True)
            path = os.path.join(REPLAYS_DIR, h.module.upper(), f"{h.name}.replay")
            with open(path, "w") as f:
                f.write(f"kani {h.name} {hexs}\n")
                f.write(f"# harness: {h.path}\n# statement: {h.what}\n# Kani check: {kind}: {desc}\n")
                for prof, (st, line) in rep.items():
                    f.write(f"# native {prof}: {st}: {line}\n")
                f.write(f"# re-run: /verif/check {h.module.upper()} --replay {path}\n")
            r.update(status="violated", replay=path, counterexample=tried[-1])
            return r
    r.update(status="inconclusive", replays=tried,
             reason="Kani's counterexample does not reproduce against the native build in dev or release: "
                    "the encoding or a stub is wrong, or the failure is model-only")
    return r


def run_all(harnesses, tier, nslots, log_dir, seed=0):
    import common
    with common.global_lock("kani"):
        return _run_all(harnesses, tier, nslots, log_dir, seed)


def _run_all(harnesses, tier, nslots, log_dir, seed=0):
    os.makedirs(log_dir, exist_ok=True)
    nslots = max(1, min(nslots, len(harnesses)))
    build_s = warm_up(nslots, log_dir)
    order = list(harnesses)
    if seed:
        import random
        random.Random(seed).shuffle(order)
    # longest first for better packing
    order.sort(key=lambda h: -h.timeout[tier]) if not seed else None
    slots = list(range(nslots))
    lock = threading.Lock()
    results = []

    def work(h):
        with lock:
            s = slots.pop()
        try:
            res = run_harness(h, tier, s, log_dir)
        except Inconclusive as e:
            res = {"harness": h.name, "status": "inconclusive", "reason": str(e)}
        finally:
            with lock:
                slots.append(s)
        say(f"  [{res['status']:>12}] {h.name}  ({res.get('wall_s', '?')} s)" +
            (f"  -- {res.get('reason')}" if res["status"] == "inconclusive" else ""))
        return res

    with concurrent.futures.ThreadPoolExecutor(max_workers=nslots) as ex:
        results = list(ex.map(work, order))
    return results, build_s
