"""Per-property orchestration: run the engines' obligations, write evidence, print verdict lines."""
import os
import time

import common
from common import Inconclusive, say

E1_ASSUMPTIONS = [
    "Kani 0.68 / CBMC 6.11 (cadical) are sound for the compiled MIR; Kani models the dev profile "
    "(overflow checks on); in safe integer code release differs from dev only after an overflow, which is itself reported",
    "build-environment stand-ins in the harness crate only ([patch.crates-io]): backtrace, backtrace-ext (empty), "
    "tracing-attributes (#[instrument] = identity); /repo itself is compiled unchanged from the working tree",
    "every claim is bounded as stated per obligation; unwinding assertions are enabled, so a bound that no longer covers "
    "the code is reported (inconclusive), not truncated",
]


def kani_part(pid, tier, seed, jobs, owner=None, only=None):
    import kani
    import props_kani
    hs = [h for h in props_kani.PROPS.get(pid, []) if tier in h.tiers and (only is None or only(h))]
    if not hs:
        return [], 0.0
    log_dir = os.path.join(common.WORK_DIR, owner or pid, "kani-" + tier)
    say(f"[{pid}] E1/Kani: {len(hs)} harnesses, {jobs} slots, tier {tier}")
    results, build_s = kani.run_all(hs, tier, jobs, log_dir, seed)
    obs = []
    for r in results:
        o = dict(r)
        o["id"] = r["harness"]
        o["engine"] = "E1 kani/cbmc"
        obs.append(o)
    return obs, build_s


def summarize(pid, tier, seed, obligations, assumptions, t0, extra=None, level="model_checking"):
    held = [o for o in obligations if o["status"] == "held"]
    known = [o for o in obligations if o["status"] == "known-finding"]
    viol = [o for o in obligations if o["status"] == "violated"]
    inc = [o for o in obligations if o["status"] == "inconclusive"]
    functions = sorted({f for o in obligations for f in o.get("functions_encoded", [])} |
                       {f for o in obligations for f in o.get("functions_driven", [])})
    samples = []
    for o in obligations[:60]:
        s = {k: o[k] for k in ("id", "engine", "statement", "bound", "status", "wall_s", "unwind", "stubs", "encoding",
                               "solver", "covers_satisfied", "reason", "replay", "witness", "goal", "paths", "queries", "compositions",
                               "distinct_token_classes", "truncated_recursion", "helpers", "shapes", "plan_samples", "samples_tokens",
                               "samples_mismatch") if k in o}
        samples.append(s)
    def units(o):
        """decided units of an obligation: the feasible path classes of a symbolic execution (distinct by their path condition), 1 for a Kani harness / single query"""
        for k in ("classes_checked", "paths"):
            if isinstance(o.get(k), int) and o[k] > 0:
                return o[k]
        return 1
    ok_obs = [o for o in held + known if o.get("covers_satisfied", 1) or o.get("vacuity_ok")]
    nontrivial = sum(units(o) for o in ok_obs)
    coverage = {
        "evaluations": sum(units(o) for o in obligations),
        "distinct_nontrivial": nontrivial,
        "rule": "one evaluation = one unit decided by a solver: a Kani harness decided by CBMC, one SMT query of the numeric encoder, or one feasible path class of an "
                "enum-level symbolic execution (path classes of an obligation are distinct by construction: different path conditions); a unit counts as non-trivial when its "
                "obligation was discharged AND the obligation's vacuity witnesses (kani::cover! / satisfiable twin query / reached-arms check) came back reachable",
        "states": sum(units(o) for o in obligations),
        "transitions": sum((o.get("queries") if isinstance(o.get("queries"), int) else 0) + units(o) for o in obligations),
        "traces_validated_against_impl": len([o for o in obligations if o.get("native") or o.get("replay")]),
        "states_rule": "states = symbolic states at which a verdict was asked (feasible path classes / harness entry states); transitions = solver queries issued plus "
                       "path classes explored; traces_validated_against_impl = obligations whose deviation or finding was replayed against the real build in this run",
        "obligations": len(obligations),
        "discharged": len(held) + len(known),
        "known_findings": len(known),
        "inconclusive": len(inc),
        "samples": samples,
        "functions_encoded": functions,
        "checker_cmd": f"/verif/check {pid} --tier {tier}",
        "trusted_base": ["kani 0.68.0", "cbmc 6.11.0 + cadical", "cvc5 1.0", "z3 4.8.12", "rustc MIR (nightly) as the "
                         "semantics of the source", "/verif/mirsmt encoder", "harness oracles"],
        "solver_wall_s": round(sum(o.get("wall_s", 0) or 0 for o in obligations), 1),
        "exhaustive": False,
        "explanation": "bounded solver-based checking of the real code: within each obligation's stated bound the "
                       "verdict covers every input value; nothing is claimed outside the bounds",
    }
    if extra:
        coverage.update(extra)
    head, dirty = common.repo_head()
    coverage["repo_head"] = head
    coverage["repo_dirty"] = dirty
    wall = time.time() - t0
    path = common.write_evidence(pid, tier, seed, level, coverage, assumptions, wall, len(viol))
    for o in known:
        say(f"KNOWN-FINDING: property={pid} {o.get('finding', o['id'])}")
    for o in viol:
        say(f"VIOLATION property={pid} replay={o.get('replay')}")
        say(f"  obligation {o['id']}: {o.get('statement', '')}")
        if o.get("counterexample"):
            say(f"  counterexample: {o['counterexample']}")
    for o in inc:
        say(f"INCONCLUSIVE property={pid} obligation={o['id']}: {o.get('reason')}")
    say(f"[{pid}] {len(held)} held, {len(known)} known findings, {len(viol)} violated, {len(inc)} inconclusive "
        f"of {len(obligations)} obligations in {wall:.0f} s; evidence: {path}")
    if viol:
        return 1
    if inc or not obligations:
        return 2
    return 0


def run_property(pid, tier, seed, jobs):
    t0 = time.time()
    obligations = []
    assumptions = []
    extra = {}
    if pid in ("C04", "C01", "C06"):
        # C01's run-time half is the helper kernels the generated code calls: the C04 obligations are part of it;
        # C06's kernel is the agreement of the semantic core (what the const evaluator calls) with the run-time library
        import c04
        obs, ass, ex = c04.run(tier, seed, jobs, pid)
        if pid == "C06":
            obs = [o for o in obs if "parity" in o["id"] or o["id"] in ("V-encoder",)]
        obligations += obs
        assumptions += ass
        extra.update(ex)
    if pid in ("C07", "C04", "C01", "C13", "C05", "C11", "C06", "C14", "C17", "C03", "C08", "C09", "C12", "C15", "C16", "C02", "C10"):
        try:
            import mirx_props
        except ImportError:
            mirx_props = None
        if mirx_props and pid in mirx_props.PROPS:
            obs, ass, ex = mirx_props.run(pid, tier, seed)
            obligations += obs
            assumptions += ass
            extra.update(ex)
    # C01's string / collection / range helpers are the C05 kernels
    kobs, build_s = kani_part("C05" if pid in ("C01", "C06") else pid, tier, seed, jobs,
                              only=(lambda h: "_str_" in h.name) if pid == "C06" else None)
    if kobs:
        obligations += kobs
        assumptions += E1_ASSUMPTIONS
        extra["kani_build_s"] = round(build_s, 1)
        stubs = sorted({s for o in kobs for s in o.get("stubs", [])})
        if stubs:
            assumptions.append("per-harness stand-ins (part of the claim): " + "; ".join(stubs))
    if not obligations:
        raise Inconclusive(f"no check is registered for {pid} (see MANIFEST.not_applicable)")
    return summarize(pid, tier, seed, obligations, assumptions, t0, extra)
