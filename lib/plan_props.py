"""E2-X obligations on `determine_binop_plan` (the emitter's single place for numeric conversions, result type and
operator -> helper selection) and the cross-level obligations tying each selected runtime helper to the documented
semantics of the operator it is selected for."""
import os
import re
import time

import common
from common import Inconclusive, say
import mir
import mirx
import solver
import symex
from symex import Adt, Sym, Tokens, conj, disj, neg

IR_OP = "ir::expr::BinOp"
NUM_OPS = ["Add", "Sub", "Mul", "Div", "FloorDiv", "Mod", "Pow", "Eq", "Ne", "Lt", "Le", "Gt", "Ge"]
ARITH = ["Add", "Sub", "Mul", "Div", "FloorDiv", "Mod", "Pow"]
INFIX = {"Add": "+", "Sub": "-", "Mul": "*", "Eq": "==", "Ne": "!=", "Lt": "<", "Le": "<=", "Gt": ">", "Ge": ">="}
HELPER_OPS = {"Mod": "mod", "FloorDiv": "fdiv", "Div": "div"}


def field(adt, name):
    for f in adt.fields:
        if isinstance(f, tuple) and f[0] == name:
            return f[1]
    raise mir.Unsupported(f"{adt!r} has no field {name}")


class PlanModel:
    """Symbolic inputs of determine_binop_plan + the documented expectation as SMT terms over their tags."""

    def __init__(self, P, R):
        import mirx_props as mp
        self.P, self.R, self.mp = P, R, mp
        self.ex = mirx.make_executor(P, R)
        ex = self.ex
        self.op = ex.sym_value(IR_OP, "op")
        self.l = ex.sym_value("TypedExpr", "l")
        self.r = ex.sym_value("TypedExpr", "r")
        td = R.resolve("TypedExpr")
        names = [f[0] for f in td.variants[0][1]]
        if "kind" not in names or "ty" not in names:
            raise Inconclusive("TypedExpr no longer has `kind` and `ty` fields")
        self.i_kind, self.i_ty = names.index("kind"), names.index("ty")
        self.lty = self.l.child(None, self.i_ty)
        self.rty = self.r.child(None, self.i_ty)
        self.rkind = self.r.child(None, self.i_kind)
        ix = lambda ty, n: mp.idx(R, ty, n)  # noqa: E731
        self.ix = ix
        ot, lt, rt = self.op.tag().term, self.lty.tag().term, self.rty.tag().term
        self.ot, self.lt, self.rt = ot, lt, rt
        I, F = ix("IrType", "Int"), ix("IrType", "Float")
        self.l_int, self.l_float = f"(= {lt} {I})", f"(= {lt} {F})"
        self.r_int, self.r_float = f"(= {rt} {I})", f"(= {rt} {F})"
        self.both_num = f"(and (or {self.l_int} {self.l_float}) (or {self.r_int} {self.r_float}))"
        self.any_float = f"(or {self.l_float} {self.r_float})"
        # documented exponent classification of the right operand
        kt = self.rkind.tag().term
        K_INT, K_UN = ix("IrExprKind", "Int"), ix("IrExprKind", "UnaryOp")
        self.lit = self.rkind.child("Int", 0)                         # i64 literal
        un_op = self.rkind.child("UnaryOp", 0)
        un_inner = self.rkind.child("UnaryOp", 1).child(None, self.i_kind)
        self.neg_lit = un_inner.child("Int", 0)
        self.is_lit = f"(= {kt} {K_INT})"
        self.is_neg_lit = (f"(and (= {kt} {K_UN}) (= {un_op.tag().term} {ix('ir::expr::UnaryOp', 'Neg')}) "
                           f"(= {un_inner.tag().term} {K_INT}))")
        nonneg = (f"(and (not {self.r_float}) (or (and {self.is_lit} (>= {self.lit.term} 0)) "
                  f"(and {self.is_neg_lit} (>= (- {self.neg_lit.term}) 0))))")
        self.op_is = lambda n: f"(= {ot} {ix(IR_OP, n)})"  # noqa: E731
        self.doc_float = (f"(ite {self.op_is('Div')} true (ite {self.op_is('Pow')} "
                          f"(not (and (not {self.any_float}) {nonneg})) {self.any_float}))")
        # precondition: the operand of a unary minus is never the literal i64::MIN (the lexer only produces literals in
        # 0..=i64::MAX), so `-n` cannot overflow
        ex.enc.side.append(f"(> {self.neg_lit.term} (- 9223372036854775808))")
        self.numeric_op = disj([self.op_is(n) for n in NUM_OPS])
        self.arith_op = disj([self.op_is(n) for n in ARITH])
        self.cmp_op = disj([self.op_is(n) for n in NUM_OPS if n not in ARITH])

    def run(self):
        f = self.mp.need(self.P, "determine_binop_plan")
        return self.ex.run(f, [self.op, self.l, self.r])


def emit_info(ex, o, plan):
    e = ex.deref(field(plan, "emit"), o.state)
    kind = e.variant
    toks = None
    flag = None
    for f in e.fields:
        v = ex.deref(f[1] if isinstance(f, tuple) else f, o.state)
        if isinstance(v, Tokens):
            toks = " ".join(v.toks)
        elif isinstance(v, symex.Scalar):
            flag = v.term
    return kind, toks, flag


def build(pid, P, R, tier, log_dir):
    import mirx_props as mp
    obs = []

    # ---- the plan's types / conversions / emission form (C07; and C04's "selects a helper") ----------------------------
    def run_plan():
        t0 = time.time()
        m = PlanModel(P, R)
        ex = m.ex
        outs = m.run()
        bad = []
        classes = {"numeric": 0, "non-numeric operands": 0, "other": 0}
        samples = []
        for o in outs:
            if o.kind != "return":
                bad.append(conj(o.pc))
                continue
            plan = ex.deref(o.value, o.state)
            lc = ex.deref(field(plan, "lhs_conv"), o.state).variant
            rc = ex.deref(field(plan, "rhs_conv"), o.state).variant
            rty = ex.deref(field(plan, "result_ty"), o.state)
            kind, toks, flag = emit_info(ex, o, plan)
            if len(samples) < 6 and toks and "num ::" in toks:
                samples.append({"path": " ".join(o.pc)[:200], "plan": mirx.show(plan, ex, o.state)[:300]})
            res_float = "false"
            res_ok = "false"
            if isinstance(rty, Adt) and rty.variant == "Float":
                res_float, res_ok = "true", m.doc_float
            elif isinstance(rty, Adt) and rty.variant == "Int":
                res_float, res_ok = "false", neg(m.doc_float)
            l_ok = f"(= {'true' if lc == 'ToFloat' else 'false'} (and {m.doc_float} {m.l_int}))"
            r_ok = f"(= {'true' if rc == 'ToFloat' else 'false'} (and {m.doc_float} {m.r_int}))"
            emit_cases = []
            for n in NUM_OPS:
                if n in HELPER_OPS:
                    okk = kind == "StdlibCall" and toks is not None and toks.startswith("incan_stdlib :: num ::")
                elif n == "Pow":
                    okk = kind == "Pow" and flag is not None
                    if okk:
                        emit_cases.append(f"(=> {m.op_is(n)} (= {flag} (not {m.doc_float})))")
                        continue
                else:
                    okk = kind == "Infix" and toks == INFIX[n]
                emit_cases.append(f"(=> {m.op_is(n)} {'true' if okk else 'false'})")
            cls_a = f"(and {m.numeric_op} {m.both_num})"
            # arithmetic: result type per table; comparisons: only the operand coercions are specified
            want_a = conj([f"(=> {m.arith_op} {res_ok})", l_ok, r_ok] + emit_cases)
            # numeric operator over non-numeric operands: no coercion, left type kept
            left_kept = "true" if rty is m.lty else "false"
            string_case = toks is not None and "strings ::" in toks
            cls_b = f"(and {m.numeric_op} (not {m.both_num}))"
            want_b = "true" if string_case else conj([("true" if lc == "None" and rc == "None" else "false"), left_kept])
            bad.append(conj(o.pc + [neg(f"(and (=> {cls_a} {want_a}) (=> {cls_b} {want_b}))")]))
        base = os.path.join(log_dir, "X-plan")
        r = {"id": "X-binop-plan", "engine": "E2-X mirsmt",
             "statement": "determine_binop_plan: for every numeric operator over int/float operands the result type and the ToFloat "
                          "conversions equal the documented table (exponent kind read from the right operand: literal n, -n, or other), "
                          "`/ // %` are emitted as calls into incan_stdlib::num, `**` as pow/powf by result kind, the rest as the matching "
                          "Rust infix token; with a non-numeric operand nothing is coerced and the left type is kept",
             "bound": "all 20 BinOp x all IrType variants for both operands (incl. Ref/RefMut payload) x all right-operand shapes "
                      "(every IrExprKind tag, every i64 literal)",
             "encoding": "enum tags as bounded Int; i64 literal as Int; tokens as pushed strings",
             "functions_encoded": [n + " (MIR)" for n in ex.encoded], "paths": len(outs), "plan_samples": samples}
        vac, _ = mp.query(ex, [disj([conj(o.pc) for o in outs if o.kind == "return"])], [], base + ".vac")
        if vac.status != "sat":
            r.update(status="inconclusive", reason=f"vacuity twin {vac.status}", wall_s=round(time.time() - t0, 2))
            return r
        r["vacuity_ok"] = True
        names = [n for n in mp.tag_names(ex)]
        res, res2 = mp.query(ex, [disj(bad)], names, base)
        r["solver"] = f"z3: {res.status} in {res.wall:.2f} s" + (f"; cvc5: {res2.status} in {res2.wall:.2f} s" if res2 else "")
        r["wall_s"] = round(time.time() - t0, 2)
        if res.status == "unsat" and (res2 is None or res2.status != "sat"):
            r["status"] = "held"
            return r
        if res.status == "inconclusive":
            r.update(status="inconclusive", reason="solver: " + res.raw[:200])
            return r
        model = (res if res.status == "sat" else res2).model
        return finish_plan_model(r, m, model, log_dir)
    obs.append(mp.XOb("X-binop-plan", "", "", run_plan))

    if pid == "C04":
        obs.append(mp.XOb("H-helpers", "", "", lambda: run_helpers(P, R, tier, log_dir)))
        obs = [o for o in obs if o.id != "X-binop-plan"] + [o for o in obs if o.id == "X-binop-plan"]
    return obs


# ---- native replay of a plan model -------------------------------------------------------------------------------

def model_choice(m, model):
    """Translate a solver model into concrete constructor names for the native replay."""
    R, mp = m.R, m.mp

    def tagval(sym):
        t = sym.tag().term
        return solver.value_int(model[t]) if t in model else 0
    opn = mp.variants(R, IR_OP)[tagval(m.op)]
    ltn = mp.variants(R, "IrType")[tagval(m.lty)]
    rtn = mp.variants(R, "IrType")[tagval(m.rty)]
    kn = mp.variants(R, "IrExprKind")[tagval(m.rkind)]
    lit = 0
    shape = "other"
    if kn == "Int":
        shape = "int"
        lit = solver.value_int(model.get(m.lit.term, "0"))
    elif kn == "UnaryOp":
        un_op = m.rkind.child("UnaryOp", 0)
        inner = m.rkind.child("UnaryOp", 1).child(None, m.i_kind)
        if mp.variants(R, "ir::expr::UnaryOp")[tagval(un_op)] == "Neg" and mp.variants(R, "IrExprKind")[tagval(inner)] == "Int":
            shape = "negint"
            lit = solver.value_int(model.get(m.neg_lit.term, "0"))
    return opn, ltn, rtn, shape, lit


SIMPLE_TYPES = {"Unit", "Bool", "Int", "Float", "String", "StaticStr", "StaticBytes", "FrozenStr", "FrozenBytes", "StrRef",
                "SelfType", "Unknown"}


def doc_plan(opn, ltn, rtn, shape, lit):
    """The documented plan for concrete inputs (Python statement of the table)."""
    num = {"Int", "Float"}
    if opn not in NUM_OPS or ltn not in num or rtn not in num:
        return None
    anyf = "Float" in (ltn, rtn)
    if opn == "Div":
        fl = True
    elif opn == "Pow":
        nonneg = rtn != "Float" and ((shape == "int" and lit >= 0) or (shape == "negint" and -lit >= 0))
        fl = not (not anyf and nonneg)
    else:
        fl = anyf
    res = "Float" if fl else "Int"
    lc = "ToFloat" if fl and ltn == "Int" else "None"
    rc = "ToFloat" if fl and rtn == "Int" else "None"
    return res, lc, rc


def native_plan(opn, ltn, rtn, shape, lit, log_dir):
    import kani
    res = {}
    for prof in ("dev", "release"):
        binp = kani.build_replay(prof, True, log_dir)
        rc, out, _, to = common.run([binp, "plan", opn, ltn, rtn, shape, str(lit)], timeout=60)
        res[prof] = out.strip().splitlines()[-1] if out.strip() else f"<no output rc={rc}>"
    return res


def check_native_plan(opn, ltn, rtn, shape, lit, log_dir):
    n = native_plan(opn, ltn, rtn, shape, lit, log_dir)
    doc = doc_plan(opn, ltn, rtn, shape, lit)
    bad = False
    texts = []
    for prof, line in n.items():
        texts.append(f"{prof}: {line}")
        m = re.match(r"^PLAN lhs_conv=(\w+) rhs_conv=(\w+) result_ty=(\S+) emit=(\w+) tokens=`(.*)` flag=(\S+)$", line)
        if not m:
            bad = True
            continue
        lc, rc, rty, ek, toks, flag = m.groups()
        if doc is None:
            continue
        res, dlc, drc = doc
        if opn in ARITH and rty != res:
            bad = True
        if (lc, rc) != (dlc, drc):
            bad = True
        if opn in HELPER_OPS and not (ek == "StdlibCall" and toks.replace(" ", "").startswith("incan_stdlib::num::")):
            bad = True
        if opn == "Pow" and not (ek == "Pow" and flag == ("true" if res == "Int" else "false")):
            bad = True
        if opn in INFIX and not (ek == "Infix" and toks.strip() == INFIX[opn]):
            bad = True
    return bad, f"documented {doc}; native " + "; ".join(texts)


def finish_plan_model(r, m, model, log_dir):
    opn, ltn, rtn, shape, lit = model_choice(m, model)
    r["model"] = {"op": opn, "left": ltn, "right": rtn, "right_shape": shape, "literal": lit}
    if ltn not in SIMPLE_TYPES or rtn not in SIMPLE_TYPES:
        r.update(status="inconclusive", reason=f"model uses a payload-carrying operand type ({ltn}, {rtn}) that the native replay does not build")
        return r
    bad, text = check_native_plan(opn, ltn, rtn, shape, lit, log_dir)
    r["native"] = text
    if bad:
        os.makedirs(os.path.join(common.REPLAYS_DIR, "MIRX"), exist_ok=True)
        path = os.path.join(common.REPLAYS_DIR, "MIRX", r["id"] + ".replay")
        with open(path, "w") as fh:
            fh.write(f"mirx plan {opn} {ltn} {rtn} {shape} {lit}\n# {r['statement']}\n# {text}\n")
        r.update(status="violated", replay=path, counterexample={"model": r["model"], "native": text})
    else:
        r.update(status="inconclusive", reason=f"model does not reproduce natively: {text}")
    return r


def replay_file(pid, path):
    line = open(path).readline().split()
    log_dir = os.path.join(common.WORK_DIR, pid, "replay")
    os.makedirs(log_dir, exist_ok=True)
    if line[1] == "plan":
        bad, text = check_native_plan(line[2], line[3], line[4], line[5], int(line[6]), log_dir)
        say(text)
        if bad:
            say(f"VIOLATION property={pid} replay={path}")
            return 1
        return 0
    if line[1] == "indexslice":
        import emit_props
        return emit_props.replay_indexslice(pid, path)
    if line[1] == "flat":
        import emit_props
        return emit_props.replay_flat(pid, path)
    if line[1] == "grouping":
        import emit_props
        return emit_props.replay_grouping(pid, path)
    if line[1] == "c03":
        import c03_props
        return c03_props.replay(pid, line, path)
    if line[1] == "ctor":
        import lower_props
        return lower_props.replay_ctor(pid, line, path)
    if line[1] == "visibility":
        import imp_props
        return imp_props.replay(pid, line, path)
    if line[1] == "cursor":
        import parse_props
        return parse_props.replay_cursor(pid, line, path)
    if line[1] in ("lowerif", "emitstmt", "assign", "lowerstmts", "emitexprs", "callargs", "match"):
        import stmt_props
        return stmt_props.replay(pid, line, path)
    if line[1] == "parse":
        import parse_props
        return parse_props.replay_parse(pid, line, path)
    if line[1] == "lower":
        import lower_props
        return lower_props.replay_lower(pid, line, path)
    if line[1] == "lowercompound":
        import tc_props
        r = tc_props.finish_lower_compound({"statement": "", "model": {}}, line[2], os.path.join(common.WORK_DIR, pid, "replay"))
        say(r.get("native", ""))
        if r.get("status") == "violated":
            say(f"VIOLATION property={pid} replay={path}")
            return 1
        return 0
    if line[1] in ("tc", "compat", "constvalues", "nominal", "constslice", "constindex", "constcycle", "accesstotal"):
        import tc_props
        bad = tc_props.replay_tc(pid, line)
        if bad:
            say(f"VIOLATION property={pid} replay={path}")
            return 1
        return 0
    if line[1] == "helper":
        import c04
        return c04.replay_generated(pid, path)
    if line[1] == "lexlayout":
        import lex_props
        bad, text = lex_props.layout_native(log_dir)
        say(text)
        if bad:
            say(f"VIOLATION property={pid} replay={path}")
            return 1
        return 0
    return 2


# ---- cross-level: every helper the plan can select computes the documented result ---------------------------------

def run_helpers(P, R, tier, log_dir):
    """For every feasible path of the plan that emits a call into incan_stdlib::num for `%`, `//` or `/` over int/float
    operands, decide (with the numeric encoder, over the stdlib MIR) that the selected helper, applied to the operands
    after the plan's conversions, stops with ZeroDivisionError iff the divisor is zero and otherwise returns the documented
    kernel's value - for all operand values admitted by that path (a literal divisor constrained by the path is carried over)."""
    import c04
    t0 = time.time()
    m = PlanModel(P, R)
    ex = m.ex
    outs = m.run()
    I, F = m.ix("IrType", "Int"), m.ix("IrType", "Float")
    combos = {}
    skipped = []
    for o in outs:
        if o.kind != "return":
            continue
        facts = o.state.facts
        fo = facts.get(m.ot)
        fl, fr = facts.get(m.lt), facts.get(m.rt)
        if not fo or fo[0] != "eq":
            continue
        opn = m.mp.variants(R, IR_OP)[fo[1]]
        if opn not in HELPER_OPS:
            continue
        if not (fl and fr and fl[0] == "eq" and fr[0] == "eq" and fl[1] in (I, F) and fr[1] in (I, F)):
            continue
        plan = ex.deref(o.value, o.state)
        kind, toks, _ = emit_info(ex, o, plan)
        if kind != "StdlibCall" or not toks:
            continue     # reported by X-binop-plan
        path = toks.replace(" ", "")
        lc = ex.deref(field(plan, "lhs_conv"), o.state).variant
        rc = ex.deref(field(plan, "rhs_conv"), o.state).variant
        lt = "f64" if (fl[1] == F or lc == "ToFloat") else "i64"
        rt = "f64" if (fr[1] == F or rc == "ToFloat") else "i64"
        # literal divisor constraints of this path (shared sub-terms expanded so that no constraint hides behind a name)
        lit_terms = [m.lit.term, m.neg_lit.term]
        rev = {name: term for (_, term), name in ex.enc.shared.items()}

        def expand(c):
            for _ in range(50):
                names = set(re.findall(r"t![0-9]+", c))
                if not names:
                    break
                for nme in names:
                    c = re.sub(re.escape(nme) + r"(?![0-9])", rev.get(nme, nme), c)
            return c
        cons = [c for c in (expand(x) for x in o.pc) if any(t in c for t in lit_terms)]
        fk = facts.get(m.rkind.tag().term)
        lit_kind = None
        if fk and fk[0] == "eq" and fk[1] == m.ix("IrExprKind", "Int"):
            lit_kind = "int"
        elif cons and any(m.neg_lit.term in c for c in cons):
            lit_kind = "negint"
        if cons and not (lt == "i64" and rt == "i64" and fr[1] == I):
            skipped.append(f"{path}: literal constraints {cons} on a float-typed call are not transferred")
            continue
        key = (path, HELPER_OPS[opn], lt, rt, fl[1] == I and lc == "ToFloat", fr[1] == I and rc == "ToFloat", lit_kind, tuple(cons))
        combos.setdefault(key, 0)
        combos[key] += 1
    p_std, p_core = c04.load_program({})
    results = []
    fp_fmt = (8, 24) if tier == "quick" else (11, 53)
    for (path, kk, lt, rt, lprom, rprom, lit_kind, cons), npaths in sorted(combos.items(), key=lambda x: str(x[0])):
        name = path.split("::")[-1]
        pre = []
        for c in cons:
            c2 = c.replace(m.lit.term, "b") if lit_kind == "int" else c.replace(m.neg_lit.term, "(- b)")
            pre.append(c2)
        r = c04.helper_obligation(p_std, p_core, path, name, lt, rt, lprom, rprom, kk, pre, fp_fmt, log_dir)
        r["plan_paths"] = npaths
        results.append(r)
    viol = [r for r in results if r["status"] == "violated"]
    inc = [r for r in results if r["status"] == "inconclusive"]
    out = {"id": "H-helpers", "engine": "E2-X + E2 mirsmt",
           "statement": "every runtime helper the emission plan can select for `%`, `//`, `/` over int/float operands, applied to the "
                        "operands after the plan's ToFloat conversions, raises ZeroDivisionError iff the divisor is zero and otherwise "
                        "returns the documented result, for all operand values a path admits (literal divisors included)",
           "bound": f"{len(combos)} distinct (helper, operand kinds, conversions, literal constraint) combinations from {len(outs)} plan paths; "
                    f"operands: all i64 / all {'f32' if tier == 'quick' else 'f64'} values",
           "encoding": "plan: enum tags; helpers: Int+lemma / BitVec64 + FloatingPoint",
           "functions_encoded": sorted({f for r in results for f in r.get("functions_encoded", [])}),
           "wall_s": round(time.time() - t0, 2), "vacuity_ok": bool(results),
           "helpers": [{k: r.get(k) for k in ("helper", "operands", "status", "solver", "reason", "pre")} for r in results]}
    if viol:
        out.update(status="violated", replay=viol[0]["replay"], counterexample=viol[0].get("counterexample"))
    elif inc or skipped or not results:
        out.update(status="inconclusive", reason="; ".join([f"{r['helper']}: {r.get('reason')}" for r in inc] + skipped) or "no helper call found")
    else:
        out.update(status="held", solver=f"{len(results)} helper obligations unsat")
    return out
