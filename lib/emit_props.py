"""C01 (expression-emission kernel): the Rust tokens emitted for binary and unary operator expressions denote the same
expression tree as the IR — operands in order, conversions on the right operand, operator mapped to the documented
form, and GROUPING preserved when an operand is itself an operator expression.

Method: `emit_binop_expr` and the UnaryOp arm of `emit_expr` are executed symbolically from the whole-crate MIR with the
operands' own emission summarised as atoms (`@l`, `@r`, `@o`); every feasible path yields the exact token sequence it
emits.  Flat obligations are asked of the solver per path.  Grouping is decided by composing two path classes (the
emitted operand tokens are spliced verbatim, which the flat run shows) and parsing the composed token sequence with
Rust's precedence table; feasibility of every class used is witnessed by the solver."""
import os
import re
import time

import common
from common import Inconclusive, say
import mir
import mirx
import solver
import symex
from symex import Adt, Tokens, conj, disj, neg

IR_OP = "ir::expr::BinOp"

# ---- a Pratt parser for the token sequences the emitter produces (Rust expression precedence) ------------------------
BIN_BP = {"*": 11, "/": 11, "%": 11, "+": 10, "-": 10, "<<": 9, ">>": 9, "&": 8, "^": 7, "|": 6,
          "==": 5, "!=": 5, "<": 5, ">": 5, "<=": 5, ">=": 5, "&&": 4, "||": 3}
CMP = {"==", "!=", "<", ">", "<=", ">="}
PREFIX_BP = 13
AS_BP = 12


class ParseError(Exception):
    pass


class Parser:
    def __init__(self, toks):
        self.t = list(toks)
        self.i = 0

    def peek(self):
        return self.t[self.i] if self.i < len(self.t) else None

    def next(self):
        tok = self.peek()
        if tok is None:
            raise ParseError("unexpected end")
        self.i += 1
        return tok

    def expect(self, tok):
        if self.next() != tok:
            raise ParseError(f"expected {tok}")

    def parse(self):
        e = self.expr(0)
        if self.peek() is not None:
            raise ParseError(f"trailing token {self.peek()}")
        return e

    def args(self):
        out = []
        self.expect("(")
        while self.peek() != ")":
            out.append(self.expr(0))
            if self.peek() == ",":
                self.next()
        self.expect(")")
        return out

    def primary(self):
        tok = self.next()
        if tok == "(":
            if self.peek() == "&":
                # ( & x ) / ( & mut x )
                self.next()
                mut = False
                if self.peek() == "mut":
                    self.next()
                    mut = True
                e = self.expr(PREFIX_BP)
                self.expect(")")
                return ("un", "&mut" if mut else "&", e)
            e = self.expr(0)
            self.expect(")")
            return ("group", e)
        if tok in ("-", "!", "*"):
            return ("un", tok, self.expr(PREFIX_BP))
        if tok.startswith("@") or re.match(r"^[0-9]", tok):
            return ("atom", tok)
        if re.match(r"^[A-Za-z_]\w*$", tok):
            path = [tok]
            while self.peek() == "::":
                self.next()
                path.append(self.next())
            if self.peek() == "(":
                return ("call", "::".join(path), self.args())
            return ("atom", "::".join(path))
        raise ParseError(f"unexpected token {tok}")

    def expr(self, min_bp):
        lhs = self.primary()
        while True:
            tok = self.peek()
            if tok == ".":
                self.next()
                name = self.next()
                if self.peek() == "(":
                    lhs = ("method", name, lhs, self.args())
                else:
                    lhs = ("field", name, lhs)
                continue
            if tok == "as":
                if AS_BP < min_bp:
                    break
                self.next()
                lhs = ("cast", lhs, self.next())
                continue
            if tok in BIN_BP:
                bp = BIN_BP[tok]
                if bp < min_bp:
                    break
                self.next()
                rhs = self.expr(bp + 1)
                if tok in CMP and (is_cmp(lhs) or is_cmp(rhs_top(rhs))):
                    raise ParseError("comparison operators cannot be chained")
                lhs = ("bin", tok, lhs, rhs)
                continue
            break
        return lhs


def is_cmp(e):
    return e[0] == "bin" and e[1] in CMP


def rhs_top(e):
    return e


def skeleton(e):
    """Operator skeleton: casts, derefs, references and groups are transparent."""
    k = e[0]
    if k == "atom":
        return e[1]
    if k == "group":
        return skeleton(e[1])
    if k == "cast":
        return skeleton(e[1])
    if k == "un":
        if e[1] in ("*", "&", "&mut"):
            return skeleton(e[2])
        return ("un" + e[1], skeleton(e[2]))
    if k == "bin":
        return ("bin" + e[1], skeleton(e[2]), skeleton(e[3]))
    if k == "call":
        return ("call:" + e[1],) + tuple(skeleton(a) for a in e[2])
    if k == "method":
        return ("method:" + e[1], skeleton(e[2])) + tuple(skeleton(a) for a in e[3])
    if k == "field":
        return ("field:" + e[1], skeleton(e[2]))
    raise ParseError(str(e))


def parse_skel(toks):
    return skeleton(Parser(toks).parse())


def subst_atoms(sk, m):
    if isinstance(sk, str):
        return m.get(sk, sk)
    return (sk[0],) + tuple(subst_atoms(x, m) for x in sk[1:])


# ---- symbolic execution of the emitters with operand emission summarised as atoms -----------------------------------

def flat_runs(P, R):
    import mirx_props as mp
    f_bin = [v for k, v in P.fns.items() if k.endswith("::emit_binop_expr")]
    f_expr = [v for k, v in P.fns.items() if re.search(r"expressions::<impl at [^>]*>::emit_expr$", k)]
    if len(f_bin) != 1 or len(f_expr) != 1:
        raise Inconclusive("emit_binop_expr / emit_expr not found (or ambiguous) in the MIR dump")
    f_bin, f_expr = f_bin[0], f_expr[0]

    def mk():
        ex = mirx.make_executor(P, R, max_paths=2000000)
        ex.opaque_calls = mirx.slice_opaque
        ex.recursion_bound = 0

        def emit_expr_atom(ex_, callee, args, st):
            e = ex_.deref(args[1], st)
            return [("return", Adt("Result", "Ok", [Tokens(["@" + e.name])]), None, st)]

        def static_add(ex_, callee, args, st):
            return [("return", Adt("Result", "Ok", [Adt("Option", "None", [])]), None, st)]
        ex.state_intrinsics = dict(mirx.STATE_INTRINSICS)
        ex.state_intrinsics[r"::emit_expr$"] = emit_expr_atom
        ex.state_intrinsics[r"try_emit_static_str_add$"] = static_add
        return ex
    # binary
    exb = mk()
    selfv = exb.sym_value("IrEmitter", "self")
    op = exb.sym_value(IR_OP, "op")
    l = exb.sym_value("TypedExpr", "l")
    r = exb.sym_value("TypedExpr", "r")
    # the operand of a unary minus is never the literal i64::MIN (lexer fact, as in plan_props)
    td = R.resolve("TypedExpr")
    i_kind = [x[0] for x in td.variants[0][1]].index("kind")
    neg_lit = r.child(None, i_kind).child("UnaryOp", 1).child(None, i_kind).child("Int", 0)
    exb.enc.side.append(f"(> {neg_lit.term} (- 9223372036854775808))")
    outs_b = exb.run(f_bin, [selfv, op, l, r])
    # unary: emit_expr with the expression kind fixed to UnaryOp
    exu = mk()
    selfu = exu.sym_value("IrEmitter", "self")
    e = exu.sym_value("TypedExpr", "e")
    kind = e.child(None, 0)
    st0 = symex.State()
    k_un = mp.idx(R, "IrExprKind", "UnaryOp")
    st0.facts[kind.tag().term] = ("eq", k_un)
    st0.pc.append(f"(= {kind.tag().term} {k_un})")
    outs_u = exu.run(f_expr, [selfu, e], state=st0)
    return (exb, op, l, r, outs_b), (exu, e, kind, outs_u)


def tokens_of(ex, o):
    v = ex.deref(o.value, o.state)
    if isinstance(v, Adt) and v.variant == "Ok":
        t = ex.deref(v.fields[0][1] if isinstance(v.fields[0], tuple) else v.fields[0], o.state)
        if isinstance(t, Tokens):
            return list(t.toks)
    return None


def build(pid, P, R, tier, log_dir):
    import mirx_props as mp
    if pid != "C01":
        return []
    return [mp.XOb("E-emit-flat", "", "", lambda: run_flat(P, R, log_dir)),
            mp.XOb("G-grouping", "", "", lambda: run_grouping(P, R, log_dir))]


def op_facts(o, term):
    f = o.state.facts.get(term)
    return f[1] if f and f[0] == "eq" else None


def run_flat(P, R, log_dir):
    """Every path of emit_binop_expr emits `L' <form> R'` with the operands in order, each at most wrapped by the ToFloat
    conversion, in the documented form for its operator class."""
    import mirx_props as mp
    t0 = time.time()
    (ex, op, l, r, outs), _ = flat_runs(P, R)
    ops = mp.variants(R, IR_OP)
    bad_paths = []
    samples = []
    classes = {}
    for o in outs:
        if o.kind != "return":
            bad_paths.append((o, "emission panics / returns through an error path: " + str(o.info)))
            continue
        toks = tokens_of(ex, o)
        if toks is None:
            bad_paths.append((o, "does not return Ok(tokens)"))
            continue
        k = op_facts(o, op.tag().term)
        opn = ops[k] if k is not None else None
        try:
            sk = parse_skel(toks)
        except ParseError as e:
            bad_paths.append((o, f"emitted tokens `{' '.join(toks)}` are not a Rust expression: {e}"))
            continue
        ok = isinstance(sk, tuple) and len(sk) == 3 and sk[1] == "@l" and sk[2] == "@r"
        form = sk[0] if isinstance(sk, tuple) else None
        if ok and opn is not None:
            want = {"Add": "bin+", "Sub": "bin-", "Mul": "bin*", "Eq": "bin==", "Ne": "bin!=", "Lt": "bin<", "Le": "bin<=", "Gt": "bin>",
                    "Ge": "bin>=", "And": "bin&&", "Or": "bin||", "BitAnd": "bin&", "BitOr": "bin|", "BitXor": "bin^", "Shl": "bin<<",
                    "Shr": "bin>>"}.get(opn)
            if opn in ("Div", "FloorDiv", "Mod"):
                ok = form.startswith("call:incan_stdlib::num::")
            elif opn == "Pow":
                ok = form in ("method:pow", "method:powf")
            elif want is not None and not form.startswith("call:incan_stdlib::strings::"):
                ok = form == want
        if not ok:
            bad_paths.append((o, f"operator {opn}: emitted `{' '.join(toks)}` (skeleton {sk}) is not `<left> {opn} <right>` in the documented form"))
        classes.setdefault((opn, " ".join(toks)), o)
        if len(samples) < 8 and opn in ("Mod", "Pow", "Lt", "Add"):
            samples.append({"op": opn, "tokens": " ".join(toks)})
    r = {"id": "E-emit-flat", "engine": "E2-X mirsmt",
         "statement": "emit_binop_expr: on every path the emitted tokens are a Rust expression whose operator skeleton is "
                      "<op>(left, right) with the operands in source order (each at most wrapped in the plan's `as f64` conversion / a deref), "
                      "in the documented form: `/ // %` a call into incan_stdlib::num, `**` .pow/.powf, every other operator its Rust infix token",
         "bound": f"all {len(ops)} BinOp x all IrType variants of both operands x all right-operand shapes; operand emission summarised as atoms",
         "encoding": "enum tags as bounded Int; tokens as pushed strings; Rust precedence parser on the emitted tokens",
         "functions_encoded": [n + " (MIR)" for n in ex.encoded], "paths": len(outs), "distinct_token_classes": len(classes),
         "samples_tokens": samples}
    base = os.path.join(log_dir, "E-emit-flat")
    vac, _ = mp.query(ex, [disj([conj(o.pc) for o in outs if o.kind == "return"])], [], base + ".vac")
    if vac.status != "sat":
        r.update(status="inconclusive", reason=f"vacuity twin {vac.status}", wall_s=round(time.time() - t0, 2))
        return r
    r["vacuity_ok"] = True
    if not bad_paths:
        r.update(status="held", solver="all paths conform (no path left to refute)", wall_s=round(time.time() - t0, 2))
        return r
    res, _ = mp.query(ex, [disj([conj(o.pc) for o, _ in bad_paths])], mp.tag_names(ex), base)
    r["solver"] = f"z3: {res.status} in {res.wall:.2f} s"
    r["wall_s"] = round(time.time() - t0, 2)
    if res.status == "unsat":
        r["status"] = "held"
        return r
    r.update(status="inconclusive", reason="a feasible path emits non-conforming tokens: " + bad_paths[0][1] +
             " (no native replay for this obligation yet)")
    return r


INCAN_OP = {"Add": "+", "Sub": "-", "Mul": "*", "Div": "/", "FloorDiv": "//", "Mod": "%", "Pow": "**", "Eq": "==", "Ne": "!=", "Lt": "<",
            "Le": "<=", "Gt": ">", "Ge": ">=", "And": "and", "Or": "or"}


def run_grouping(P, R, log_dir):
    import mirx_props as mp
    t0 = time.time()
    (exb, op, l, r, outs_b), (exu, e, kind, outs_u) = flat_runs(P, R)
    ops = mp.variants(R, IR_OP)
    uops = mp.variants(R, "ir::expr::UnaryOp")
    # path classes: (description, tokens, skeleton, feasibility condition)
    bin_cls = {}
    for o in outs_b:
        if o.kind != "return":
            continue
        toks = tokens_of(exb, o)
        k = op_facts(o, op.tag().term)
        if toks is None or k is None:
            continue
        try:
            sk = parse_skel(toks)
        except ParseError:
            continue
        bin_cls.setdefault((ops[k], tuple(toks)), (sk, o))
    un_cls = {}
    uop = kind.child("UnaryOp", 0)
    for o in outs_u:
        if o.kind != "return":
            continue
        toks = tokens_of(exu, o)
        k = op_facts(o, uop.tag().term)
        if toks is None or k is None:
            continue
        try:
            sk = parse_skel(toks)
        except ParseError:
            continue
        un_cls.setdefault((uops[k], tuple(toks)), (sk, o))
    # feasibility witnesses (solver): every class used below is reachable
    base = os.path.join(log_dir, "G-grouping")
    nq = 0
    for (name, toks), (sk, o) in list(bin_cls.items()):
        res = solver.check(mp.smt_lines(exb, [conj(o.pc)]), [], "z3", 60)
        nq += 1
        if res.status != "sat":
            del bin_cls[(name, toks)]
    for (name, toks), (sk, o) in list(un_cls.items()):
        res = solver.check(mp.smt_lines(exu, [conj(o.pc)]), [], "z3", 60)
        nq += 1
        if res.status != "sat":
            del un_cls[(name, toks)]
    outer = []   # (label, tokens, hole atom, expected skeleton builder)
    for (name, toks), (sk, o) in bin_cls.items():
        outer.append((f"{name}:left", list(toks), "@l", sk))
        outer.append((f"{name}:right", list(toks), "@r", sk))
    for (name, toks), (sk, o) in un_cls.items():
        hole = [t for t in toks if t.startswith("@")]
        if len(hole) == 1:
            outer.append((f"unary {name}", list(toks), hole[0], sk))
    inner = [(name, [("@a" if t == "@l" else "@b" if t == "@r" else t) for t in toks], subst_atoms(sk, {"@l": "@a", "@r": "@b"}))
             for (name, toks), (sk, o) in bin_cls.items()]
    mism_known, mism_other, total = [], [], 0
    for olabel, otoks, hole, osk in outer:
        for iname, itoks, isk in inner:
            total += 1
            composed = []
            for t in otoks:
                composed += itoks if t == hole else [t]
            want = subst_atoms(osk, {hole: isk})
            try:
                got = parse_skel(composed)
            except ParseError as pe:
                got = ("<parse error>", str(pe))
            if got == want:
                continue
            # would parentheses around the spliced operand repair it?  (then it is the recorded "missing parentheses" class)
            fixed = []
            for t in otoks:
                fixed += (["("] + itoks + [")"]) if t == hole else [t]
            try:
                repaired = parse_skel(fixed) == want
            except ParseError:
                repaired = False
            rec = {"outer": olabel, "inner": iname, "emitted": " ".join(composed), "means": str(got), "should_mean": str(want)}
            (mism_known if repaired else mism_other).append(rec)
    kfs = [k for k in common.load_known_findings().get("findings", []) if k.get("property") == "C01" and k.get("obligation") == "G-grouping"]
    r = {"id": "G-grouping", "engine": "E2-X mirsmt + Rust precedence parser",
         "statement": "when an operand of a binary or unary operator expression is itself a binary operator expression, the emitted Rust "
                      "tokens group exactly as the IR tree does (the source's parentheses / precedence are preserved)",
         "bound": f"{len(outer)} outer operator forms (every feasible emit_binop_expr path class x left/right hole, every unary form) x "
                  f"{len(inner)} inner binary forms = {total} compositions; nesting depth 2; operand leaves are atoms",
         "encoding": "path classes from symbolic execution (feasibility of each decided by z3); composition by verbatim splicing",
         "functions_encoded": [n + " (MIR)" for n in exb.encoded + exu.encoded], "queries": nq,
         "compositions": total, "mismatch_missing_parentheses": len(mism_known), "mismatch_other": len(mism_other),
         "samples_mismatch": (mism_known[:3] + mism_other[:3]), "wall_s": round(time.time() - t0, 2), "vacuity_ok": total > 0}
    if mism_other:
        w = mism_other[0]
        return finish_grouping(r, w, log_dir, known=False)
    if mism_known:
        if not kfs:
            return finish_grouping(r, mism_known[0], log_dir, known=False)
        # recorded finding: the stored witness must still reproduce natively
        kf = kfs[0]
        ok, text = native_grouping(kf["witness"]["source"], kf["witness"]["fn"], kf["witness"]["should_group_as"], log_dir)
        r["witness"] = text
        if ok is False:
            r.update(status="known-finding", finding=f"obligation=G-grouping {kf['what']} ({len(mism_known)} operator combinations, all repaired by "
                     f"parenthesising the operand; witness: {kf['witness']['source'].strip().splitlines()[-1].strip()} -> {text})")
        else:
            r.update(status="inconclusive", reason=f"stored known-finding witness no longer reproduces ({text}) although {len(mism_known)} "
                     "compositions still mis-group: stale entry or encoder disagreement")
        return r
    if kfs:
        r.update(status="inconclusive", reason="known_findings.json lists a grouping finding but no composition mis-groups any more: remove the stale entry")
        return r
    r["status"] = "held"
    return r


# ---- native side: generate a program, run the real pipeline, parse the emitted Rust expression ------------------------------

def rust_tokens(text):
    return re.findall(r"::|<<|>>|<=|>=|==|!=|&&|\|\||[A-Za-z_]\w*|\d+(?:\.\d+)?|[-+*/%<>&|^!().,]", text)


def native_grouping(source, fn, should, log_dir):
    """Run lex/parse/check/codegen natively on `source`; compare the skeleton of fn's returned expression with `should`
    (a fully parenthesised Rust-like text over the parameter names). -> (same?: bool|None, text)"""
    import kani
    os.makedirs(log_dir, exist_ok=True)
    path = os.path.join(log_dir, "grouping_replay.incn")
    with open(path, "w") as f:
        f.write(source)
    verdicts = []
    text = ""
    for prof in ("dev", "release"):
        binp = kani.build_replay(prof, True, log_dir)
        rc, out, _, to = common.run([binp, "emitrust", path], timeout=60)
        m = re.search(r"fn " + re.escape(fn) + r"\([^)]*\)[^{]*\{\s*return (.*?);\s*\}", out, re.S)
        if not m and "SynParse" in out:
            # the emitted tokens are not even a Rust expression (e.g. `a == b == c`): the grouping was lost
            verdicts.append(False)
            text = "code generation fails on its own output: " + out.strip()[-160:]
            continue
        if not m:
            return None, f"no generated body for {fn}: {out.strip()[-200:]}"
        expr = m.group(1).strip()
        try:
            got = parse_skel(rust_tokens(expr))
            want = parse_skel(rust_tokens(should))
        except ParseError as pe:
            return None, f"cannot parse `{expr}`: {pe}"
        verdicts.append(normalise(got) == normalise(want))
        text = f"emitted `{expr}`, which groups as {got}; the source groups as {want}"
    return all(verdicts), text


def normalise(sk):
    """helper calls and infix forms of the same operator are both fine; compare nesting + atom order only"""
    if isinstance(sk, str):
        return sk
    return ("op",) + tuple(normalise(x) for x in sk[1:])


def finish_grouping(r, w, log_dir, known):
    # build a program for the witness
    outer, inner = w["outer"], w["inner"]
    src, fn, should = witness_program(outer, inner)
    if src is None:
        r.update(status="inconclusive", reason=f"mis-grouping {w} found but no surface program could be built for it")
        return r
    ok, text = native_grouping(src, fn, should, log_dir)
    r["native"] = text
    if ok is False:
        os.makedirs(os.path.join(common.REPLAYS_DIR, "MIRX"), exist_ok=True)
        rp = os.path.join(common.REPLAYS_DIR, "MIRX", "G-grouping.replay")
        with open(rp, "w") as fh:
            fh.write(f"mirx grouping {fn} {should.replace(' ', '')}\n# {r['statement']}\n# {text}\n#SOURCE\n{src}")
        r.update(status="violated", replay=rp, counterexample={"composition": w, "native": text})
    else:
        r.update(status="inconclusive", reason=f"composition {w} does not reproduce through the real pipeline: {text}")
    return r


def witness_program(outer, inner):
    """(source, fn name, expected grouping text) for an outer form label like `Mul:left` / `unary Neg` and an inner operator name."""
    iop = INCAN_OP.get(inner)
    if iop is None:
        return None, None, None
    arith_i = inner in ("Add", "Sub", "Mul", "Div", "FloorDiv", "Mod", "Pow")
    ity = "int" if arith_i or inner in ("Eq", "Ne", "Lt", "Le", "Gt", "Ge") else "bool"
    ires = "bool" if inner in ("Eq", "Ne", "Lt", "Le", "Gt", "Ge", "And", "Or") else ("float" if inner in ("Div",) else "int")
    if inner == "Pow":
        ires = "float"
    if outer.startswith("unary"):
        u = outer.split()[1]
        sym = {"Neg": "-", "Not": "not "}.get(u)
        if sym is None:
            return None, None, None
        res = ires
        src = f"def f(a: {ity}, b: {ity}) -> {res}:\n    return {sym}(a {iop} b)\n"
        rs = {"Neg": "-", "Not": "!"}[u]
        return src, "f", f"{rs}(a + b)"
    oname, side = outer.split(":")
    oop = INCAN_OP.get(oname)
    if oop is None:
        return None, None, None
    cty = ires if oname not in ("And", "Or") else "bool"
    ores = "bool" if oname in ("Eq", "Ne", "Lt", "Le", "Gt", "Ge", "And", "Or") else ("float" if (oname in ("Div", "Pow") or "float" in (ires, cty)) else "int")
    if side == "left":
        body, should = f"(a {iop} b) {oop} c", "(a + b) + c"
    else:
        body, should = f"c {oop} (a {iop} b)", "c + (a + b)"
    src = f"def f(a: {ity}, b: {ity}, c: {cty}) -> {ores}:\n    return {body}\n"
    return src, "f", should


def replay_grouping(pid, path):
    lines = open(path).read().split("\n")
    head = lines[0].split()
    fn, should = head[2], head[3]
    src = "\n".join(lines[lines.index("#SOURCE") + 1:])
    log_dir = os.path.join(common.WORK_DIR, pid, "replay")
    ok, text = native_grouping(src, fn, re.sub(r"([+()])", r" \1 ", should), log_dir)
    say(text)
    if ok is False:
        say(f"VIOLATION property={pid} replay={path}")
        return 1
    return 0
