"""C01 (expression-emission kernel): the Rust tokens emitted for binary and unary operator expressions denote the same
expression tree as the IR — operands in order, conversions on the right operand, operator mapped to the documented
form, and GROUPING preserved when an operand is itself an operator expression.

Method: `emit_binop_expr` and the UnaryOp arm of `emit_expr` are executed symbolically from the whole-crate MIR with the
operands' own emission summarised as atoms (`@l`, `@r`, `@o`); every feasible path yields the exact token sequence it
emits.  Flat obligations are asked of the solver per path.  Grouping is decided by composing two path classes (the
emitted operand tokens are spliced verbatim, which the flat run shows) and parsing the composed token sequence with
Rust's precedence table; feasibility of every class used is witnessed by the solver."""
import os
import re
import time

import common
from common import Inconclusive, say
import mir
import mirx
import solver
import symex
from symex import Adt, Tokens, conj, disj, neg

IR_OP = "ir::expr::BinOp"

# ---- a Pratt parser for the token sequences the emitter produces (Rust expression precedence) ------------------------
BIN_BP = {"*": 11, "/": 11, "%": 11, "+": 10, "-": 10, "<<": 9, ">>": 9, "&": 8, "^": 7, "|": 6,
          "==": 5, "!=": 5, "<": 5, ">": 5, "<=": 5, ">=": 5, "&&": 4, "||": 3}
CMP = {"==", "!=", "<", ">", "<=", ">="}
PREFIX_BP = 13
AS_BP = 12


class ParseError(Exception):
    pass


class Parser:
    def __init__(self, toks):
        self.t = list(toks)
        self.i = 0

    def peek(self):
        return self.t[self.i] if self.i < len(self.t) else None

    def next(self):
        tok = self.peek()
        if tok is None:
            raise ParseError("unexpected end")
        self.i += 1
        return tok

    def expect(self, tok):
        if self.next() != tok:
            raise ParseError(f"expected {tok}")

    def parse(self):
        e = self.expr(0)
        if self.peek() is not None:
            raise ParseError(f"trailing token {self.peek()}")
        return e

    def args(self):
        out = []
        self.expect("(")
        while self.peek() != ")":
            out.append(self.expr(0))
            if self.peek() == ",":
                self.next()
        self.expect(")")
        return out

    def primary(self):
        tok = self.next()
        if tok == "(":
            if self.peek() == "&":
                # ( & x ) / ( & mut x )
                self.next()
                mut = False
                if self.peek() == "mut":
                    self.next()
                    mut = True
                e = self.expr(PREFIX_BP)
                self.expect(")")
                return ("un", "&mut" if mut else "&", e)
            e = self.expr(0)
            self.expect(")")
            return ("group", e)
        if tok in ("-", "!", "*"):
            return ("un", tok, self.expr(PREFIX_BP))
        if tok.startswith("@") or re.match(r"^[0-9]", tok):
            return ("atom", tok)
        if re.match(r"^[A-Za-z_]\w*$", tok):
            path = [tok]
            while self.peek() == "::":
                self.next()
                path.append(self.next())
            if self.peek() == "(":
                return ("call", "::".join(path), self.args())
            return ("atom", "::".join(path))
        raise ParseError(f"unexpected token {tok}")

    def expr(self, min_bp):
        lhs = self.primary()
        while True:
            tok = self.peek()
            if tok == ".":
                self.next()
                name = self.next()
                if self.peek() == "(":
                    lhs = ("method", name, lhs, self.args())
                else:
                    lhs = ("field", name, lhs)
                continue
            if tok == "as":
                if AS_BP < min_bp:
                    break
                self.next()
                lhs = ("cast", lhs, self.next())
                continue
            if tok in BIN_BP:
                bp = BIN_BP[tok]
                if bp < min_bp:
                    break
                self.next()
                rhs = self.expr(bp + 1)
                if tok in CMP and (is_cmp(lhs) or is_cmp(rhs_top(rhs))):
                    raise ParseError("comparison operators cannot be chained")
                lhs = ("bin", tok, lhs, rhs)
                continue
            break
        return lhs


def is_cmp(e):
    return e[0] == "bin" and e[1] in CMP


def rhs_top(e):
    return e


def skeleton(e):
    """Operator skeleton: casts, derefs, references and groups are transparent."""
    k = e[0]
    if k == "atom":
        return e[1]
    if k == "group":
        return skeleton(e[1])
    if k == "cast":
        return skeleton(e[1])
    if k == "un":
        if e[1] in ("*", "&", "&mut"):
            return skeleton(e[2])
        return ("un" + e[1], skeleton(e[2]))
    if k == "bin":
        return ("bin" + e[1], skeleton(e[2]), skeleton(e[3]))
    if k == "call":
        return ("call:" + e[1],) + tuple(skeleton(a) for a in e[2])
    if k == "method":
        return ("method:" + e[1], skeleton(e[2])) + tuple(skeleton(a) for a in e[3])
    if k == "field":
        return ("field:" + e[1], skeleton(e[2]))
    raise ParseError(str(e))


def parse_skel(toks):
    return skeleton(Parser(toks).parse())


ATOM_NAMES = {"@l": "L", "@r": "R", "@a": "A", "@b": "B", "@o": "O", "@i": "I", "@t": "T", "@s.Some.0": "S", "@e.Some.0": "E",
              "@p.Some.0": "P"}


def rust_text(toks):
    out = []
    for t in toks:
        if t.startswith("@"):
            out.append(ATOM_NAMES.get(t, "O"))
        else:
            out.append(t)
    return " ".join(out)


def syn_batch(token_lists, log_dir):
    """Parse every token sequence with `syn` (the parser the compiler itself runs on its output). -> [('OK', skeleton) | ('ERR', msg)]"""
    import kani
    os.makedirs(log_dir, exist_ok=True)
    path = os.path.join(log_dir, "syn_batch.txt")
    with open(path, "w") as f:
        for toks in token_lists:
            f.write(rust_text(toks) + "\n")
    binp = kani.build_replay("dev", False, log_dir)
    rc, out, _, to = common.run([binp, "synparse", path], timeout=300)
    res = []
    for line in out.strip().split("\n"):
        if line.startswith("OK "):
            res.append(("OK", line[3:].strip()))
        elif line.startswith("ERR "):
            res.append(("ERR", line[4:].strip()))
    if len(res) != len(token_lists):
        raise Inconclusive(f"syn batch returned {len(res)} results for {len(token_lists)} expressions")
    return res


def sk_text(sk):
    """my skeleton tuples -> the text form printed by `replay synparse`"""
    if isinstance(sk, str):
        return ATOM_NAMES.get(sk, "O" if sk.startswith("@") else sk)
    head = sk[0]
    if head.startswith("un"):
        return f"(un{head[2:]} {sk_text(sk[1])})"
    return "(" + " ".join([head] + [sk_text(x) for x in sk[1:]]) + ")"


def subst_atoms(sk, m):
    if isinstance(sk, str):
        return m.get(sk, sk)
    return (sk[0],) + tuple(subst_atoms(x, m) for x in sk[1:])


# ---- symbolic execution of the emitters with operand emission summarised as atoms -----------------------------------

def flat_runs(P, R):
    import mirx_props as mp
    f_bin = [v for k, v in P.fns.items() if k.endswith("::emit_binop_expr")]
    f_expr = [v for k, v in P.fns.items() if re.search(r"expressions::<impl at [^>]*>::emit_expr$", k)]
    if len(f_bin) != 1 or len(f_expr) != 1:
        raise Inconclusive("emit_binop_expr / emit_expr not found (or ambiguous) in the MIR dump")
    f_bin, f_expr = f_bin[0], f_expr[0]

    def mk():
        ex = mirx.make_executor(P, R, max_paths=2000000)
        ex.opaque_calls = mirx.slice_opaque
        ex.recursion_bound = 0

        def emit_expr_atom(ex_, callee, args, st):
            e = ex_.deref(args[1], st)
            return [("return", Adt("Result", "Ok", [Tokens(["@" + e.name])]), None, st)]

        def static_add(ex_, callee, args, st):
            return [("return", Adt("Result", "Ok", [Adt("Option", "None", [])]), None, st)]
        ex.state_intrinsics = dict(mirx.STATE_INTRINSICS)
        ex.state_intrinsics[r"::emit_expr$"] = emit_expr_atom
        ex.state_intrinsics[r"try_emit_static_str_add$"] = static_add
        return ex
    # binary
    exb = mk()
    selfv = exb.sym_value("IrEmitter", "self")
    op = exb.sym_value(IR_OP, "op")
    l = exb.sym_value("TypedExpr", "l")
    r = exb.sym_value("TypedExpr", "r")
    # the operand of a unary minus is never the literal i64::MIN (lexer fact, as in plan_props)
    td = R.resolve("TypedExpr")
    i_kind = [x[0] for x in td.variants[0][1]].index("kind")
    neg_lit = r.child(None, i_kind).child("UnaryOp", 1).child(None, i_kind).child("Int", 0)
    exb.enc.side.append(f"(> {neg_lit.term} (- 9223372036854775808))")
    outs_b = exb.run(f_bin, [selfv, op, l, r])
    # unary: emit_expr with the expression kind fixed to UnaryOp
    exu = mk()
    selfu = exu.sym_value("IrEmitter", "self")
    e = exu.sym_value("TypedExpr", "e")
    kind = e.child(None, 0)
    st0 = symex.State()
    k_un = mp.idx(R, "IrExprKind", "UnaryOp")
    st0.facts[kind.tag().term] = ("eq", k_un)
    st0.pc.append(f"(= {kind.tag().term} {k_un})")
    outs_u = exu.run(f_expr, [selfu, e], state=st0)
    return (exb, op, l, r, outs_b), (exu, e, kind, outs_u)


def tokens_of(ex, o):
    v = ex.deref(o.value, o.state)
    if isinstance(v, Adt) and v.variant == "Ok":
        t = ex.deref(v.fields[0][1] if isinstance(v.fields[0], tuple) else v.fields[0], o.state)
        if isinstance(t, Tokens):
            return list(t.toks)
    return None


def build(pid, P, R, tier, log_dir):
    import mirx_props as mp
    obs = []
    if pid == "C01":
        obs += [mp.XOb("E-emit-flat", "", "", lambda: run_flat(P, R, log_dir)),
                mp.XOb("G-grouping", "", "", lambda: run_grouping(P, R, log_dir))]
    if pid in ("C01", "C05"):
        obs.append(mp.XOb("E-emit-index-slice", "", "", lambda: run_index_slice(P, R, log_dir)))
    return obs


def atom_executor(P, R):
    ex = mirx.make_executor(P, R, max_paths=2000000)
    ex.opaque_calls = mirx.slice_opaque
    ex.recursion_bound = 3

    def emit_expr_atom(ex_, callee, args, st):
        e = ex_.deref(args[1], st)
        return [("return", Adt("Result", "Ok", [Tokens(["@" + e.name])]), None, st)]
    ex.state_intrinsics = dict(mirx.STATE_INTRINSICS)
    ex.state_intrinsics[r"::emit_expr$"] = emit_expr_atom
    return ex


def base_type(ex, o, tysym, R, mp):
    """IrType variant name of `ty` looking through one Ref/RefMut, from the path facts (None if not fixed on this path)."""
    irt = mp.variants(R, "IrType")
    f = o.state.facts.get(tysym.tag().term)
    if not f or f[0] != "eq":
        return None
    name = irt[f[1]]
    if name in ("Ref", "RefMut"):
        inner = tysym.child(name, 0)
        f2 = o.state.facts.get(inner.tag().term)
        return irt[f2[1]] if f2 and f2[0] == "eq" else "<other>"
    return name


def run_index_slice(P, R, log_dir):
    """`s[i]` and `s[a:b:c]` are emitted as calls of the documented run-time helper for the container kind, with the container and the
    index / the three optional bounds in the documented positions (absent bound = None)."""
    import mirx_props as mp
    t0 = time.time()
    fi = [v for k, v in P.fns.items() if k.endswith("::emit_index_expr")]
    fs = [v for k, v in P.fns.items() if k.endswith("::emit_slice_expr")]
    if len(fi) != 1 or len(fs) != 1:
        raise Inconclusive("emit_index_expr / emit_slice_expr not found (or ambiguous) in the MIR dump")
    td = R.resolve("TypedExpr")
    i_ty = [x[0] for x in td.variants[0][1]].index("ty")
    # ---- index
    exi = atom_executor(P, R)
    selfv = exi.sym_value("IrEmitter", "self")
    o_ = exi.sym_value("TypedExpr", "o")
    i_ = exi.sym_value("TypedExpr", "i")
    # an integer literal in the IR is never i64::MIN (the lexer produces 0..=i64::MAX; a leading minus is a separate node),
    # so `n.abs()` in the negative-index fallback cannot overflow
    i_kind = [x[0] for x in td.variants[0][1]].index("kind")
    exi.enc.side.append(f"(> {i_.child(None, i_kind).child('Int', 0).term} (- 9223372036854775808))")
    outs_i = exi.run(fi[0], [selfv, o_, i_])
    # ---- slice
    exs = atom_executor(P, R)
    selfs = exs.sym_value("IrEmitter", "self")
    t_ = exs.sym_value("TypedExpr", "t")
    s_ = exs.sym_value("std::option::Option<std::boxed::Box<TypedExpr>>", "s")
    e_ = exs.sym_value("std::option::Option<std::boxed::Box<TypedExpr>>", "e")
    p_ = exs.sym_value("std::option::Option<std::boxed::Box<TypedExpr>>", "p")
    outs_s = exs.run(fs[0], [selfs, t_, s_, e_, p_])
    items = []   # (kind, outcome, tokens, expected regex)
    panics = []
    for o in outs_i:
        if o.kind != "return":
            panics.append(("index", exi, o))
            continue
        toks = tokens_of(exi, o)
        if toks is None:
            continue      # an error of a sub-emission propagated with `?`
        bt = base_type(exi, o, o_.child(None, i_ty), R, mp)
        if bt in ("String", "FrozenStr"):
            want = r"^\(call:incan_stdlib::strings::str_index O I\)$"
        elif bt == "List":
            want = r"^(\(method:clone )?\(call:incan_stdlib::collections::list_get O I\)\)?$"
        elif bt == "Dict":
            want = r"^(\(method:clone )?\(call:incan_stdlib::collections::dict_get O I\)\)?$"
        else:
            want = None
        items.append(("index " + str(bt), exi, o, toks, want))

    def present(o, sym):
        f = o.state.facts.get(sym.tag().term)
        return None if not f or f[0] != "eq" else (f[1] == 1)
    for o in outs_s:
        if o.kind != "return":
            panics.append(("slice", exs, o))
            continue
        toks = tokens_of(exs, o)
        if toks is None:
            continue
        bt = base_type(exs, o, t_.child(None, i_ty), R, mp)
        pres = [present(o, x) for x in (s_, e_, p_)]
        if None in pres:
            items.append(("slice ?", exs, o, toks, "^$"))
            continue
        args = " ".join((f"(call:Some {n})" if pr else "None") for n, pr in zip("SEP", pres))
        helper = "incan_stdlib::strings::str_slice" if bt in ("String", "FrozenStr") else "incan_stdlib::collections::list_slice"
        items.append((f"slice {bt} {pres}", exs, o, toks, "^" + re.escape(f"(call:{helper} T {args})") + "$"))
    parsed = syn_batch([it[3] for it in items], log_dir)
    failing = []
    for it, pr in zip(items, parsed):
        if it[4] is None:
            continue     # container kinds without a documented helper (fallback emission) are outside the statement
        if not (pr[0] == "OK" and re.match(it[4], pr[1])):
            failing.append((it, pr))
    feas = []
    for it, pr in failing:
        res = solver.check(mp.smt_lines(it[1], [conj(it[2].pc)]), [], "z3", 60)
        if res.status == "sat":
            feas.append((it, pr))
    r = {"id": "E-emit-index-slice", "engine": "E2-X mirsmt + syn",
         "statement": "`x[i]` is emitted as incan_stdlib::strings::str_index(&x, i) for str / FrozenStr (also behind a reference), "
                      "collections::list_get for lists, collections::dict_get for dicts; `x[a:b:c]` as strings::str_slice / collections::list_slice "
                      "(&x, start, end, step) with each bound in its own position and an absent bound emitted as None - on every path",
         "bound": f"all IrType variants of the container (one level of Ref/RefMut), presence/absence of each of the three bounds; operands as atoms; "
                  f"{len(outs_i)} + {len(outs_s)} paths",
         "encoding": "enum tags as bounded Int; tokens as pushed strings; parsing by syn",
         "functions_encoded": [n + " (MIR)" for n in exi.encoded + exs.encoded], "paths": len(outs_i) + len(outs_s),
         "samples_tokens": [{"case": it[0], "tokens": rust_text(it[3])} for it in items[:3] + items[-3:]]}
    base = os.path.join(log_dir, "E-emit-index-slice")
    vac = solver.check(mp.smt_lines(exs, [disj([conj(o.pc) for o in outs_s if o.kind == "return"])]), [], "z3", 60, save_as=base + ".vac.smt2")
    if vac.status != "sat" or not items:
        r.update(status="inconclusive", reason=f"vacuity twin {vac.status}", wall_s=round(time.time() - t0, 2))
        return r
    r["vacuity_ok"] = True
    for kind, ex_, o in panics:
        res = solver.check(mp.smt_lines(ex_, [conj(o.pc)]), [], "z3", 60)
        if res.status == "sat":
            r.update(status="inconclusive", wall_s=round(time.time() - t0, 2),
                     reason=f"a feasible path of the {kind} emitter panics or returns an error ({o.info})")
            return r
    r["wall_s"] = round(time.time() - t0, 2)
    if not feas:
        r.update(status="held", solver=f"{len(items)} path classes parse (syn) to the documented helper call")
        return r
    it, pr = feas[0]
    rec = {"case": it[0], "emitted": rust_text(it[3]), "syn": f"{pr[0]} {pr[1]}", "documented": it[4]}
    broken, text = native_index_slice(it[0], log_dir)
    r["native"] = text
    if broken:
        os.makedirs(os.path.join(common.REPLAYS_DIR, "MIRX"), exist_ok=True)
        rp = os.path.join(common.REPLAYS_DIR, "MIRX", "E-emit-index-slice.replay")
        with open(rp, "w") as fh:
            fh.write(f"mirx indexslice {it[0].replace(' ', '_')}\n# {rec}\n# {text}\n")
        r.update(status="violated", replay=rp, counterexample={"class": rec, "native": text})
    else:
        r.update(status="inconclusive", reason=f"class {rec} does not reproduce through the real pipeline: {text}")
    return r


def native_slice_sentence(cty, bt, pieces, log_dir):
    """-> (broken?, text) for `x[a:b:c]` with the given pieces ('' = absent) on a container of surface type cty"""
    import kani
    is_str = bt in ("String", "FrozenStr")
    a, b, c = pieces
    sl = f"{a}:{b}" + (f":{c}" if c else "")
    src = f"def f(x: {cty}, a: int, b: int, c: int) -> {cty}:\n    return x[{sl}]\n"
    helper = "incan_stdlib::strings::str_slice" if is_str else "incan_stdlib::collections::list_slice"
    args = " ".join((f"(call:Some {n})" if n else "None") for n in pieces)
    want = "^" + re.escape(f"(call:{helper} x {args})") + "$"
    path = os.path.join(log_dir, "indexslice_replay.incn")
    with open(path, "w") as fh:
        fh.write(src)
    texts, broken = [], False
    for prof in ("dev", "release"):
        binp = kani.build_replay(prof, True, log_dir)
        rc, out, _, to = common.run([binp, "emitrust", path], timeout=60)
        m = re.search(r"fn f\([^)]*\)[^{]*\{\s*return (.*?);\s*\}", out, re.S)
        if not m:
            if "CODEGEN-ERROR" in out:
                broken = True
                texts.append(f"[{prof}] code generation fails: {out.strip()[-120:]}")
                continue
            return None, f"no generated body: {out.strip()[-200:]}"
        res = syn_batch([rust_tokens(m.group(1))], log_dir)[0]
        ok = res[0] == "OK" and re.match(want, res[1]) is not None
        broken = broken or not ok
        texts.append(f"[{prof}] `{src.strip().splitlines()[-1].strip()}` on {cty} emitted as `{m.group(1).strip()}` -> {res[1]}")
    return broken, "; ".join(texts)


def native_index_slice(case, log_dir):
    """case: 'index String' | 'index List' | 'slice String [True, False, True]' ...  -> (broken?, text)"""
    import kani
    parts = case.replace("_", " ").split(" ", 2)
    kind, bt = parts[0], parts[1]
    is_str = bt in ("String", "FrozenStr")
    cty = "str" if is_str else "List[int]"
    if kind == "index":
        if bt not in ("String", "List"):
            return None, f"no surface program for indexing a {bt}"
        src = f"def f(x: {cty}, i: int) -> {'str' if is_str else 'int'}:\n    return x[i]\n"
        helper = "incan_stdlib::strings::str_index" if is_str else "incan_stdlib::collections::list_get"
        want = rf"^(\(method:clone )?\(call:{re.escape(helper)} x i\)\)?$"
    elif len(parts) < 3 or "?" in case:
        # the path does not examine which bounds are present (e.g. a shortcut keyed on something else): replay a battery of slice
        # sentences, with variable and with literal bounds, on both container kinds
        texts, broken = [], False
        for cty_, bt_ in (("str", "String"), ("List[int]", "List")):
            for pieces in (("a", "b", "c"), ("a", "b", ""), ("a", "", ""), ("", "b", ""), ("", "", "c"), ("3", "1", ""), ("0", "2", ""),
                           ("1", "", ""), ("", "2", ""), ("0", "", "c"), ("4", "2", ""), ("2", "2", "")):
                b_, t_ = native_slice_sentence(cty_, bt_, pieces, log_dir)
                if b_ is None:
                    return None, t_
                if b_:
                    broken = True
                    texts.append(t_)
        return broken, "; ".join(texts[:4]) or "24 slice sentences (variable and literal bounds, str and list) are emitted as the documented helper call"
    else:
        pres = [w.strip(" [],") == "True" for w in parts[2].split(",")]
        return native_slice_sentence(cty, bt, tuple((n if pr else "") for n, pr in zip("abc", pres)), log_dir)
    path = os.path.join(log_dir, "indexslice_replay.incn")
    with open(path, "w") as fh:
        fh.write(src)
    texts, broken = [], False
    for prof in ("dev", "release"):
        binp = kani.build_replay(prof, True, log_dir)
        rc, out, _, to = common.run([binp, "emitrust", path], timeout=60)
        m = re.search(r"fn f\([^)]*\)[^{]*\{\s*return (.*?);\s*\}", out, re.S)
        if not m:
            if "CODEGEN-ERROR" in out:
                broken = True
                texts.append(f"[{prof}] code generation fails: {out.strip()[-120:]}")
                continue
            return None, f"no generated body: {out.strip()[-200:]}"
        res = syn_batch([rust_tokens(m.group(1))], log_dir)[0]
        ok = res[0] == "OK" and re.match(want, res[1]) is not None
        broken = broken or not ok
        texts.append(f"[{prof}] `{src.strip().splitlines()[-1].strip()}` emitted as `{m.group(1).strip()}` -> {res[1]}")
    return broken, "; ".join(texts)


def op_facts(o, term):
    f = o.state.facts.get(term)
    return f[1] if f and f[0] == "eq" else None


def sexpr(text):
    """`(bin+ L (bin* R X))` -> ('bin+', 'L', ('bin*', 'R', 'X'))"""
    toks = re.findall(r"\(|\)|[^\s()]+", text)
    pos = 0

    def rd():
        nonlocal pos
        t = toks[pos]
        pos += 1
        if t == "(":
            out = []
            while toks[pos] != ")":
                out.append(rd())
            pos += 1
            return tuple(out)
        return t
    return rd()


def sx_text(t):
    return t if isinstance(t, str) else "(" + " ".join(sx_text(x) for x in t) + ")"


def sx_subst(t, m):
    if isinstance(t, str):
        return m.get(t, t)
    return tuple(sx_subst(x, m) for x in t)


INFIX_TOK = {"Add": "+", "Sub": "-", "Mul": "*", "Eq": "==", "Ne": "!=", "Lt": "<", "Le": "<=", "Gt": ">", "Ge": ">=", "And": "&&", "Or": "||",
             "BitAnd": "&", "BitOr": "|", "BitXor": "^", "Shl": "<<", "Shr": ">>"}


def flat_expected_ok(opn, toks, sk_text_):
    if opn in ("Div", "FloorDiv", "Mod"):
        return re.match(r"^\(call:incan_stdlib::num::\w+ L R\)$", sk_text_) is not None
    if opn == "Pow":
        return sk_text_ in ("(method:pow L R)", "(method:powf L R)")
    if toks[:4] == ["incan_stdlib", "::", "strings", "::"]:
        return re.match(r"^\(call:incan_stdlib::strings::\w+ L R\)$", sk_text_) is not None
    tok = INFIX_TOK.get(opn)
    return tok is not None and sk_text_ == f"(bin{tok} L R)"


def wrap_casts(toks):
    """`( X ) as f64` -> `( ( X ) as f64 )` (the repair that would make a cast safe in any context)"""
    out = []
    i = 0
    while i < len(toks):
        if toks[i] == "(" and i + 4 < len(toks) and toks[i + 2] == ")" and toks[i + 3] == "as":
            out += ["("] + toks[i:i + 5] + [")"]
            i += 5
        else:
            out.append(toks[i])
            i += 1
    return out


TYNAME = {"Int": "int", "Float": "float", "Bool": "bool", "String": "str"}


def class_types(ex, o, l, r, R, mp):
    td = R.resolve("TypedExpr")
    i_ty = [x[0] for x in td.variants[0][1]].index("ty")
    irt = mp.variants(R, "IrType")
    out = []
    for e in (l, r):
        f = o.state.facts.get(e.child(None, i_ty).tag().term)
        out.append(irt[f[1]] if f and f[0] == "eq" else None)
    return out


def native_flat(opn, lt, rt, log_dir):
    """Compile `let x = a <op> b` through the real pipeline; -> (broken: bool|None, text)"""
    import kani
    iop = INCAN_OP.get(opn)
    if iop is None or lt not in TYNAME or rt not in TYNAME:
        return None, f"no surface program for {opn} on ({lt}, {rt})"
    src = f"def f(a: {TYNAME[lt]}, b: {TYNAME[rt]}) -> None:\n    let x = a {iop} b\n"
    path = os.path.join(log_dir, "flat_replay.incn")
    with open(path, "w") as fh:
        fh.write(src)
    texts = []
    broken = False
    for prof in ("dev", "release"):
        binp = kani.build_replay(prof, True, log_dir)
        rc, out, _, to = common.run([binp, "emitrust", path], timeout=60)
        if "CODEGEN-ERROR" in out:
            broken = True
            texts.append(f"[{prof}] `a {iop} b` with a: {TYNAME[lt]}, b: {TYNAME[rt]} type-checks but code generation fails on its own output: "
                         + out.strip().splitlines()[-1][:160])
            continue
        if "REJECTED" in out or "ERROR" in out:
            return None, f"program not accepted: {out.strip()[-160:]}"
        m = re.search(r"let x(?:\s*:[^=]+)? = (.*?);", out, re.S)
        if not m:
            return None, f"no `let x` in the generated code: {out.strip()[-200:]}"
        res = syn_batch([rust_tokens(m.group(1))], log_dir)[0]
        ok = res[0] == "OK" and re.match(r"^\((bin\S+|call:\S+|method:\S+) a b\)$", res[1]) is not None
        broken = broken or not ok
        texts.append(f"[{prof}] emitted `{m.group(1).strip()}` -> {res}")
    return broken, "; ".join(texts), src


def run_flat(P, R, log_dir):
    """Every path of emit_binop_expr emits a Rust expression (as decided by syn) whose operator skeleton is <op>(left, right)
    in the documented form."""
    import mirx_props as mp
    t0 = time.time()
    (ex, op, l, r, outs), _ = flat_runs(P, R)
    ops = mp.variants(R, IR_OP)
    classes = {}
    panics = []
    for o in outs:
        if o.kind != "return":
            panics.append(o)
            continue
        toks = tokens_of(ex, o)
        k = op_facts(o, op.tag().term)
        if toks is None or k is None:
            panics.append(o)
            continue
        classes.setdefault((ops[k], tuple(toks)), o)
    keys = list(classes)
    parsed = syn_batch([list(k[1]) for k in keys], log_dir)
    failing = [(k, pr) for k, pr in zip(keys, parsed) if not (pr[0] == "OK" and flat_expected_ok(k[0], list(k[1]), pr[1]))]
    repaired = syn_batch([wrap_casts(list(k[1])) for k, _ in failing], log_dir) if failing else []
    known_cls, other = [], []
    for (k, pr), rp in zip(failing, repaired):
        # feasibility of the class (solver)
        res = solver.check(mp.smt_lines(ex, [conj(classes[k].pc)]), [], "z3", 60)
        if res.status != "sat":
            continue
        rec = {"op": k[0], "emitted": rust_text(list(k[1])), "syn": f"{pr[0]} {pr[1]}"}
        if rp[0] == "OK" and flat_expected_ok(k[0], list(k[1]), rp[1]):
            known_cls.append((k, rec))
        else:
            other.append((k, rec))
    r = {"id": "E-emit-flat", "engine": "E2-X mirsmt + syn",
         "statement": "emit_binop_expr: on every path the emitted tokens are a Rust expression (as decided by syn, the parser the compiler runs "
                      "on its own output) whose operator skeleton is <op>(left, right) with the operands in source order (each at most wrapped "
                      "in the plan's `as f64` conversion / a deref), in the documented form: `/ // %` a call into incan_stdlib::num, `**` "
                      ".pow/.powf, every other operator its Rust infix token; no path panics",
         "bound": f"all {len(ops)} BinOp x all IrType variants of both operands x all right-operand shapes; operand emission summarised as atoms; "
                  f"{len(outs)} paths, {len(keys)} distinct token classes",
         "encoding": "enum tags as bounded Int; tokens as pushed strings",
         "functions_encoded": [n + " (MIR)" for n in ex.encoded], "paths": len(outs), "distinct_token_classes": len(keys),
         "cast_tail_classes": [x[1] for x in known_cls][:6], "other_failing_classes": [x[1] for x in other][:6]}
    base = os.path.join(log_dir, "E-emit-flat")
    vac, _ = mp.query(ex, [disj([conj(o.pc) for o in outs if o.kind == "return"])], [], base + ".vac")
    if vac.status != "sat":
        r.update(status="inconclusive", reason=f"vacuity twin {vac.status}", wall_s=round(time.time() - t0, 2))
        return r
    r["vacuity_ok"] = True
    if panics:
        res, _ = mp.query(ex, [disj([conj(o.pc) for o in panics])], mp.tag_names(ex), base)
        if res.status != "unsat":
            r.update(status="inconclusive", wall_s=round(time.time() - t0, 2),
                     reason=f"a feasible path of emit_binop_expr panics or returns an error ({panics[0].info}); no native replay for this case")
            return r
    r["wall_s"] = round(time.time() - t0, 2)
    kfs = [k for k in common.load_known_findings().get("findings", []) if k.get("property") == "C01" and k.get("obligation") == "E-emit-flat"]

    def report(k, rec, what):
        lt, rt = class_types(ex, classes[k], l, r, R, mp)
        got = native_flat(k[0], lt, rt, log_dir)
        broken, text = got[0], got[1]
        r["native"] = text
        if broken:
            os.makedirs(os.path.join(common.REPLAYS_DIR, "MIRX"), exist_ok=True)
            rp = os.path.join(common.REPLAYS_DIR, "MIRX", "E-emit-flat.replay")
            with open(rp, "w") as fh:
                fh.write(f"mirx flat {k[0]} {lt} {rt}\n# {what}: {rec}\n# {text}\n")
            r.update(status="violated", replay=rp, counterexample={"class": rec, "native": text})
        else:
            r.update(status="inconclusive", reason=f"{what} {rec} does not reproduce through the real pipeline: {text}")
        return r
    if other:
        return report(other[0][0], other[0][1], "emitted tokens are not the documented expression")
    if known_cls:
        if not kfs:
            return report(known_cls[0][0], known_cls[0][1], "an `as f64` conversion is followed by a token that cannot follow a cast")
        kf = kfs[0]
        w = kf["witness"]
        broken, text, _ = native_flat(w["op"], w["left"], w["right"], log_dir)
        r["witness"] = text
        if broken:
            r.update(status="known-finding", finding=f"obligation=E-emit-flat {kf['what']} ({len(known_cls)} token classes, all repaired by "
                     f"parenthesising the cast; witness: {text[:200]})")
        else:
            r.update(status="inconclusive", reason=f"stored known-finding witness no longer reproduces ({text})")
        return r
    if kfs:
        r.update(status="inconclusive", reason="known_findings.json lists a cast-tail finding but no class fails any more: remove the stale entry")
        return r
    r.update(status="held", solver="every token class parses (syn) to the documented skeleton")
    return r


INCAN_OP = {"Add": "+", "Sub": "-", "Mul": "*", "Div": "/", "FloorDiv": "//", "Mod": "%", "Pow": "**", "Eq": "==", "Ne": "!=", "Lt": "<",
            "Le": "<=", "Gt": ">", "Ge": ">=", "And": "and", "Or": "or"}


def run_grouping(P, R, log_dir):
    import mirx_props as mp
    t0 = time.time()
    (exb, op, l, r, outs_b), (exu, e, kind, outs_u) = flat_runs(P, R)
    ops = mp.variants(R, IR_OP)
    uops = mp.variants(R, "ir::expr::UnaryOp")
    bin_raw, un_raw = {}, {}
    for o in outs_b:
        if o.kind != "return":
            continue
        toks = tokens_of(exb, o)
        k = op_facts(o, op.tag().term)
        if toks is not None and k is not None:
            bin_raw.setdefault((ops[k], tuple(toks)), o)
    uop = kind.child("UnaryOp", 0)
    for o in outs_u:
        if o.kind != "return":
            continue
        toks = tokens_of(exu, o)
        k = op_facts(o, uop.tag().term)
        if toks is not None and k is not None:
            un_raw.setdefault((uops[k], tuple(toks)), o)
    nq = 0
    for d, ex_ in ((bin_raw, exb), (un_raw, exu)):
        for key in list(d):
            res = solver.check(mp.smt_lines(ex_, [conj(d[key].pc)]), [], "z3", 60)
            nq += 1
            if res.status != "sat":
                del d[key]
    bkeys, ukeys = list(bin_raw), list(un_raw)
    parsed = syn_batch([list(k[1]) for k in bkeys] + [list(k[1]) for k in ukeys], log_dir)
    bin_cls = {k: sexpr(p[1]) for k, p in zip(bkeys, parsed[:len(bkeys)]) if p[0] == "OK"}
    un_cls = {k: sexpr(p[1]) for k, p in zip(ukeys, parsed[len(bkeys):]) if p[0] == "OK"}
    outer = []
    for (name, toks), sk in bin_cls.items():
        outer.append((f"{name}:left", list(toks), "@l", "L", sk))
        outer.append((f"{name}:right", list(toks), "@r", "R", sk))
    for (name, toks), sk in un_cls.items():
        hole = [t for t in toks if t.startswith("@")]
        if len(hole) == 1:
            outer.append((f"unary {name}", list(toks), hole[0], "O", sk))
    inner = [(name, [("@a" if t == "@l" else "@b" if t == "@r" else t) for t in toks], sx_subst(sk, {"L": "A", "R": "B"}))
             for (name, toks), sk in bin_cls.items()]
    comps, fixes, wants, labels = [], [], [], []
    for olabel, otoks, hole, hname, osk in outer:
        for iname, itoks, isk in inner:
            c, f = [], []
            for t in otoks:
                c += itoks if t == hole else [t]
                f += (["("] + itoks + [")"]) if t == hole else [t]
            comps.append(c)
            fixes.append(f)
            wants.append(sx_text(sx_subst(osk, {hname: isk})))
            labels.append((olabel, iname))
    got = syn_batch(comps, log_dir)
    bad_idx = [i for i, g in enumerate(got) if not (g[0] == "OK" and g[1] == wants[i])]
    fixed = syn_batch([fixes[i] for i in bad_idx], log_dir) if bad_idx else []
    mism_known, mism_other = [], []
    for i, fx in zip(bad_idx, fixed):
        rec = {"outer": labels[i][0], "inner": labels[i][1], "emitted": rust_text(comps[i]), "means": f"{got[i][0]} {got[i][1]}", "should_mean": wants[i]}
        (mism_known if (fx[0] == "OK" and fx[1] == wants[i]) else mism_other).append(rec)
    total = len(comps)
    kfs = [k for k in common.load_known_findings().get("findings", []) if k.get("property") == "C01" and k.get("obligation") == "G-grouping"]
    r = {"id": "G-grouping", "engine": "E2-X mirsmt + syn",
         "statement": "when an operand of a binary or unary operator expression is itself a binary operator expression, the emitted Rust "
                      "tokens group exactly as the IR tree does (the source's parentheses / precedence are preserved)",
         "bound": f"{len(outer)} outer operator forms (every feasible emit_binop_expr path class x left/right hole, every unary form) x "
                  f"{len(inner)} inner binary forms = {total} compositions; nesting depth 2; operand leaves are atoms",
         "encoding": "path classes from symbolic execution (feasibility of each decided by z3); composition by verbatim splicing; parsing by syn",
         "functions_encoded": [n + " (MIR)" for n in exb.encoded + exu.encoded], "queries": nq,
         "compositions": total, "mismatch_missing_parentheses": len(mism_known), "mismatch_other": len(mism_other),
         "samples_mismatch": (mism_known[:3] + mism_other[:3]), "wall_s": round(time.time() - t0, 2), "vacuity_ok": total > 0}
    if mism_other:
        return finish_grouping(r, mism_other[0], log_dir, known=False)
    if mism_known:
        if not kfs:
            return finish_grouping(r, mism_known[0], log_dir, known=False)
        kf = kfs[0]
        ok, text = native_grouping(kf["witness"]["source"], kf["witness"]["fn"], kf["witness"]["should_group_as"], log_dir)
        r["witness"] = text
        if ok is False:
            r.update(status="known-finding", finding=f"obligation=G-grouping {kf['what']} ({len(mism_known)} operator combinations, all repaired by "
                     f"parenthesising the operand; witness: {kf['witness']['source'].strip().splitlines()[-1].strip()} -> {text})")
        else:
            r.update(status="inconclusive", reason=f"stored known-finding witness no longer reproduces ({text}) although {len(mism_known)} "
                     "compositions still mis-group: stale entry or encoder disagreement")
        return r
    if kfs:
        r.update(status="inconclusive", reason="known_findings.json lists a grouping finding but no composition mis-groups any more: remove the stale entry")
        return r
    r["status"] = "held"
    return r


# ---- native side: generate a program, run the real pipeline, parse the emitted Rust expression ------------------------------

def rust_tokens(text):
    return re.findall(r"::|<<|>>|<=|>=|==|!=|&&|\|\||[A-Za-z_]\w*|\d+(?:\.\d+)?|[-+*/%<>&|^!().,]", text)


def native_grouping(source, fn, should, log_dir):
    """Run lex/parse/check/codegen natively on `source`; compare the skeleton of fn's returned expression with `should`
    (a fully parenthesised Rust-like text over the parameter names). -> (same?: bool|None, text)"""
    import kani
    os.makedirs(log_dir, exist_ok=True)
    path = os.path.join(log_dir, "grouping_replay.incn")
    with open(path, "w") as f:
        f.write(source)
    verdicts = []
    text = ""
    for prof in ("dev", "release"):
        binp = kani.build_replay(prof, True, log_dir)
        rc, out, _, to = common.run([binp, "emitrust", path], timeout=60)
        m = re.search(r"fn " + re.escape(fn) + r"\([^)]*\)[^{]*\{\s*return (.*?);\s*\}", out, re.S)
        if not m and "SynParse" in out:
            # the emitted tokens are not even a Rust expression (e.g. `a == b == c`): the grouping was lost
            verdicts.append(False)
            text = "code generation fails on its own output: " + out.strip()[-160:]
            continue
        if not m:
            return None, f"no generated body for {fn}: {out.strip()[-200:]}"
        expr = m.group(1).strip()
        pg, pw = syn_batch([rust_tokens(expr), rust_tokens(should)], log_dir)
        if pw[0] != "OK":
            return None, f"cannot parse the expected grouping `{should}`"
        if pg[0] != "OK":
            verdicts.append(False)
            text = f"emitted `{expr}`, which is not a Rust expression ({pg[1]})"
            continue
        got, want = sexpr(pg[1]), sexpr(pw[1])
        verdicts.append(normalise(got) == normalise(want))
        text = f"emitted `{expr}`, which groups as {pg[1]}; the source groups as {pw[1]}"
    return all(verdicts), text


def normalise(sk):
    """helper calls and infix forms of the same operator are both fine; compare nesting + atom order only"""
    if isinstance(sk, str):
        return sk
    head = "un" if str(sk[0]).startswith("un") else "op"
    return (head,) + tuple(normalise(x) for x in sk[1:])


def finish_grouping(r, w, log_dir, known):
    # build a program for the witness
    outer, inner = w["outer"], w["inner"]
    src, fn, should = witness_program(outer, inner)
    if src is None:
        r.update(status="inconclusive", reason=f"mis-grouping {w} found but no surface program could be built for it")
        return r
    ok, text = native_grouping(src, fn, should, log_dir)
    r["native"] = text
    if ok is False:
        os.makedirs(os.path.join(common.REPLAYS_DIR, "MIRX"), exist_ok=True)
        rp = os.path.join(common.REPLAYS_DIR, "MIRX", "G-grouping.replay")
        with open(rp, "w") as fh:
            fh.write(f"mirx grouping {fn} {should.replace(' ', '')}\n# {r['statement']}\n# {text}\n#SOURCE\n{src}")
        r.update(status="violated", replay=rp, counterexample={"composition": w, "native": text})
    else:
        r.update(status="inconclusive", reason=f"composition {w} does not reproduce through the real pipeline: {text}")
    return r


def witness_program(outer, inner):
    """(source, fn name, expected grouping text) for an outer form label like `Mul:left` / `unary Neg` and an inner operator name."""
    iop = INCAN_OP.get(inner)
    if iop is None:
        return None, None, None
    arith_i = inner in ("Add", "Sub", "Mul", "Div", "FloorDiv", "Mod", "Pow")
    ity = "int" if arith_i or inner in ("Eq", "Ne", "Lt", "Le", "Gt", "Ge") else "bool"
    ires = "bool" if inner in ("Eq", "Ne", "Lt", "Le", "Gt", "Ge", "And", "Or") else ("float" if inner in ("Div",) else "int")
    if inner == "Pow":
        ires = "float"
    if outer.startswith("unary"):
        u = outer.split()[1]
        sym = {"Neg": "-", "Not": "not "}.get(u)
        if sym is None:
            return None, None, None
        res = ires
        src = f"def f(a: {ity}, b: {ity}) -> {res}:\n    return {sym}(a {iop} b)\n"
        rs = {"Neg": "-", "Not": "!"}[u]
        return src, "f", f"{rs}(a + b)"
    oname, side = outer.split(":")
    oop = INCAN_OP.get(oname)
    if oop is None:
        return None, None, None
    cty = ires if oname not in ("And", "Or") else "bool"
    ores = "bool" if oname in ("Eq", "Ne", "Lt", "Le", "Gt", "Ge", "And", "Or") else ("float" if (oname in ("Div", "Pow") or "float" in (ires, cty)) else "int")
    if side == "left":
        body, should = f"(a {iop} b) {oop} c", "(a + b) + c"
    else:
        body, should = f"c {oop} (a {iop} b)", "c + (a + b)"
    src = f"def f(a: {ity}, b: {ity}, c: {cty}) -> {ores}:\n    return {body}\n"
    return src, "f", should


def replay_indexslice(pid, path):
    head = open(path).readline().split()
    log_dir = os.path.join(common.WORK_DIR, pid, "replay")
    os.makedirs(log_dir, exist_ok=True)
    broken, text = native_index_slice(head[2], log_dir)
    say(text)
    if broken:
        say(f"VIOLATION property={pid} replay={path}")
        return 1
    return 0


def replay_flat(pid, path):
    head = open(path).readline().split()
    log_dir = os.path.join(common.WORK_DIR, pid, "replay")
    os.makedirs(log_dir, exist_ok=True)
    got = native_flat(head[2], head[3], head[4], log_dir)
    say(got[1])
    if got[0]:
        say(f"VIOLATION property={pid} replay={path}")
        return 1
    return 0


def replay_grouping(pid, path):
    lines = open(path).read().split("\n")
    head = lines[0].split()
    fn, should = head[2], head[3]
    src = "\n".join(lines[lines.index("#SOURCE") + 1:])
    log_dir = os.path.join(common.WORK_DIR, pid, "replay")
    ok, text = native_grouping(src, fn, re.sub(r"([+()])", r" \1 ", should), log_dir)
    say(text)
    if ok is False:
        say(f"VIOLATION property={pid} replay={path}")
        return 1
    return 0
