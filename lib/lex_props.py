"""E2-X obligation on the lexer's INDENT / DEDENT synthesis (C10): the decision taken at the start of a logical line - from the column of its first
character and the stack of open indentation levels - executed symbolically from the MIR of `Lexer::handle_indentation` (the part after the leading
white space has been counted), for stacks of 1..=3 levels with symbolic columns.

Decided: (L1) the outcome (tokens emitted, pending dedents, error, which levels stay open) depends only on the ORDER TYPE of (column, levels): two
states that are order-isomorphic take the same decision - this is what makes re-indenting a file consistently (2 or 4 spaces, tabs as 4 columns)
invisible to the parser, line after line; (L2) the decision is the documented one: INDENT iff the column is right of the innermost level, one
DEDENT per level that is right of the column, an error iff the column is not one of the remaining levels."""
import os
import re
import time

import common
from common import Inconclusive

import mirx
import solver
import symex
from mir import Place, Unsupported
from symex import Adt, Opaque, S


def indent_step_ob(mp, log_dir, tier="quick"):
    statement = ("Lexer::handle_indentation, the decision at the start of a logical line (column of the first character vs the stack of open levels): (L1) the outcome - "
                 "INDENT / DEDENT tokens, pending dedents, the inconsistent-indentation error, the levels left open - depends only on the order type of (column, levels), "
                 "so consistently re-indented text (2 or 4 spaces, tabs as 4 columns) takes the same decision on every line; (L2) INDENT iff the column is right of the "
                 "innermost level, exactly one DEDENT per open level right of the column, an error iff the column is none of the remaining levels")

    def run():
        import parse_props as pp
        t0 = time.time()
        P, R = pp.load()
        fs = [v for k, v in P.fns.items() if k.endswith("handle_indentation")]
        if len(fs) != 1:
            raise Inconclusive("Lexer::handle_indentation not found in the MIR dump")
        f = fs[0]
        entry = next((bn for bn, b in f.blocks.items() if any("Vec<usize>" in s_ and "&((*_1)" in s_ for s_ in b.stmts) and b.term and "Deref>::deref" in b.term), None)
        text = open(os.path.join(common.WORK_DIR, "mir", "incan_syntax.mir"), errors="replace").read()
        i0 = text.find("fn " + f.name)
        dbg = dict(re.findall(r"debug (\w+) => (_\d+);", text[i0:i0 + 8000])) if i0 >= 0 else {}
        if entry is None or "indent" not in dbg or "start" not in dbg:
            raise Inconclusive("the decision part of handle_indentation was not found (no borrow of the indent stack / no `indent` local)")
        names = [x[0] for x in R.resolve("lexer::Lexer").variants[0][1]] if R.resolve("lexer::Lexer") else []
        need = ["indent_stack", "pending_dedents", "at_line_start", "tokens", "errors"]
        if not all(n_ in names for n_ in need):
            raise Inconclusive(f"Lexer no longer has the fields {need}")
        bad, queries, npaths, encoded = [], 0, 0, set()
        for depth in ((1, 2, 3) if tier == "quick" else (1, 2, 3, 4, 5, 6, 7, 8)):
            ex = mirx.make_executor(P, R, max_paths=400000)
            ex.opaque_calls = mirx.slice_opaque
            ex.model_sequences = True
            ex.model_vecs = True
            ex.seq_bound = 3
            ex.tolerate_unsupported = True
            ex.max_steps = 4000
            ex.summarize = (r"Token::new$", r"Span::new$", r"CompileError::new$", r"fmt::", r"^format$", r"Arguments", r"must_use")

            def last(ex_, callee, args, st):
                v = ex_.deref(args[0], st)
                if isinstance(v, Adt) and v.ty == "Vec":
                    return [("return", Adt("Option", "Some", [v.fields[-1]]) if v.fields else Adt("Option", "None", []), None, st)]
                return mirx.st_slice_last(ex_, callee, args, st)

            def it(ex_, callee, args, st):
                v = ex_.deref(args[0], st)
                if isinstance(v, Adt) and v.ty == "Vec":
                    return [("return", mirx.SeqIter(v, 0, len(v.fields)), None, st)]
                return mirx.st_slice_iter(ex_, callee, args, st)
            ex.state_intrinsics = {**{r"\]>::last$": last, r"^core::slice::<impl \[.*\]>::iter$": it}, **dict(mirx.STATE_INTRINSICS)}
            lv = [S("int", "0", 64, False)] + [ex.sym_value("usize", n_) for n_ in ("a", "b", "c", "d", "e", "f", "g")[:depth - 1]]
            order = [f"(< {x.term} {y.term})" for x, y in zip(lv, lv[1:])]
            ex.enc.side += order
            col = ex.sym_value("usize", "i")
            known = {"indent_stack": Adt("Vec", "lit", lv), "pending_dedents": S("int", "0", 64, False), "at_line_start": S("bool", "true"),
                     "tokens": Adt("Vec", "lit", []), "errors": Adt("Vec", "lit", []), "current_pos": ex.sym_value("usize", "pos"),
                     "bracket_depth": S("int", "0", 64, False)}
            fields = [(n_, known.get(n_, Opaque(n_))) for n_ in names]
            st0 = symex.State()
            st0.store[0] = {"_self": Adt("Lexer", None, fields)}
            ex.call_stack = [f.name]
            try:
                outs = ex._run(f, [symex.Ref(0, Place("_self"))], {}, 0, st0, entry=entry, preset={dbg["indent"]: col, dbg["start"]: ex.sym_value("usize", "start")})
            except (Unsupported, symex.PathExplosion) as x:
                bad.append(f"depth {depth}: the decision is not executable by the model: {str(x)[:100]}")
                continue
            finally:
                ex.call_stack = []
            encoded |= set(ex.encoded)
            res = []
            feas = solver.check_many(mp.smt_lines(ex, []), [[symex.conj(o.pc)] for o in outs], "z3", 120)
            queries += len(outs)
            for o, fz in zip(outs, feas):
                if fz == "unsat":
                    continue
                npaths += 1
                if o.kind != "return":
                    bad.append(f"depth {depth}: {o.kind}: {o.info}")
                    continue
                fsd = dict(o.state.store[0]["_self"].fields)
                toks = tuple((re.search(r"TokenKind::(\w+)", " ".join(e[1])) or [None, "?"])[1] for e in o.state.events if e[0].endswith("Token::new"))
                left = tuple(x.term for x in fsd["indent_stack"].fields)
                out = (toks, fsd["pending_dedents"].term, len(fsd["errors"].fields), left, fsd["at_line_start"].term)
                res.append((o, out))
                # ---- L2: the documented decision
                top = lv[-1].term
                n_right = [f"(> {x.term} {col.term})" for x in lv]
                n_ded = toks.count("Dedent") + (int(fsd["pending_dedents"].term) if re.match(r"^\d+$", fsd["pending_dedents"].term) else 0)
                goals = []
                goals.append((f"(not (= {'true' if 'Indent' in toks else 'false'} (> {col.term} {top})))", "INDENT is not `column right of the innermost level`"))
                cnt = "(+ 0 " + " ".join(f"(ite {c} 1 0)" for c in n_right) + ")"
                goals.append((f"(not (= {n_ded} {cnt}))", f"{n_ded} DEDENT(s) although the number of levels right of the column differs"))
                member = "(or " + " ".join(f"(= {col.term} {x.term})" for x in lv) + ")"
                goals.append((f"(not (= {'true' if len(fsd['errors'].fields) else 'false'} (and (< {col.term} {top}) (not {member}))))",
                              "the inconsistent-indentation error is not `column left of the innermost level and equal to no open level`"))
                for g_, what in goals:
                    queries += 1
                    if solver.check(mp.smt_lines(ex, [symex.conj(list(o.pc) + [g_])]), [], "z3", 60).status != "unsat":
                        bad.append(f"depth {depth}, outcome {out[:3]}: {what}")
            # ---- L1: order-isomorphic states decide alike
            ren = {"a": "a2", "b": "b2", "c": "c2", "d": "d2", "e": "e2", "f": "f2", "g": "g2", "i": "i2", "pos": "pos2", "start": "start2"}

            def rn(t_):
                return re.sub(r"(?<![\w!.])(a|b|c|d|e|f|g|i|pos|start)(?![\w!.])", lambda m_: ren[m_.group(1)], t_)
            for d_ in list(ex.enc.decls):
                m_ = re.match(r"^\(declare-const (a|b|c|d|e|f|g|i|pos|start) (.*)\)$", d_)
                if m_:
                    ex.enc.decls.append(f"(declare-const {ren[m_.group(1)]} {m_.group(2)})")
            ex.enc.side += [rn(s_) for s_ in list(ex.enc.side)]
            vs = [x.term for x in lv] + [col.term]
            iso = []
            for x in range(len(vs)):
                for y in range(len(vs)):
                    if x < y:
                        iso.append(f"(= (< {vs[x]} {vs[y]}) (< {rn(vs[x])} {rn(vs[y])}))")
                        iso.append(f"(= (= {vs[x]} {vs[y]}) (= {rn(vs[x])} {rn(vs[y])}))")
            pairs = [(p, q) for p in res for q in res if p[1] != q[1]]
            qs = [[symex.conj(list(p[0].pc) + [rn(c) for c in q[0].pc] + iso)] for p, q in pairs]
            verd = solver.check_many(mp.smt_lines(ex, []), qs, "z3", 300) if qs else []
            queries += len(qs)
            for (p, q), v_ in zip(pairs, verd):
                if v_ != "unsat":
                    bad.append(f"depth {depth}: two order-isomorphic states decide differently: {p[1][:3]} vs {q[1][:3]} [{v_}]")
                    break
        r = {"id": "X-indent_step", "engine": "E2-X mirsmt", "statement": statement,
             "bound": f"stacks of 1..={3 if tier == 'quick' else 8} open levels (0 < a < b < .., symbolic) and any column; the slice starts where the leading white space has been counted (spaces = 1, tabs = 4 "
                      "columns is the counting loop before it, not covered); blank / comment-only lines, bracket depth and end of file are handled before this point and are outside",
             "functions_encoded": sorted(x + " (MIR)" for x in encoded), "paths": npaths, "queries": queries, "wall_s": round(time.time() - t0, 2)}
        if npaths == 0 and not bad:
            r.update(status="inconclusive", reason="no feasible path explored")
            return r
        r["vacuity_ok"] = True
        if not bad:
            r.update(status="held", solver=f"{queries} z3 queries: every decision is the documented one and a function of the order type")
            return r
        why = "; ".join(bad[:4])
        broken, textn = layout_native(log_dir)
        r["native"] = textn[:500]
        if broken:
            os.makedirs(os.path.join(common.REPLAYS_DIR, "MIRX"), exist_ok=True)
            rp = os.path.join(common.REPLAYS_DIR, "MIRX", "X-indent_step.replay")
            open(rp, "w").write(f"mirx lexlayout\n# {why[:500]}\n# native: {textn[:500]}\n")
            r.update(status="violated", replay=rp, counterexample={"path": why[:500], "native": textn[:500]})
        else:
            r.update(status="inconclusive", reason=f"the decision deviates ({why[:300]}) but every layout variant of the example program parses to the same program")
        return r
    return mp.XOb("X-indent_step", statement, "", run)


def _vec_intrinsics():
    def last(ex_, callee, args, st):
        v = ex_.deref(args[0], st)
        if isinstance(v, Adt) and v.ty == "Vec":
            return [("return", Adt("Option", "Some", [v.fields[-1]]) if v.fields else Adt("Option", "None", []), None, st)]
        return mirx.st_slice_last(ex_, callee, args, st)

    def it(ex_, callee, args, st):
        v = ex_.deref(args[0], st)
        if isinstance(v, Adt) and v.ty == "Vec":
            return [("return", mirx.SeqIter(v, 0, len(v.fields)), None, st)]
        return mirx.st_slice_iter(ex_, callee, args, st)
    return {r"\]>::last$": last, r"^core::slice::<impl \[.*\]>::iter$": it}


def _cursor(st):
    return st.facts.get("lex!cursor", ("eq", 0))[1]


def _char_stream(chars):
    """Stand-ins for Lexer::{peek, advance, is_at_end} (their bodies drive a Peekable<CharIndices>, which the executor has no model of): the rest of the
    source text is the sequence `chars` of symbolic scalar values followed by the end of input; peek looks at the next one, advance consumes it."""
    n = len(chars)

    def peek(ex_, callee, args, st):
        k = _cursor(st)
        return [("return", Adt("Option", "Some", [chars[k]]) if k < n else Adt("Option", "None", []), None, st)]

    def adv(ex_, callee, args, st):
        k = _cursor(st)
        if k < n:
            st.facts["lex!cursor"] = ("eq", k + 1)
            return [("return", Adt("Option", "Some", [chars[k]]), None, st)]
        return [("return", Adt("Option", "None", []), None, st)]

    def at_end(ex_, callee, args, st):
        return [("return", S("bool", "true" if _cursor(st) >= n else "false"), None, st)]

    def opt_eq(ex_, callee, args, st):
        a, b = ex_.deref(args[0], st), ex_.deref(args[1], st)
        if not (isinstance(a, Adt) and isinstance(b, Adt) and a.ty == "Option" and b.ty == "Option"):
            raise Unsupported(f"Option<char> == on {a!r}, {b!r}")
        if a.variant != b.variant:
            return [("return", S("bool", "false"), None, st)]
        if a.variant == "None":
            return [("return", S("bool", "true"), None, st)]
        x, y = ex_.deref(a.fields[0], st), ex_.deref(b.fields[0], st)
        return [("return", S("bool", symex.simplify_bool(f"(= {x.term} {y.term})")), None, st)]
    return {r"^Lexer::<'_>::peek$": peek, r"^Lexer::<'_>::advance$": adv, r"^Lexer::<'_>::is_at_end$": at_end,
            r"^<(std::option::)?Option<char> as (std::cmp::)?PartialEq>::eq$": opt_eq}


def decision_goals(lv, col, toks, fsd):
    """the documented decision for column `col` against the open levels `lv` (SMT terms), as (negated goal, description) pairs over one observed outcome"""
    top = lv[-1]
    n_ded = toks.count("Dedent") + (int(fsd["pending_dedents"].term) if re.match(r"^\d+$", fsd["pending_dedents"].term) else 10 ** 6)
    goals = [(f"(not (= {'true' if 'Indent' in toks else 'false'} (> {col} {top})))", "INDENT is not `column right of the innermost level`")]
    cnt = "(+ 0 " + " ".join(f"(ite (> {x} {col}) 1 0)" for x in lv) + ")"
    goals.append((f"(not (= {n_ded} {cnt}))", f"{n_ded} DEDENT(s) although the number of levels right of the column differs"))
    member = "(or " + " ".join(f"(= {col} {x})" for x in lv) + ")"
    goals.append((f"(not (= {'true' if len(fsd['errors'].fields) else 'false'} (and (< {col} {top}) (not {member}))))",
                  "the inconsistent-indentation error is not `column left of the innermost level and equal to no open level`"))
    left = [x.term for x in fsd["indent_stack"].fields]
    keep = "(+ 0 " + " ".join(f"(ite (<= {x} {col}) 1 0)" for x in lv) + f" (ite (> {col} {top}) 1 0))"
    goals.append((f"(not (= {len(left)} {keep}))", f"{len(left)} levels stay open although the number of levels not right of the column (plus the new one) differs"))
    m_ = min(len(left), len(lv))
    if left[:m_] != list(lv[:m_]) or (len(left) > len(lv) and (len(left) != len(lv) + 1)):
        goals.append(("true", f"the levels left open {left} are not a prefix of the open levels {list(lv)}"))
    elif len(left) == len(lv) + 1:
        goals.append((f"(not (= {left[-1]} {col}))", "the level pushed is not the column"))
    return goals


def indent_count_ob(mp, log_dir, tier="quick"):
    statement = ("Lexer::handle_indentation as a whole on the next N symbolic characters of the source (any Unicode scalar values) and a symbolic stack of open levels, against a "
                 "reference: leading spaces count 1 column, tabs 4, carriage returns 0; a line whose first other character is `#` or a line feed is invisible (no token, no level "
                 "opened or closed, the lexer stays at line start, and exactly the line - through its line feed - is consumed); at the end of input nothing is emitted and no level changes; otherwise "
                 "the INDENT / DEDENT / error decision is the documented one for the counted column and the first character of the line is not consumed")

    def run():
        import parse_props as pp
        t0 = time.time()
        P, R = pp.load()
        fs = [v for k, v in P.fns.items() if k.endswith("handle_indentation")]
        if len(fs) != 1:
            raise Inconclusive("Lexer::handle_indentation not found in the MIR dump")
        f = fs[0]
        td = R.resolve("lexer::Lexer")
        names = [x[0] for x in td.variants[0][1]] if td else []
        if not all(n_ in names for n_ in ("indent_stack", "pending_dedents", "at_line_start", "tokens", "errors")):
            raise Inconclusive("Lexer no longer has the fields of the layout state")
        N = 3 if tier == "quick" else 7
        bad, queries, npaths, encoded = [], 0, 0, set()
        for depth in (2, 3):
            ex = mirx.make_executor(P, R, max_paths=2000000)
            ex.opaque_calls = mirx.slice_opaque
            ex.model_sequences = True
            ex.model_vecs = True
            ex.seq_bound = 3
            ex.tolerate_unsupported = True
            ex.max_steps = 40000
            ex.loop_bound = N + 2
            ex.char_consts_as_int = True
            ex.summarize = (r"Token::new$", r"Span::new$", r"CompileError::new$", r"fmt::", r"^format$", r"Arguments", r"must_use")
            chars = [ex.sym_value("u32", f"ch{k}") for k in range(N)]
            ex.enc.side += [f"(and (<= 0 {c.term}) (<= {c.term} 1114111))" for c in chars]
            ex.state_intrinsics = {**_char_stream(chars), **_vec_intrinsics(), **dict(mirx.STATE_INTRINSICS)}
            lv = [S("int", "0", 64, False)] + [ex.sym_value("usize", n_) for n_ in ("a", "b")[:depth - 1]]
            ex.enc.side += [f"(< {x.term} {y.term})" for x, y in zip(lv, lv[1:])]
            known = {"indent_stack": Adt("Vec", "lit", lv), "pending_dedents": S("int", "0", 64, False), "at_line_start": S("bool", "true"),
                     "tokens": Adt("Vec", "lit", []), "errors": Adt("Vec", "lit", []), "current_pos": ex.sym_value("usize", "pos"),
                     "bracket_depth": S("int", "0", 64, False)}
            st0 = symex.State()
            st0.store[0] = {"_self": Adt("Lexer", None, [(n_, known.get(n_, Opaque(n_))) for n_ in names])}
            ex.call_stack = [f.name]
            try:
                outs = ex._run(f, [symex.Ref(0, Place("_self"))], {}, 0, st0)
            except (Unsupported, symex.PathExplosion) as x:
                bad.append(f"depth {depth}: handle_indentation is not executable by the model: {str(x)[:100]}")
                continue
            finally:
                ex.call_stack = []
            encoded |= set(ex.encoded)
            lvt = [x.term for x in lv]
            cs = [c.term for c in chars]

            # ---- the reference, as nested ite terms over the N characters
            def nl(k):
                return str(N) if k == N else f"(ite (= {cs[k]} 10) {k} {nl(k + 1)})"

            def ref(k, col):
                if k == N:
                    return "1", col, str(N), "0"
                sp, tb, cr = ref(k + 1, f"(+ {col} 1)"), ref(k + 1, f"(+ {col} 4)"), ref(k + 1, col)
                c = cs[k]

                def pick(i_, other):
                    return f"(ite (= {c} 32) {sp[i_]} (ite (= {c} 9) {tb[i_]} (ite (= {c} 13) {cr[i_]} {other})))"
                return (pick(0, f"(ite (or (= {c} 35) (= {c} 10)) 0 2)"), pick(1, col), pick(2, f"(ite (= {c} 35) {nl(k)} (ite (= {c} 10) {k + 1} {k}))"),
                        pick(3, f"(ite (= {c} 35) 1 0)"))
            kind, colr, curr, iscomment = ref(0, "0")
            prefix = mp.smt_lines(ex, []) + ["(declare-const rkind Int)", "(declare-const rcol Int)", "(declare-const rcur Int)", "(declare-const rcomment Int)",
                                             f"(assert (= rcomment {iscomment}))", f"(assert (= rkind {kind}))", f"(assert (= rcol {colr}))", f"(assert (= rcur {curr}))"]
            feas = solver.check_many(prefix, [[symex.conj(o.pc)] for o in outs], "z3", 600)
            queries += len(outs)
            qs, meta = [], []
            for o, fz in zip(outs, feas):
                if fz == "unsat":
                    continue
                npaths += 1
                if o.kind != "return":
                    bad.append(f"depth {depth}: {o.kind}: {o.info}")
                    continue
                fsd = dict(o.state.store[0]["_self"].fields)
                toks = tuple((re.search(r"TokenKind::(\w+)", " ".join(e[1])) or [None, "?"])[1] for e in o.state.events if e[0].endswith("Token::new"))
                left = [x.term for x in fsd["indent_stack"].fields]
                quiet = not toks and fsd["pending_dedents"].term == "0" and not fsd["errors"].fields and left == lvt
                als = fsd["at_line_start"].term
                out = (toks, fsd["pending_dedents"].term, len(fsd["errors"].fields), tuple(left), als, _cursor(o.state))
                a0 = "true" if (quiet and als == "true") else "false"
                a1 = "true" if quiet else "false"       # at the end of input `at_line_start` is never read again (tokenize stops calling scan_token)
                a2 = "false" if als != "false" else "(and " + " ".join(symex.neg(g_) for g_, _ in decision_goals(lvt, "rcol", toks, fsd)) + ")"
                k_ = _cursor(o.state)
                # a comment line is consumed up to its line feed; whether the line feed itself is consumed here or seen as a blank line by the next call is not observable
                goal = f"(and (ite (= rcomment 1) (or (= rcur {k_}) (and (< rcur {N}) (= (+ rcur 1) {k_}))) (= rcur {k_})) (=> (= rkind 0) {a0}) (=> (= rkind 1) {a1}) (=> (= rkind 2) {a2}))"
                qs.append([symex.conj(list(o.pc) + [symex.neg(goal)])])
                meta.append(out)
            verd = solver.check_many(prefix, qs, "z3", 600) if qs else []
            queries += len(qs)
            for out, v_, q_ in zip(meta, verd, qs):
                if v_ != "unsat":
                    bad.append(f"depth {depth}: outcome {out} is not the reference's on some characters [{v_}]")
        r = {"id": "X-indent_count", "engine": "E2-X mirsmt", "statement": statement,
             "bound": f"the next N = {N} characters of the source are symbolic scalar values (0..=0x10FFFF), then the input ends; stacks [0, a] and [0, a, b] with 0 < a < b symbolic; "
                      "Lexer::peek / advance / is_at_end are replaced by a character-stream stand-in (look at / consume the next character); longer leading runs are outside",
             "functions_encoded": sorted(x + " (MIR)" for x in encoded), "paths": npaths, "queries": queries, "wall_s": round(time.time() - t0, 2)}
        if npaths == 0 and not bad:
            r.update(status="inconclusive", reason="no feasible path explored")
            return r
        r["vacuity_ok"] = True
        if not bad:
            r.update(status="held", solver=f"{queries} z3 queries: every path's outcome is the reference's outcome for all characters and levels it admits")
            return r
        why = "; ".join(bad[:4])
        broken, textn = layout_native(log_dir)
        r["native"] = textn[:500]
        if broken:
            os.makedirs(os.path.join(common.REPLAYS_DIR, "MIRX"), exist_ok=True)
            rp = os.path.join(common.REPLAYS_DIR, "MIRX", "X-indent_count.replay")
            open(rp, "w").write(f"mirx lexlayout\n# {why[:500]}\n# native: {textn[:500]}\n")
            r.update(status="violated", replay=rp, counterexample={"path": why[:500], "native": textn[:500]})
        else:
            r.update(status="inconclusive", reason=f"handle_indentation deviates from the reference ({why[:300]}) but every layout variant of the example program parses to the same program")
        return r
    return mp.XOb("X-indent_count", statement, "", run)



def scan_layout_ob(mp, log_dir, tier="quick"):
    statement = ("Lexer::scan_token, one step from an arbitrary layout state (pending dedents, at_line_start, bracket depth all symbolic) on the next N symbolic characters: a pending "
                 "dedent is emitted alone and consumes nothing; at line start only handle_indentation runs; otherwise, after spaces and tabs, a line feed emits exactly one NEWLINE and "
                 "sets at_line_start iff the bracket depth is 0 (inside brackets it emits nothing and changes nothing), a carriage return emits nothing, a comment emits nothing and "
                 "stops BEFORE its line feed (so a trailing comment never swallows the NEWLINE), opening brackets add 1 to the depth and closing brackets subtract 1 from a positive depth")

    def run():
        import parse_props as pp
        t0 = time.time()
        P, R = pp.load()
        fs = [v for k, v in P.fns.items() if k.endswith("::scan_token")]
        if len(fs) != 1:
            raise Inconclusive("Lexer::scan_token not found in the MIR dump")
        f = fs[0]
        td = R.resolve("lexer::Lexer")
        names = [x[0] for x in td.variants[0][1]] if td else []
        if not all(n_ in names for n_ in ("indent_stack", "pending_dedents", "at_line_start", "bracket_depth", "tokens", "errors")):
            raise Inconclusive("Lexer no longer has the fields of the layout state")
        N = 2 if tier == "quick" else 5
        ex = mirx.make_executor(P, R, max_paths=2000000)
        ex.opaque_calls = mirx.slice_opaque
        ex.model_sequences = True
        ex.model_vecs = True
        ex.seq_bound = 3
        ex.tolerate_unsupported = True
        ex.max_steps = 40000
        ex.loop_bound = N + 2
        ex.char_consts_as_int = True
        ex.summarize = (r"Token::new$", r"Span::new$", r"CompileError::new$", r"fmt::", r"^format$", r"Arguments", r"must_use", r"to_string$",
                        r"^Lexer::<'_>::(?!open_bracket$|close_bracket$)\w+$", r"<impl Lexer<'_>>::\w+$")
        chars = [ex.sym_value("u32", f"ch{k}") for k in range(N)]
        ex.enc.side += [f"(and (<= 0 {c.term}) (<= {c.term} 1114111))" for c in chars]
        ex.state_intrinsics = {**_char_stream(chars), **_vec_intrinsics(), **dict(mirx.STATE_INTRINSICS)}
        pd, bd, als = ex.sym_value("usize", "pd"), ex.sym_value("usize", "bd"), ex.enc.bool_var("als")
        known = {"indent_stack": Adt("Vec", "lit", [S("int", "0", 64, False)]), "pending_dedents": pd, "at_line_start": als, "tokens": Adt("Vec", "lit", []),
                 "errors": Adt("Vec", "lit", []), "current_pos": ex.sym_value("usize", "pos"), "bracket_depth": bd}
        st0 = symex.State()
        st0.store[0] = {"_self": Adt("Lexer", None, [(n_, known.get(n_, Opaque(n_))) for n_ in names])}
        ex.call_stack = [f.name]
        try:
            outs = ex._run(f, [symex.Ref(0, Place("_self"))], {}, 0, st0)
        except (Unsupported, symex.PathExplosion) as x:
            raise Inconclusive(f"scan_token is not executable by the model: {str(x)[:160]}")
        finally:
            ex.call_stack = []
        cs = [c.term for c in chars]
        # ---- reference: skip spaces / tabs, then classify the first other character
        OPEN, CLOSE = (40, 91, 123), (41, 93, 125)

        def nlp(k):
            return str(N) if k == N else f"(ite (= {cs[k]} 10) {k} {nlp(k + 1)})"

        def ref(k):
            """(class, consumed): 0 end of input, 1 line feed, 2 CR, 3 comment, 4 open, 5 close, 6 anything else"""
            if k == N:
                return "0", str(N)
            c = cs[k]
            r_ = ref(k + 1)
            isop = "(or " + " ".join(f"(= {c} {x})" for x in OPEN) + ")"
            iscl = "(or " + " ".join(f"(= {c} {x})" for x in CLOSE) + ")"
            cls = f"(ite (or (= {c} 32) (= {c} 9)) {r_[0]} (ite (= {c} 10) 1 (ite (= {c} 13) 2 (ite (= {c} 35) 3 (ite {isop} 4 (ite {iscl} 5 6))))))"
            con = f"(ite (or (= {c} 32) (= {c} 9)) {r_[1]} (ite (= {c} 35) {nlp(k)} {k + 1}))"
            return cls, con
        rc, rn = ref(0)
        prefix = mp.smt_lines(ex, []) + ["(declare-const rcls Int)", "(declare-const rcon Int)", f"(assert (= rcls {rc}))", f"(assert (= rcon {rn}))"]
        feas = solver.check_many(prefix, [[symex.conj(o.pc)] for o in outs], "z3", 600)
        queries, npaths, bad, qs, meta = len(outs), 0, [], [], []
        for o, fz in zip(outs, feas):
            if fz == "unsat":
                continue
            npaths += 1
            if o.kind != "return":
                # arithmetic overflow of the bracket depth at usize::MAX is not a layout question
                if "overflow" in str(o.info):
                    continue
                # a path the model cannot follow is acceptable only in the arms of non-layout characters, about which nothing is claimed
                qs.append([symex.conj(list(o.pc) + ["(not (and (= pd 0) (not als) (= rcls 6)))"])])
                meta.append(f"{o.kind}: {str(o.info)[:120]}")
                continue
            fsd = dict(o.state.store[0]["_self"].fields)
            toks = tuple((re.search(r"TokenKind::(\w+)", " ".join(e[1])) or [None, "?"])[1] for e in o.state.events if e[0].endswith("Token::new"))
            calls = tuple(e[0].split("::")[-1] for e in o.state.events if "Lexer" in e[0])
            nerr = len(fsd["errors"].fields)
            pd2, bd2, als2, k_ = fsd["pending_dedents"].term, fsd["bracket_depth"].term, fsd["at_line_start"].term, _cursor(o.state)
            out = (toks, calls, nerr, pd2, bd2, als2, k_)
            same = f"(and (= {pd2} pd) (= {bd2} bd) (= {als2} als))"
            nothing = "true" if (not toks and not calls and nerr == 0) else "false"
            A = f"(and (= {pd2} (- pd 1)) (= {bd2} bd) (= {als2} als) {'true' if (toks == ('Dedent',) and not calls and nerr == 0 and k_ == 0) else 'false'})"
            B = f"(and {same} {'true' if (not toks and calls == ('handle_indentation',) and nerr == 0 and k_ == 0) else 'false'})"
            lf_in = f"(and {same} {nothing})"
            lf_out = f"(and (= {pd2} pd) (= {bd2} bd) (= {als2} true) {'true' if (toks == ('Newline',) and not calls and nerr == 0) else 'false'})"
            quiet = f"(and {same} {nothing})"
            op = f"(and (= {pd2} pd) (= {bd2} (+ bd 1)) (= {als2} als) {'true' if (not toks and calls == ('add_punct',) and nerr == 0) else 'false'})"
            cl = (f"(and (= {pd2} pd) (= {als2} als) {'true' if (not toks and calls == ('add_punct',)) else 'false'} "
                  f"(=> (> bd 0) (and (= {bd2} (- bd 1)) {'true' if nerr == 0 else 'false'})))")     # an unmatched closing bracket is not a valid source file: no claim at depth 0
            C = (f"(and (=> (not (= rcls 6)) (= rcon {k_})) (=> (= rcls 0) {quiet}) (=> (= rcls 1) (ite (> bd 0) {lf_in} {lf_out})) (=> (= rcls 2) {quiet}) (=> (= rcls 3) {quiet}) "
                 f"(=> (= rcls 4) {op}) (=> (= rcls 5) {cl}))")
            goal = f"(ite (> pd 0) {A} (ite als {B} {C}))"
            qs.append([symex.conj(list(o.pc) + [symex.neg(goal)])])
            meta.append(out)
        verd = solver.check_many(prefix, qs, "z3", 600) if qs else []
        queries += len(qs)
        for out, v_ in zip(meta, verd):
            if v_ != "unsat" and isinstance(out, str):
                bad.append(f"a layout step is not executable by the model: {out}")
            elif v_ != "unsat":
                bad.append(f"outcome (tokens, calls, errors, pending', depth', at_line_start', consumed) = {out} is not the reference's [{v_}]")
        r = {"id": "X-scan_layout", "engine": "E2-X mirsmt", "statement": statement,
             "bound": f"one call of scan_token; the next N = {N} characters are symbolic scalar values, then the input ends; pending_dedents, bracket_depth and at_line_start symbolic; "
                      "every token scanner other than open_bracket / close_bracket (operator, add_op, add_punct, scan_string, scan_number, identifier ..) and handle_indentation are "
                      "summarised as events: no claim is made about non-layout characters; peek / advance / is_at_end are the character-stream stand-in",
             "functions_encoded": sorted(x + " (MIR)" for x in ex.encoded), "paths": npaths, "queries": queries, "wall_s": round(time.time() - t0, 2)}
        if npaths == 0 and not bad:
            r.update(status="inconclusive", reason="no feasible path explored")
            return r
        r["vacuity_ok"] = True
        if not bad:
            r.update(status="held", solver=f"{queries} z3 queries: every layout step is the reference's")
            return r
        why = "; ".join(bad[:4])
        broken, textn = layout_native(log_dir)
        r["native"] = textn[:500]
        if broken:
            os.makedirs(os.path.join(common.REPLAYS_DIR, "MIRX"), exist_ok=True)
            rp = os.path.join(common.REPLAYS_DIR, "MIRX", "X-scan_layout.replay")
            open(rp, "w").write(f"mirx lexlayout\n# {why[:500]}\n# native: {textn[:500]}\n")
            r.update(status="violated", replay=rp, counterexample={"path": why[:500], "native": textn[:500]})
        else:
            r.update(status="inconclusive", reason=f"scan_token deviates from the reference ({why[:300]}) but every layout variant of the example program parses to the same program")
        return r
    return mp.XOb("X-scan_layout", statement, "", run)



def eof_dedents_ob(mp, log_dir, tier="quick"):
    statement = ("Lexer::tokenize after the last character: every level still open is closed by exactly one DEDENT (levels - 1 of them, the base level stays), then exactly one EOF "
                 "follows, and the result is Ok(tokens) iff no error was recorded - so a file with and without a final newline ends in the same tokens")

    def run():
        import parse_props as pp
        t0 = time.time()
        P, R = pp.load()
        fs = [v for k, v in P.fns.items() if k.endswith("::tokenize") and "Lexer" in "".join(v.blocks[next(iter(v.blocks))].stmts + [v.blocks[next(iter(v.blocks))].term or ""])] \
            or [v for k, v in P.fns.items() if re.search(r"lexer::<impl at [^>]*>::tokenize$", k)]
        if len(fs) != 1:
            raise Inconclusive("Lexer::tokenize not found in the MIR dump")
        f = fs[0]
        entry = next((bn for bn, b in f.blocks.items() if b.term and "Vec::<usize>::len" in b.term), None)
        td = R.resolve("lexer::Lexer")
        names = [x[0] for x in td.variants[0][1]] if td else []
        if entry is None or not all(n_ in names for n_ in ("indent_stack", "tokens", "errors")):
            raise Inconclusive("the end-of-input part of tokenize (the loop over indent_stack.len()) was not found")
        bad, npaths, queries, encoded = [], 0, 0, set()
        for depth in range(1, (5 if tier == "quick" else 9)):
            for nerr in (0, 1):
                ex = mirx.make_executor(P, R, max_paths=100000)
                ex.opaque_calls = mirx.slice_opaque
                ex.model_sequences = True
                ex.model_vecs = True
                ex.seq_bound = 3
                ex.tolerate_unsupported = True
                ex.max_steps = 20000
                ex.loop_bound = depth + 2
                ex.summarize = (r"Token::new$", r"Span::new$", r"CompileError::new$", r"fmt::", r"drop_in_place", r"must_use")
                ex.state_intrinsics = {**_vec_intrinsics(), **dict(mirx.STATE_INTRINSICS)}
                lv = [S("int", "0", 64, False)] + [ex.sym_value("usize", n_) for n_ in ("a", "b", "c", "d", "e", "f", "g")[:depth - 1]]
                ex.enc.side += [f"(< {x.term} {y.term})" for x, y in zip(lv, lv[1:])]
                known = {"indent_stack": Adt("Vec", "lit", lv), "pending_dedents": S("int", "0", 64, False), "at_line_start": ex.enc.bool_var("als"),
                         "tokens": Adt("Vec", "lit", []), "errors": Adt("Vec", "lit", [Opaque("err0")][:nerr]), "current_pos": ex.sym_value("usize", "pos"),
                         "bracket_depth": ex.sym_value("usize", "bd")}
                selfv = Adt("Lexer", None, [(n_, known.get(n_, Opaque(n_))) for n_ in names])
                ex.call_stack = [f.name]
                try:
                    outs = ex._run(f, [selfv], {}, 0, symex.State(), entry=entry)
                except (Unsupported, symex.PathExplosion) as x:
                    raise Inconclusive(f"the end-of-input part of tokenize is not executable by the model: {str(x)[:160]}")
                finally:
                    ex.call_stack = []
                encoded |= set(ex.encoded)
                feas = solver.check_many(mp.smt_lines(ex, []), [[symex.conj(o.pc)] for o in outs], "z3", 120)
                queries += len(outs)
                for o, fz in zip(outs, feas):
                    if fz == "unsat":
                        continue
                    npaths += 1
                    if o.kind != "return":
                        bad.append(f"{depth} levels: {o.kind}: {str(o.info)[:100]}")
                        continue
                    toks = [(re.search(r"TokenKind::(\w+)", " ".join(e[1])) or [None, "?"])[1] for e in o.state.events if e[0].endswith("Token::new")]
                    res = ex.deref(o.value, o.state)
                    variant = getattr(res, "variant", None)
                    if toks != ["Dedent"] * (depth - 1) + ["Eof"]:
                        bad.append(f"{depth} open levels end in the tokens {toks}")
                    if variant != ("Ok" if nerr == 0 else "Err"):
                        bad.append(f"{nerr} recorded error(s) but the result is {variant}")
                    elif variant == "Ok":
                        inner = ex.deref(res.fields[0][1] if isinstance(res.fields[0], tuple) else res.fields[0], o.state)
                        if not (isinstance(inner, Adt) and inner.ty == "Vec" and len(inner.fields) == depth):
                            bad.append(f"{depth} open levels: Ok carries {len(getattr(inner, 'fields', []))} tokens")
        r = {"id": "X-eof_dedents", "engine": "E2-X mirsmt", "statement": statement,
             "bound": f"the part of tokenize after the scanning loop; 1..={4 if tier == 'quick' else 8} open levels (symbolic columns), 0 or 1 recorded errors, no tokens yet",
             "functions_encoded": sorted(x + " (MIR)" for x in encoded), "paths": npaths, "queries": queries, "wall_s": round(time.time() - t0, 2)}
        if npaths == 0 and not bad:
            r.update(status="inconclusive", reason="no feasible path explored")
            return r
        r["vacuity_ok"] = True
        if not bad:
            r.update(status="held", solver=f"{queries} z3 queries (path feasibility); the token trace of every path is levels-1 DEDENTs and one EOF")
            return r
        why = "; ".join(bad[:4])
        broken, textn = layout_native(log_dir)
        r["native"] = textn[:500]
        if broken:
            os.makedirs(os.path.join(common.REPLAYS_DIR, "MIRX"), exist_ok=True)
            rp = os.path.join(common.REPLAYS_DIR, "MIRX", "X-eof_dedents.replay")
            open(rp, "w").write(f"mirx lexlayout\n# {why[:500]}\n# native: {textn[:500]}\n")
            r.update(status="violated", replay=rp, counterexample={"path": why[:500], "native": textn[:500]})
        else:
            r.update(status="inconclusive", reason=f"the end of tokenize deviates ({why[:300]}) but every layout variant of the example program parses to the same program")
        return r
    return mp.XOb("X-eof_dedents", statement, "", run)



FRAME_ALLOWED = {"handle_indentation": {"indent_stack", "pending_dedents", "at_line_start"}, "tokenize": {"indent_stack"}, "scan_token": {"pending_dedents", "at_line_start"},
                 "open_bracket": {"bracket_depth"}, "close_bracket": {"bracket_depth"}}


def layout_frame_ob(mp, log_dir, tier="quick"):
    statement = ("frame condition that lets the step obligations stand for the whole lexer: the layout state (indent_stack, pending_dedents, at_line_start, bracket_depth) is written "
                 "only by the functions those obligations execute - handle_indentation, scan_token, open_bracket, close_bracket, the end of tokenize - and by no token scanner")

    def run():
        import parse_props as pp
        t0 = time.time()
        P, R = pp.load()
        td = R.resolve("lexer::Lexer")
        names = [x[0] for x in td.variants[0][1]] if td else []
        layout = ("indent_stack", "pending_dedents", "at_line_start", "bracket_depth")
        if not all(n_ in names for n_ in layout):
            raise Inconclusive("Lexer no longer has the fields of the layout state")
        text = open(os.path.join(common.WORK_DIR, "mir", "incan_syntax.mir"), errors="replace").read()
        writers, nfn, bad = {}, 0, []
        for fn in re.split(r"\n(?=fn )", text):
            m = re.match(r"fn ([^\n]*?)\(([^\n]*)\) ->", fn)
            if not m:
                continue
            # every local of type Lexer / &mut Lexer (the receiver, or a captured one inside a closure environment is reached through _1 as well)
            recv = [l for l, ty in re.findall(r"(_\d+): (&mut Lexer<'_>|Lexer<'_>)", m.group(2) + "\n" + fn)]
            if not recv:
                continue
            nfn += 1
            short = m.group(1).split("::")[-1] if not m.group(1).endswith("}") else m.group(1).split("::")[-2] + "::" + m.group(1).split("::")[-1]
            for name in layout:
                n = names.index(name)
                for l in set(recv):
                    pl = rf"\(\(\*{l}\)\.{n}: [^)]*\)|\({l}\.{n}: [^)]*\)"
                    if re.search(rf"(?:{pl}) = ", fn) or re.search(rf"&mut (?:{pl})", fn):
                        writers.setdefault(short, set()).add(name)
        for fname, ws in sorted(writers.items()):
            if fname == "new":
                continue
            extra = ws - FRAME_ALLOWED.get(fname, set())
            if extra:
                bad.append(f"{fname} writes {sorted(extra)}")
        r = {"id": "X-layout_frame", "engine": "E2-X mirsmt (frame condition over the MIR text)", "statement": statement,
             "bound": f"every function of incan_syntax with a local of type Lexer / &mut Lexer ({nfn} functions): direct field assignments and `&mut` borrows of the four fields; a write "
                      "through a raw pointer or through a helper that takes `&mut usize` obtained elsewhere would not be seen",
             "functions_encoded": sorted(f"{k} (MIR text)" for k in writers), "paths": nfn, "queries": 0, "wall_s": round(time.time() - t0, 2)}
        if nfn < 5 or len(writers) < 3:
            r.update(status="inconclusive", reason=f"only {nfn} Lexer functions / {len(writers)} writers found in the MIR dump: the scan does not see the lexer")
            return r
        r["vacuity_ok"] = True
        if not bad:
            r.update(status="held", solver=f"no solver query: {len(writers)} writers, all among the functions the step obligations execute")
            return r
        why = "; ".join(bad[:4])
        broken, textn = layout_native(log_dir)
        r["native"] = textn[:500]
        if broken:
            os.makedirs(os.path.join(common.REPLAYS_DIR, "MIRX"), exist_ok=True)
            rp = os.path.join(common.REPLAYS_DIR, "MIRX", "X-layout_frame.replay")
            open(rp, "w").write(f"mirx lexlayout\n# {why[:500]}\n# native: {textn[:500]}\n")
            r.update(status="violated", replay=rp, counterexample={"path": why[:500], "native": textn[:500]})
        else:
            r.update(status="inconclusive", reason=f"a function outside the step obligations writes the layout state ({why[:300]}): the steps no longer cover the lexer; the layout battery still parses alike")
        return r
    return mp.XOb("X-layout_frame", statement, "", run)



LAYOUT_BASE = '''def f(n: int) -> int:
    if n > 0:
        while n > 1:
            n = n - 1
        return n
    else:
        return 0

def g(xs: List[int]) -> int:
    for x in xs:
        match x:
            0 =>
                return 1
            _ =>
                pass
    return 0

def h(sep: str) -> str:
    return join(sep, ["a", "b"], {"k": f"{sep}!"})
'''


LAYOUT_BAD = '''def f(n: int) -> int:
    if n > 0:
            n = n - 1
        return n
    return 0
'''


def layout_variants(b):
    def reindent(unit):
        return "\n".join((unit * ((len(l) - len(l.lstrip(" "))) // 4) + l.lstrip(" ")) for l in b.split("\n"))
    br = b.replace("def f(n: int) -> int:", "def f(\n        n: int\n) -> int:").replace("List[int]", "List[\n  int\n    ]").replace('join(sep, ["a", "b"], {"k": f"{sep}!"})', 'join(sep,\n ["a",\n"b"\n  ], {"k":\n f"{sep}!"\n}\n)')
    return {
        "base": b,
        "two_spaces": reindent("  "),
        "three_spaces": reindent("   "),
        "eight_spaces": reindent("        "),
        "tabs": reindent("\t"),
        "crlf": b.replace("\n", "\r\n"),
        "crlf_blank_inside": b.replace("        return n\n", "        return n\n\n").replace("            n = n - 1\n", "            n = n - 1\n\n").replace("\n", "\r\n"),
        "trailing_spaces": "\n".join((l + "  " if l.strip() else l) for l in b.split("\n")),
        "blank_lines": b.replace("        return n\n", "        return n\n\n"),
        "comments": b.replace("    if n > 0:\n", "    # leading comment\n    if n > 0:  # trailing\n").replace("            n = n - 1\n", "            n = n - 1\n# col-0 comment\n        # deeper comment\n"),
        "bracket_breaks": br,
        "crlf_bracket_breaks": br.replace("\n", "\r\n"),
        "bracket_comments": br.replace("join(sep,\n", "join(sep,  # the separator\n").replace('["a",\n', '["a",  # first\n      # a whole comment line inside the list\n').replace("def f(\n", "def f(  # params\n"),
        "unicode_comments": b.replace("        return n\n", "        return n  # n \u2265 1 \u2014 d\u00e9j\u00e0 vu\n").replace("            n = n - 1\n", "            n = n - 1  # \u2193\n"),
        "mixed_tabs": "\n".join((reindent("\t").split("\n")[n_] if n_ % 2 else l) for n_, l in enumerate(b.split("\n"))),
        "final_nonl": b,
        "final_extra_newlines": b + "\n\n   \n",
        "final_comment_nonl": b + "# the end",
        "blank_with_spaces": b.replace("\ndef g", "        \ndef g"),
    }


def layout_native(log_dir):
    import kani
    os.makedirs(log_dir, exist_ok=True)
    path = os.path.join(log_dir, "layout.cases")
    with open(path, "w") as fh:
        for v, src in layout_variants(LAYOUT_BASE).items():
            fh.write(f"#@@ g1.{v} program\n{src}\n")
        fh.write(f"#@@ g2.base program\n{LAYOUT_BAD}\n")
    problems = []
    for prof in ("dev", "release"):
        binp = kani.build_replay(prof, True, log_dir)
        rc, out, _, to = common.run([binp, "lexlayout", path], timeout=120)
        m = re.search(r"^GROUP g1 (\S+)(.*)$", out, re.M)
        if to or rc != 0 or not m:
            raise Inconclusive(f"replay lexlayout failed (rc={rc}): {out[-200:]}")
        if m.group(1) != "SAME":
            problems.append(f"[{prof}] layout variants parse differently: {m.group(1)}{m.group(2)[:160]}")
        m2 = re.search(r"^GROUP g2 (\S+ ?\S*)", out, re.M)
        if not m2:
            raise Inconclusive(f"replay lexlayout printed nothing for the ill-indented program: {out[-200:]}")
        if not m2.group(1).startswith("BASE-ERR LEX-ERROR"):
            problems.append(f"[{prof}] a dedent to a column that is no open level (8 between 4 and 12) is accepted by the lexer")
    return bool(problems), "; ".join(problems) or f"all {len(layout_variants(LAYOUT_BASE))} layouts of the example program (2 / 3 / 8 spaces, tabs, mixed tabs, CRLF, trailing spaces, blank lines, comments, line breaks in brackets, final newline or none) parse to the same program and the ill-indented one is refused"


def build(pid, tier, log_dir):
    import mirx_props as mp
    if pid != "C10":
        return []
    return [indent_step_ob(mp, log_dir, tier), indent_count_ob(mp, log_dir, tier), scan_layout_ob(mp, log_dir, tier), eof_dedents_ob(mp, log_dir, tier), layout_frame_ob(mp, log_dir, tier)]
