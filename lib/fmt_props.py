"""E2-X obligations on the source formatter (C08 / C09): every arm of the hand-written printer is executed symbolically from the
whole-crate MIR - the AST node is a symbolic ADT, child nodes are atoms, the real `FormatWriter` code runs on a concrete writer
state - so that every feasible path yields the exact text the formatter prints for that class of nodes.  The class's text is then
parsed by the real lexer + parser (`replay astdbg`) and must give back the class's own AST (span-free `Debug` equality, the expected
value generated from the type definitions and the path facts); a field the printer never looks at is a deviation by itself.
Deviations are believed only after the documented example sentences of that arm fail the real  text -> parse -> format -> parse
round trip (`replay fmtrt`)."""
import json
import os
import re
import sys
import threading
import time

import common
from common import Inconclusive, say

import mirx
import symex
import solver
from mir import Place, Unsupported
from symex import Adt, Opaque, S, Unit, Sym

AST = "incan_syntax::ast::"
PARSER_DIR = "crates/incan_syntax/src/parser"


class Unvisited(Exception):
    pass


# ---- executor ----------------------------------------------------------------------------------------------------------------
def find_fn(P, suffix, must=("formatter",)):
    c = [v for k, v in P.fns.items() if k.endswith(suffix) and all(m in k for m in must)]
    if len(c) != 1:
        raise Inconclusive(f"`{suffix}` not found (or ambiguous) in the MIR dump")
    return c[0]


ATOM_FNS = {"format_expr": "a", "format_pattern": "p", "format_type": "T", "format_statement": "s", "format_literal": "L",
            "format_method": "m", "format_field": "x", "format_decorator": "d", "format_enum_variant": "V"}
# what an atom writes (through the real writer), as (op, text) steps; `#` is the atom's own marker
ATOM_OPS = {
    "format_statement": [("writeln", "#")],
    "format_method": [("writeln", "def #(self) -> None:"), ("indent", None), ("writeln", "pass"), ("dedent", None)],
    "format_field": [("writeln", "#: int")],
    "format_decorator": [("writeln", "@#")],
    "format_enum_variant": [("writeln", "#")],
}


def make_executor(P, R, bound, at_line_start, level=1):
    ex = mirx.make_executor(P, R, max_paths=400000)
    ex.opaque_calls = mirx.slice_opaque
    ex.model_sequences = True
    ex.seq_bound = bound
    ex.tolerate_unsupported = True
    ex.recursion_bound = 4
    ex.max_steps = 3000
    ex.state_intrinsics = dict(mirx.STATE_INTRINSICS)
    wfn = find_fn(P, ">::write", ("writer::",))
    wlnfn = find_fn(P, ">::writeln", ("writer::",))
    indfn = find_fn(P, ">::indent", ("writer::",))
    dedfn = find_fn(P, ">::dedent", ("writer::",))
    ex.fmt_atoms = {}       # sym name -> (kind letter, index)

    def atom_name(name, letter):
        if name not in ex.fmt_atoms:
            ex.fmt_atoms[name] = f"{letter}{len([1 for v in ex.fmt_atoms.values() if v[0] == letter])}"
        return ex.fmt_atoms[name]

    def atom(ex_, callee, args, st):
        """A recursive call of the printer on a symbolic child: the child is an atom that writes its own marker through the real
        writer (so that indentation state stays exact); a call on a concrete or partly explored node runs for real."""
        fname = callee.split("::")[-1]
        e = ex_.deref(args[1], st)
        if not isinstance(e, Sym) or e._tag is not None and st.facts.get(e.tag().term):
            target = find_fn(P, ">::" + fname)
            outs = ex_.run(target, args, {}, 1, st)
            return [(o.kind, o.value, o.info, o.state) for o in outs]
        marker = "%[" + e.name + "]%"
        r = args[0]
        if not isinstance(r, symex.Ref):
            raise Unsupported("formatter self is not a reference")
        wref = symex.Ref(r.frame, Place(r.place.local, tuple(r.place.proj) + (("field", 0),)))
        states = [st]
        for op, text in ATOM_OPS.get(fname, [("write", "#")]):
            nxt = []
            for s_ in states:
                f = {"write": wfn, "writeln": wlnfn, "indent": indfn, "dedent": dedfn}[op]
                a = [wref] + ([Opaque('const "%s"' % text.replace("#", marker))] if text is not None else [])
                for o in ex_.run(f, a, {}, 1, s_):
                    if o.kind != "return":
                        raise Unsupported(f"writer {op} does not return: {o.info}")
                    nxt.append(o.state)
            states = nxt
        res = []
        for s_ in states:
            s_.events.append(("ATOM", ATOM_FNS[fname], e.name))
            res.append(("return", Unit(), None, s_))
        return res
    ex.state_intrinsics[r"Formatter::(" + "|".join(ATOM_FNS) + r")$"] = atom

    def push_str(ex_, callee, args, st):
        st2 = st.fork()
        st2.events.append(("OUT", mirx.show(args[1], ex_, st)))
        return [("return", Unit(), None, st2)]
    ex.state_intrinsics[r"String::push_str$"] = push_str
    ex.state_intrinsics[r"String::push$"] = push_str

    def repeat(ex_, callee, args, st):
        return [("return", Opaque(f"repeat({mirx.show(args[0], ex_, st)},{mirx.show(args[1], ex_, st)})"), None, st)]
    ex.state_intrinsics[r"str>::repeat$"] = repeat

    def is_empty(ex_, callee, args, st):
        txt = mirx.show(ex_.deref(args[0], st), ex_, st)
        return [("return", S("bool", "true" if 'const ""' in txt else "false"), None, st)]
    ex.state_intrinsics[r"str>::is_empty$"] = is_empty     # identifiers and string atoms are non-empty

    def slen(ex_, callee, args, st):
        return [("return", S("int", "0"), None, st)]            # line-length bookkeeping is not the subject
    ex.state_intrinsics[r"(String::len|str>::len)$"] = slen

    # Representatives of a symbolic f64 literal (what the lexer can produce): a fractional value, an integral value (Rust's Display
    # prints no ".0"), and infinity (an overflowing literal such as 1e999; Display prints `inf`).  (debug text, Display text)
    FP_REPS = (("1.5", "1.5"), ("2.0", "2"), ("inf", "inf"))

    def fp_states(v, st):
        key = "val:" + v.term
        if key in st.facts:
            return [st]
        res = []
        for dbg, _shown in FP_REPS:
            st2 = st.fork()
            st2.facts[key] = dbg
            res.append(st2)
        return res

    def to_string(ex_, callee, args, st):
        v = ex_.deref(args[0], st)
        if isinstance(v, symex.Scalar) and v.sort == "int":
            st2 = st.fork()
            st2.facts["val:" + v.term] = "7"
            return [("return", Opaque('const "7"'), None, st2)]
        if isinstance(v, symex.Scalar) and v.sort == "fp":
            return [("return", Opaque('const "%s"' % dict(FP_REPS)[s_.facts["val:" + v.term]]), None, s_) for s_ in fp_states(v, st)]
        return mirx.slice_opaque(ex_, callee, args, st)
    ex.state_intrinsics[r"^<(i64|f64|u8|usize) as (std::string::)?ToString>::to_string$"] = to_string

    ex.fmt_derived = []

    def str_replace(ex_, callee, args, st):
        """`s.replace(a, b)` with constant pattern / replacement: a derived string, evaluated on the representative when rendering."""
        ex_.fmt_derived.append(tuple(mirx.show(ex_.deref(a, st), ex_, st) for a in args[:3]))
        return [("return", Opaque(f"derived#{len(ex_.fmt_derived) - 1}#"), None, st)]
    ex.state_intrinsics[r"str>::replace::<.*>$"] = str_replace

    def str_contains(ex_, callee, args, st):
        h = mirx.show(ex_.deref(args[0], st), ex_, st)
        n = mirx.show(ex_.deref(args[1], st), ex_, st)
        hm = re.match(r'^opaque<const "(.*)">$', h, re.S)
        nm = re.search(r"'(.)'", n)
        if hm and nm:
            return [("return", S("bool", "true" if nm.group(1) in hm.group(1) else "false"), None, st)]
        raise Unsupported(f"str::contains on {h[:40]} / {n[:40]}")
    ex.state_intrinsics[r"str>::contains::<char>$"] = str_contains

    def fp_pred(which):
        def h(ex_, callee, args, st):
            v = ex_.deref(args[0], st)
            if not (isinstance(v, symex.Scalar) and v.sort == "fp"):
                raise Unsupported(f"{which} on {v!r}")
            res = []
            for s_ in fp_states(v, st):
                inf = s_.facts["val:" + v.term] == "inf"
                res.append(("return", S("bool", "true" if (inf if which == "is_infinite" else not inf) else "false"), None, s_))
            return res
        return h
    ex.intrinsics = {k: v for k, v in ex.intrinsics.items()
                     if not any(re.search(k, c) for c in ("core::f64::<impl f64>::is_finite", "core::f64::<impl f64>::is_infinite"))}
    ex.state_intrinsics[r"f64>::is_finite$"] = fp_pred("is_finite")
    ex.state_intrinsics[r"f64>::is_infinite$"] = fp_pred("is_infinite")

    def escape_string(ex_, callee, args, st):
        st2 = st.fork()
        st2.events.append(("ESCAPE", mirx.show(args[0], ex_, st)))
        return [("return", ex_.deref(args[0], st), None, st2)]   # identity on the plain-identifier representative (own obligation below)
    ex.state_intrinsics[r"(^|::)escape_string$"] = escape_string

    cfg = Adt("FormatConfig", None, [("indent_width", S("int", "4")), ("line_length", S("int", "120")),
                                     ("quote_style", Adt("QuoteStyle", "Double", [])), ("trailing_commas", S("bool", "true")),
                                     ("blank_lines_top_level", S("int", "2")), ("blank_lines_methods", S("int", "1"))])
    w = Adt("FormatWriter", None, [("output", Opaque("out")), ("indent_level", S("int", str(level))), ("config", cfg),
                                   ("at_line_start", S("bool", "true" if at_line_start else "false")),
                                   ("current_line_length", S("int", "0"))])
    ex.fmt_self = Adt("Formatter", None, [("writer", w)])
    ex.atom_name = atom_name
    return ex


def start_state(ex):
    st0 = symex.State()
    st0.store[0] = {"_self": ex.fmt_self}
    return st0, symex.Ref(0, Place("_self"))


# ---- rendering ---------------------------------------------------------------------------------------------------------------
CAP_ROLES = (".Constructor.0",)      # names that the grammar requires to start with a capital letter


def render(ex, events, qualified=()):
    """events -> text; atoms / symbolic strings become identifiers (assigned in order of first appearance); names listed in
    `qualified` get the representative the parser stores for `Type.Variant` (`N0::V0`)."""
    out = []
    strings = {}
    for ev in events:
        if ev[0] != "OUT":
            continue
        t = ev[1]
        m = re.match(r'^opaque<const "((?:[^"\\]|\\.)*)">$', t)
        if m:
            s = m.group(1).encode().decode("unicode_escape")
            def sub(am):
                kind = next((k for (k0, k, n) in [e for e in events if e[0] == "ATOM"] if n == am.group(1)), "a")
                an = ex.atom_name(am.group(1), kind)
                ra = role_atom(am.group(1))
                return ra[0] if ra else ("7" + an[1:] if kind == "L" else an)
            out.append(re.sub(r"%\[([^\]]*)\]%", sub, s))
            continue
        m = re.match(r"^opaque<const '((?:[^'\\]|\\.)*)'>$", t)
        if m:
            out.append(m.group(1).encode().decode("unicode_escape"))
            continue
        m = re.match(r'^opaque<repeat\(opaque<const "((?:[^"\\]|\\.)*)">,(\d+)\)>$', t)
        if m:
            out.append(m.group(1) * int(m.group(2)))
            continue
        def rep_of(nm):
            if nm not in strings:
                cap = any(nm.endswith(r) for r in CAP_ROLES)
                k = str(len(strings))
                strings[nm] = (f"N{k}::V{k}" if nm in qualified else ("N" if cap else "n") + k)
            return strings[nm]

        def value_of(tt):
            m_ = re.match(r"^sym<([^:>]+):", tt)
            if m_:
                return rep_of(m_.group(1))
            m_ = re.match(r'^opaque<const "((?:[^"\\]|\\.)*)">$', tt)
            if m_:
                return m_.group(1).encode().decode("unicode_escape")
            m_ = re.match(r"^opaque<const '((?:[^'\\]|\\.)*)'>$", tt) or re.match(r"^'(.)'$", tt)
            if m_:
                return m_.group(1).encode().decode("unicode_escape")
            m_ = re.match(r"^opaque<derived#(\d+)#>$", tt)
            if m_:
                a, b, c_ = ex.fmt_derived[int(m_.group(1))]
                return value_of(a).replace(value_of(b), value_of(c_))
            raise Unsupported(f"cannot render output event {tt[:80]}")
        out.append(value_of(t))
    return "".join(out), strings


ATOM_DEBUG = {
    "a": lambda n: f'Ident("{n}")',
    "p": lambda n: f'Binding("{n}")',
    "T": lambda n: f'Simple("{n}")',
    "s": lambda n: f'Expr(Spanned {{ node: Ident("{n}"), span: _ }})',
    "L": lambda n: f'Int(7{n[1:]})',
    "m": lambda n: (f'MethodDecl {{ decorators: [], is_async: false, name: "{n}", receiver: Some(Immutable), params: [], return_type: '
                    'Spanned { node: Simple("None"), span: _ }, body: Some([Spanned { node: Pass, span: _ }]) }'),
    "x": lambda n: f'FieldDecl {{ visibility: Private, name: "{n}", ty: Spanned {{ node: Simple("int"), span: _ }}, default: None }}',
    "d": lambda n: f'Decorator {{ name: "{n}", args: [] }}',
    "V": lambda n: f'VariantDecl {{ name: "{n}", fields: [] }}',
}


def strip_ty(t):
    t = t.strip()
    while True:
        t2 = re.sub(r"^&\s*('\w+\s+)?(mut\s+)?", "", t)
        m = re.match(r"^(?:std::boxed::|alloc::boxed::)?Box<(.*)>$", t2)
        if m:
            t2 = m.group(1).strip()
        if t2 == t:
            return t
        t = t2


def expected_debug(ex, R, st, ty_text, name, ctx, strings, used):
    """Span-free `{:?}` of the symbolic node `name` of type `ty_text` as fixed by the path facts; raises Unvisited(field) when
    the path never examined a part that has more than one possible value."""
    from mir import split_top
    t = strip_ty(ty_text)
    if name in ex.fmt_atoms:
        an = ex.fmt_atoms[name]
        used.add(name)
        ra = role_atom(name)
        d = ra[1] if ra else ATOM_DEBUG[an[0]](an)
        pm = re.match(r"^(e\.(Model|Class)\.0)\.\d+\.e\d+\.0$", name)
        if an[0] == "x" and pm and st.facts.get(pm.group(1) + ".0!tag") == ("eq", 1):
            d = d.replace("visibility: Private", "visibility: Public")    # the parser makes every field of a `pub` model / class public
        if d is not None:
            return d
    if t in ("Span", AST + "Span", "ast::Span"):
        ex.fmt_spans.add(name)
        return "_"
    if name == "e.Import.0.1" and st.facts.get("e.Import.0.0!tag") in (("eq", 1), ("eq", 4)):
        return "None"        # `from .. import a as b`: aliases belong to the items; the declaration itself has none (parser)
    if re.match(r"^e\.Closure\.0\.e\d+\.0$", name):
        # closure parameters are built by the parser from bare names: never `mut`, type `_` (inferred), no default
        nm = name + ".1"
        if nm not in strings:
            raise Unvisited(nm)
        return f'Param {{ is_mut: false, name: "{strings[nm]}", ty: Spanned {{ node: Simple("_"), span: _ }}, default: None }}'
    if t in ("Ident", "String", "std::string::String", AST + "Ident", "ast::Ident"):
        if name in strings:
            return f'"{strings[name]}"'
        raise Unvisited(name)
    if t == "bool":
        if name in st.pc:
            return "true"
        if f"(not {name})" in st.pc:
            return "false"
        raise Unvisited(name)
    if t in ("i64", "usize", "u8", "f64"):
        v = st.facts.get("val:" + name)
        if v is None:
            raise Unvisited(name)
        return v
    m = re.match(r"^(?:std::vec::|alloc::vec::)?Vec<(.*)>$", t) or re.match(r"^\[(.*)\]$", t)
    if m:
        n = st.facts.get("len:" + name)
        if n is None:
            raise Unvisited(name)
        return "[" + ", ".join(expected_debug(ex, R, st, m.group(1), f"{name}.e{k}", ctx, strings, used) for k in range(n)) + "]"
    if t.startswith("(") and t.endswith(")"):
        parts = split_top(t[1:-1])
        return "(" + ", ".join(expected_debug(ex, R, st, p, f"{name}.{k}", ctx, strings, used) for k, p in enumerate(parts)) + ")"
    td = R.resolve(t, ctx)
    if td is None:
        raise Unsupported(f"type {t} of {name} is not in the registry")

    def fields(variant, flist, prefix):
        named = flist and not isinstance(flist[0][0], int)
        vals = []
        for idx, (fn_, _fty) in enumerate(flist):
            fty = td.field_type(variant, idx, t)
            v = expected_debug(ex, R, st, fty, f"{prefix}{idx}", td.modpath, strings, used)
            vals.append(f"{fn_}: {v}" if named else v)
        if not flist:
            return ""
        return " { " + ", ".join(vals) + " }" if named else "(" + ", ".join(vals) + ")"
    if td.kind == "struct":
        return td.name + fields(None, td.variants[0][1], name + ".")
    f = st.facts.get(f"{name}!tag")
    if len(td.variants) == 1:
        f = ("eq", 0)
    if not f or f[0] != "eq":
        raise Unvisited(name)
    vname, flist = td.variants[f[1]]
    ex.fmt_variants.add((td.name, vname))
    return vname + fields(vname, flist, f"{name}.{vname}.")


# ---- which AST variants can the parser produce at all ----------------------------------------------------------------------------
_PARSER_SRC = {}


def parser_constructs(type_name, variant):
    if "src" not in _PARSER_SRC:
        txt = []
        d = os.path.join(common.REPO, PARSER_DIR)
        for f in sorted(os.listdir(d)):
            if f.endswith(".rs") and f != "tests.rs":
                txt.append(open(os.path.join(d, f), errors="replace").read())
        _PARSER_SRC["src"] = "\n".join(txt)
    return re.search(r"\b" + re.escape(type_name) + r"::" + re.escape(variant) + r"\b", _PARSER_SRC["src"]) is not None


# ---- contexts ----------------------------------------------------------------------------------------------------------------
def wrap(kind, text):
    if kind == "expr":
        return "def f() -> None:\n    x = " + text + "\n"
    if kind == "stmt":
        return "def f() -> None:\n" + text
    if kind == "pattern":
        return "def f() -> None:\n    x = match a9:\n        " + text + " => a8\n"
    if kind == "type":
        return "def f() -> " + text + ":\n    pass\n"
    if kind == "decl":
        return text
    if kind == "decorator":
        return text + "def f() -> None:\n    pass\n"
    if kind == "method":
        return "model M:\n    x: int\n\n" + text
    if kind == "field":
        return "model M:\n" + text
    if kind == "params":
        return "def f(" + text + ") -> None:\n    pass\n"
    raise ValueError(kind)


def expect_wrap(kind, dbg):
    if kind == "params":
        return f"[Spanned {{ node: {dbg}, span: _ }}]"
    return {"expr": dbg, "type": dbg}.get(kind, f"Some({dbg})")


LEVELS = {"decl": 0, "decorator": 0, "method": 1, "field": 1, "params": 0}

TARGETS = [
    # (obligation id, function, node type, view kind, at_line_start)
    ("expr", "format_expr", AST + "Expr", "expr", False),
    ("literal", "format_literal", AST + "Literal", "expr", False),
    ("pattern", "format_pattern", AST + "Pattern", "pattern", False),
    ("type", "format_type", AST + "Type", "type", False),
    ("stmt", "format_statement", AST + "Statement", "stmt", True),
]


def classes_of(P, R, fname, ty, kind, als, bound, arms=None):
    """-> (classes, problems, encoded functions, paths): one class per feasible path of every arm."""
    f = find_fn(P, ">::" + fname)
    td = R.resolve(ty)
    if td is None:
        raise Inconclusive(f"type {ty} not found in the sources")
    classes, problems, encoded, paths = [], [], set(), 0
    work = []
    for k, (vname, _) in enumerate(td.variants):
        vname = vname or td.name
        if arms and vname not in arms:
            continue
        # `import` paths loop over `parent_levels` (a count): explored for each concrete count 0..=2
        presets = [0, 1, 2] if (fname == "format_declaration" and vname == "Import") else [None]
        for lv in presets:
            work.append((k, vname, lv))
    for k, vname, lv in work:
        ex = make_executor(P, R, bound, als, level=LEVELS.get(kind, 1))
        ex.fmt_variants = set()
        e = ex.sym_value(ty, "e")
        st0, selfref = start_state(ex)
        if td.kind == "enum":
            st0.facts[e.tag().term] = ("eq", k)
            st0.pc.append(f"(= {e.tag().term} {k})")
        if lv is not None:
            kind_sym = e.child("Import", 0).child(None, 0)
            for var in ("Module", "From"):
                ip = kind_sym.child(var, 0)
                ip._children[(None, 0)] = S("int", str(lv), 64, False)
                st0.facts[f"val:{ip.name}.0"] = str(lv)
        try:
            outs = ex.run(f, [selfref, e], state=st0)
        except (Unsupported, symex.PathExplosion) as x:
            problems.append((vname, f"encoder does not support this arm: {x}"))
            continue
        encoded |= set(ex.encoded)
        paths += len(outs)
        for o in outs:
            if o.kind != "return":
                problems.append((vname, f"{o.kind}: {o.info}"))
                continue
            qual = ()
            if fname == "format_pattern" and vname == "Constructor" and o.state.facts.get("len:e.Constructor.1") == 0:
                qual = ("e.Constructor.0",)     # the parser builds a constructor pattern without arguments only from `Type.Variant`
            try:
                text, strings = render(ex, o.state.events, qual)
            except Unsupported as x:
                problems.append((vname, str(x)))
                continue
            c = {"arm": vname, "fn": fname, "kind": kind, "text": text, "pc": list(o.pc), "ex": ex}
            used = set()
            ex.fmt_variants = set()
            if not hasattr(ex, "fmt_spans"):
                ex.fmt_spans = set()
            try:
                # literals reach the expression view wrapped in Expr::Literal
                d = expected_debug(ex, R, o.state, ty, "e", None, strings, used)
                if fname == "format_literal":
                    d = f"Literal({d})"
                c["expected"] = expect_wrap(kind, d)
            except Unvisited as u:
                c["unvisited"] = str(u)
            c["variants"] = set(ex.fmt_variants)
            c["lens"] = {re.sub(r"\.e\d+", ".e#", k[4:]): v for k, v in o.state.facts.items() if str(k).startswith("len:")}
            c["lens_min"] = {}
            for k, v in o.state.facts.items():
                if str(k).startswith("len:"):
                    g = re.sub(r"\.e\d+", ".e#", k[4:])
                    c["lens_min"][g] = min(v, c["lens_min"].get(g, v))
            c["tags"] = {k: v for k, v in o.state.facts.items() if str(k).endswith("!tag")}
            c["vals"] = {k[4:]: v for k, v in o.state.facts.items() if str(k).startswith("val:")}
            c["escaped"] = [ev[1] for ev in o.state.events if ev[0] == "ESCAPE"]
            classes.append(c)
    return classes, problems, sorted(encoded), paths


MIN_LEN = {
    # sequences that the grammar cannot make shorter (an INDENT needs a statement; `a, b = ..` needs two names; `{}` is a dict; ...)
    "format_expr": {"e.Match.1": 1, "e.Match.1.e#.0.2.Block.0": 1, "e.Set.0": 1, "e.If.0.1": 1, "e.If.0.2.Some.0": 1},
    "format_type": {"e.Generic.1": 1, "e.Tuple.0": 2},
    "format_method": {"e.6.Some.0": 1},
    "format_declaration": {"e.Function.0.7": 1},
    "format_statement": {"e.If.0.1": 1, "e.If.0.2.e#.1": 1, "e.If.0.3.Some.0": 1, "e.While.0.1": 1, "e.For.0.2": 1,
                         "e.TupleUnpack.0.1": 2, "e.TupleAssign.0.0": 2, "e.ChainedAssignment.0.1": 2},
}


def grammar_excluded(c):
    """Classes no source text parses to (stated preconditions, each read off the parser / lexer)."""
    for g, mn in MIN_LEN.get(c["fn"], {}).items():
        if g in c["lens_min"] and c["lens_min"][g] < mn:
            return f"sequence {g} shorter than the grammar allows ({mn})"
    if c["fn"] == "format_expr" and c["arm"] == "FString":
        n = c["lens"].get("e.FString.0", 0)
        tags = [c["tags"].get(f"e.FString.0.e{k}!tag") for k in range(n)]
        if any(a == ("eq", 0) and b == ("eq", 0) for a, b in zip(tags, tags[1:])):
            return "two adjacent literal parts of an f-string (the lexer produces one)"
    if c["fn"] == "format_expr" and c["arm"] == "Match":
        for k in range(c["lens"].get("e.Match.1", 0)):
            if c["tags"].get(f"e.Match.1.e{k}.0.1!tag") == ("eq", 1) and c["tags"].get(f"e.Match.1.e{k}.0.2!tag") == ("eq", 0):
                return "a guarded match arm with an expression body (guards exist only in the `case` form, whose body is a block)"
    if c["fn"] == "format_declaration" and c["arm"] == "Import":
        for var in ("Module", "From"):
            pre = f"e.Import.0.0.{var}.0"
            lv = c.get("vals", {}).get(f"{pre}.0")
            if f"{pre}.1" in c["pc"] and lv not in (None, "0"):
                return "an absolute (`crate::`) import path with parent levels"
            if c["lens"].get(f"{pre}.2") == 0 and (f"{pre}.1" in c["pc"] or lv == "0"):
                return "an import path without segments"
        for var, fld in (("From", 1), ("RustFrom", 2)):
            if c["lens"].get(f"e.Import.0.0.{var}.{fld}") == 0:
                return "a from-import without items"
    if c["fn"] == "format_declaration":
        for arm, (fi, mi) in {"Model": (5, 6), "Class": (6, 7)}.items():
            if c["arm"] == arm and c["lens"].get(f"e.{arm}.0.{fi}") == 0 and c["lens"].get(f"e.{arm}.0.{mi}") == 0:
                return f"a {arm.lower()} without fields and methods (the body of a declaration cannot be empty or `pass`)"
        if c["arm"] == "Enum" and c["lens"].get("e.Enum.0.3") == 0:
            return "an enum without variants"
        if c["arm"] == "Trait" and c["lens"].get("e.Trait.0.4") == 0:
            return "a trait without methods"
    if c["fn"] == "format_method" and c["tags"].get("e.3!tag") == ("eq", 0) and "e.4.e0.0.0" in c["pc"]:
        return "a method without receiver whose first parameter is `mut` (the parser reads `mut` there as the start of `mut self`)"
    return unreachable_variant(c)


def unreachable_variant(c):
    """A class that needs an AST variant the parser never constructs cannot come from source text (precondition of C08)."""
    for (tn, vn) in sorted(c.get("variants", ())):
        if tn in ("Option",):
            continue
        if not parser_constructs(tn, vn):
            return f"AST variant {tn}::{vn} is never constructed by the parser"
    return None


def run_astdbg(cases, log_dir, tag):
    import kani
    os.makedirs(log_dir, exist_ok=True)
    path = os.path.join(log_dir, f"fmt_{tag}.cases")
    with open(path, "w") as fh:
        for cid, kind, src in cases:
            fh.write(f"#@@ {cid} {kind}\n{src}")
            if not src.endswith("\n"):
                fh.write("\n")
    binp = kani.build_replay("dev", True, log_dir)
    rc, out, _, to = common.run([binp, "astdbg", path], timeout=300)
    if to or rc != 0:
        raise Inconclusive(f"replay astdbg failed (rc={rc}): {out[-300:]}")
    res = {}
    for line in out.splitlines():
        m = re.match(r"^CASE (\S+) (OK|ERR) (.*)$", line)
        if m:
            res[m.group(1)] = (m.group(2), m.group(3))
    return res


# ---- the battery: documented example sentences per arm, run through the real round trip ---------------------------------------------
def battery():
    path = os.path.join(common.VERIF, "lib", "fmt_battery.json")
    return json.load(open(path))


def run_fmtrt(log_dir, profile="dev"):
    import kani
    bat = battery()
    os.makedirs(log_dir, exist_ok=True)
    path = os.path.join(log_dir, "fmt_battery.cases")
    with open(path, "w") as fh:
        for name, ent in bat.items():
            fh.write(f"#@@ {name} program\n{ent['src']}")
            if not ent["src"].endswith("\n"):
                fh.write("\n")
    binp = kani.build_replay(profile, True, log_dir)
    rc, out, _, to = common.run([binp, "fmtrt", path], timeout=300)
    if to or rc != 0:
        raise Inconclusive(f"replay fmtrt failed (rc={rc}): {out[-300:]}")
    res = {}
    for line in out.splitlines():
        m = re.match(r"^CASE (\S+) (\S+)(.*)$", line)
        if m:
            res[m.group(1)] = (m.group(2), m.group(3))
    return bat, res


# ---- role-specific atoms (what the grammar puts at that position) -------------------------------------------------------------------
def role_atom(name):
    """(text, debug) override for the atom standing at symbolic node `name`, or None."""
    if re.match(r"^e\.TupleAssign\.0\.0\.e\d+\.0$", name):
        # `a, b = ..` with bare names is a TupleUnpack; a TupleAssign has at least one non-name target (arr[i], obj.f)
        k = re.search(r"\.e(\d+)\.0$", name).group(1)
        return (f"t{k}[0]", f'Index(Spanned {{ node: Ident("t{k}"), span: _ }}, Spanned {{ node: Literal(Int(0)), span: _ }})')
    return None


# ---- obligations -----------------------------------------------------------------------------------------------------------------
def fmt_obligation(P, R, mp, log_dir, oid, fname, ty, kind, als, bound, skip_arms=(), idem=False):
    statement = ("IDEMPOTENCE, per node: " if idem else "") + (f"Formatter::{fname}: for every class of node (variant x optional parts x list lengths x operator), the text the printer writes - "
                 "children as atoms, the real FormatWriter code on a concrete writer state - is parsed by the real lexer + parser back to that class's own "
                 "AST (span-free Debug equality); a field the printer never examines is a deviation" +
                 ("; and the printer never reads a source position (Span) - so formatting the re-parsed output prints the same text again: fmt(fmt(x)) = fmt(x)" if idem else ""))

    def run():
        t0 = time.time()
        td = R.resolve(ty)
        arms = [(v[0] or td.name) for v in td.variants if v[0] not in skip_arms]
        classes, problems, encoded, paths = classes_of(P, R, fname, ty, kind, als, bound, arms)
        r = {"id": oid, "engine": "E2-X mirsmt", "statement": statement,
             "bound": f"all {len(arms)} arms of {fname}" + (f" except {', '.join(skip_arms)} (not modelled)" if skip_arms else "") +
                      f"; lists of 0..={bound} elements; children are atoms (identifiers / a literal / a statement); writer state: indent level 1, "
                      "width 4; names are plain identifiers",
             "encoding": "AST node as a symbolic ADT; FormatWriter::{write, writeln, newline, indent, dedent, write_indent} executed from their MIR on a "
                         "concrete writer struct; String::push_str events are the output",
             "functions_encoded": [n + " (MIR)" for n in encoded], "paths": paths}
        if problems:
            # the printer left the shapes the model executes (a new helper, another formatting routine ..): the example sentences of those arms decide
            r["wall_s"] = round(time.time() - t0, 2)
            r["vacuity_ok"] = True
            fake = [({"arm": a, "ex": None, "pc": []}, f"{a}: not executable by the model: {w[:160]}") for a, w in problems]
            return native_fmt(r, fake, log_dir, fname)
        live, excluded = [], {}
        for i, c in enumerate(classes):
            c["id"] = f"{oid}-{i}"
            why = grammar_excluded(c)
            if why:
                excluded[why] = excluded.get(why, 0) + 1
            else:
                live.append(c)
        # every remaining class must be a feasible path (solver) - vacuity and honesty of the class list
        per_arm = {}
        for c in live:
            per_arm[c["arm"]] = per_arm.get(c["arm"], 0) + 1
        missing = [a for a in arms if a not in per_arm and not any(a in w for w in excluded)]
        cases = [(c["id"], kind, wrap(kind, c["text"])) for c in live if "expected" in c]
        res = run_astdbg(cases, log_dir, oid) if cases else {}
        devs = []
        for c in live:
            if "unvisited" in c:
                devs.append((c, f"{c['arm']}: the printer never examines `{c['unvisited']}` (text `{c['text'][:80]}`)"))
                continue
            got = res.get(c["id"])
            if got is None or got[0] != "OK":
                devs.append((c, f"{c['arm']}: printed text does not parse: {got and got[1][:160]} -- text `{c['text'][:120]}`"))
            elif got[1] != c["expected"]:
                devs.append((c, f"{c['arm']}: printed text `{c['text'][:100]}` parses to {got[1][:200]}, the node is {c['expected'][:200]}"))
        if idem:
            for c in live:
                decls = c["ex"].enc.decls
                for sn in getattr(c["ex"], "fmt_spans", ()):
                    if any(d.startswith(f"(declare-const {sn}.") or d.startswith(f"(declare-const {sn}!") for d in decls):
                        devs.append((c, f"{c['arm']}: the printed text depends on the source position `{sn}`"))
                        break
        r.update(classes=len(classes), classes_checked=len(live), classes_excluded_by_grammar=excluded, compositions=per_arm,
                 samples_tokens=[f"{c['arm']}: {c['text'][:70]!r}" for c in live[:: max(1, len(live) // 12)]][:14])
        r["wall_s"] = round(time.time() - t0, 2)
        if missing:
            r.update(status="inconclusive", reason=f"no class explored for arm(s) {missing}")
            return r
        # feasibility of the deviating classes is the solver's verdict
        real = []
        for c, w in devs:
            rs = solver.check(mp.smt_lines(c["ex"], [symex.conj(c["pc"])]), [], "z3", 60)
            if rs.status != "unsat":
                real.append((c, w))
        r["vacuity_ok"] = True
        if not real:
            r.update(status="held", solver=f"{len(live)} classes parse back to themselves" +
                     (f"; {len(devs)} deviating paths infeasible (z3 unsat)" if devs else ""))
            return r
        return native_fmt(r, real, log_dir, fname)
    return mp.XOb(oid, statement, "", run)


def native_fmt(r, devs, log_dir, fname):
    """Believe a deviation only if the documented example sentences of the arm fail the real round trip, in dev and release."""
    arms = sorted({c["arm"] for c, _ in devs})
    why = "; ".join(w for _, w in devs[:3])
    broken, texts = {}, []
    for prof in ("dev", "release"):
        bat, res = run_fmtrt(log_dir, prof)
        for name, ent in bat.items():
            fns = ent["fn"] if isinstance(ent["fn"], list) else [ent["fn"]]
            if fname not in fns or not (set(ent["arms"]) & set(arms)):
                continue
            st, rest = res.get(name, ("MISSING", ""))
            if st != "SAME" or (r["id"].startswith("I-") and ("NONIDEM" in rest or "CHECK-DISAGREES" in rest)):
                broken.setdefault(name, []).append(f"[{prof}] {st}{rest[:240]}")
    r["native"] = "; ".join(f"{k}: {v[0]}" for k, v in list(broken.items())[:4]) or \
        f"all example sentences of arm(s) {arms} survive text -> parse -> format -> parse"
    if broken:
        kf = [f for f in common.load_known_findings().get("findings", []) if f.get("obligation") == r["id"]]
        unexplained = [n for n in broken if not any(n in f.get("witness_names", []) for f in kf)]
        if kf and not unexplained:
            r.update(status="known-finding", finding=f"{r['id']}: {kf[0]['what'][:200]}", witness=sorted(broken))
            return r
        os.makedirs(os.path.join(common.REPLAYS_DIR, "MIRX"), exist_ok=True)
        rp = os.path.join(common.REPLAYS_DIR, "MIRX", r["id"] + ".replay")
        with open(rp, "w") as fh:
            fh.write(f"mirx fmtrt {' '.join(sorted(unexplained or broken))}\n# {r['statement'][:300]}\n# solver: {why[:600]}\n# native: {r['native'][:600]}\n")
        r.update(status="violated", replay=rp, counterexample={"path": why[:600], "native": r["native"][:600]})
    else:
        r.update(status="inconclusive", reason=f"feasible classes deviate ({why[:400]}) but the example sentences of the arm round-trip")
    return r


def build(pid, P, R, tier, log_dir):
    import mirx_props as mp
    obs = []
    if pid not in ("C08", "C09"):
        return obs
    bound = 2 if tier == "quick" else 3
    if pid in ("C08", "C09"):
        obs.append(writer_obligation(P, R, mp, log_dir))
    if pid == "C09":
        for (tag, fname, ty, kind, als) in TARGETS:
            if tag == "literal":
                continue
            obs.append(fmt_obligation(P, R, mp, log_dir, "I-fmt-" + tag, fname, ty, kind, als, bound, idem=True))
        obs.append(fmt_obligation(P, R, mp, log_dir, "I-fmt-method", "format_method", AST + "MethodDecl", "method", True, 2, idem=True))
        obs.append(fmt_obligation(P, R, mp, log_dir, "I-fmt-decl", "format_declaration", AST + "Declaration", "decl", True, 2,
                                  skip_arms=("Docstring",), idem=True))
    if pid == "C08":
        obs.append(escape_obligation(P, R, mp, log_dir))
        obs.append(fmt_obligation(P, R, mp, log_dir, "F-fmt-expr", "format_expr", AST + "Expr", "expr", False, bound))
        obs.append(fmt_obligation(P, R, mp, log_dir, "F-fmt-literal", "format_literal", AST + "Literal", "expr", False, bound, skip_arms=("Bytes",)))
        obs.append(fmt_obligation(P, R, mp, log_dir, "F-fmt-pattern", "format_pattern", AST + "Pattern", "pattern", False, bound))
        obs.append(fmt_obligation(P, R, mp, log_dir, "F-fmt-type", "format_type", AST + "Type", "type", False, bound))
        obs.append(fmt_obligation(P, R, mp, log_dir, "F-fmt-stmt", "format_statement", AST + "Statement", "stmt", True, bound))
        obs.append(fmt_obligation(P, R, mp, log_dir, "F-fmt-param", "format_param", AST + "Param", "params", False, bound))
        obs.append(fmt_obligation(P, R, mp, log_dir, "F-fmt-field", "format_field", AST + "FieldDecl", "field", True, bound))
        obs.append(fmt_obligation(P, R, mp, log_dir, "F-fmt-decorator", "format_decorator", AST + "Decorator", "decorator", True, bound))
        obs.append(fmt_obligation(P, R, mp, log_dir, "F-fmt-method", "format_method", AST + "MethodDecl", "method", True, 2))
        obs.append(fmt_obligation(P, R, mp, log_dir, "F-fmt-decl", "format_declaration", AST + "Declaration", "decl", True, 2,
                                  skip_arms=("Docstring",)))
    return obs


# ---- the writer: one step from an arbitrary state ---------------------------------------------------------------------------------
def writer_obligation(P, R, mp, log_dir):
    statement = ("FormatWriter, one step from an ARBITRARY state (indent level, width, at-line-start flag symbolic): write_indent emits exactly "
                 "`\" \".repeat(indent_level * indent_width)` iff at the start of a line and clears the flag; write(s) emits nothing for \"\" and otherwise the "
                 "indentation (if due) followed by s; newline emits '\\n' and sets the flag; indent / dedent change the level by exactly one (dedent saturating at 0); "
                 "no arithmetic panic for levels below 2^20")

    def run():
        t0 = time.time()
        r = {"id": "F-writer", "engine": "E2-X mirsmt", "statement": statement,
             "bound": "indent_level < 2^20, 1 <= indent_width <= 64, both symbolic; the written string is an atom (non-empty or empty)",
             "encoding": "writer struct with symbolic scalar fields; String::push_str / push / str::repeat as events"}
        encoded, bad, npaths, queries = set(), [], 0, 0

        def fresh():
            ex = make_executor(P, R, 1, True)
            lvl = ex.sym_value("usize", "lvl")
            wid = ex.sym_value("usize", "wid")
            als = ex.enc.bool_var("als")
            ex.enc.side.append(f"(and (< {lvl.term} 1048576) (>= {wid.term} 1) (<= {wid.term} 64))")
            cfg = Adt("FormatConfig", None, [("indent_width", wid), ("line_length", S("int", "120")), ("quote_style", Adt("QuoteStyle", "Double", [])),
                                             ("trailing_commas", S("bool", "true")), ("blank_lines_top_level", S("int", "2")), ("blank_lines_methods", S("int", "1"))])
            w = Adt("FormatWriter", None, [("output", Opaque("out")), ("indent_level", lvl), ("config", cfg), ("at_line_start", als),
                                           ("current_line_length", S("int", "0"))])
            st0 = symex.State()
            st0.store[0] = {"_w": w}
            return ex, st0, symex.Ref(0, Place("_w")), lvl, wid, als

        def final(o):
            w = o.state.store[0]["_w"]
            f = dict((n, v) for n, v in w.fields)
            return f["indent_level"].term, f["at_line_start"].term

        def indent_event(lvl, wid):
            return ("OUT", f'opaque<repeat(opaque<const " ">,(* {lvl.term} {wid.term}))>')

        pending = []

        def ask(ex, pc, goal_neg, what):
            nonlocal queries
            queries += 1
            pending.append((ex, symex.conj(pc + [goal_neg]), what))

        def flush():
            by_ex = {}
            for ex_, q_, what in pending:
                by_ex.setdefault(id(ex_), (ex_, []))[1].append((q_, what))
            for ex_, items in by_ex.values():
                res = solver.check_many(mp.smt_lines(ex_, []), [[q_] for q_, _ in items], "z3", 300)
                for (q_, what), r_ in zip(items, res):
                    if r_ != "unsat":
                        bad.append(what + f" [{r_}]")
            pending.clear()

        def feasible(ex, pc):
            nonlocal queries
            queries += 1
            return solver.check(mp.smt_lines(ex, [symex.conj(pc)]), [], "z3", 60).status != "unsat"

        def norm_events(evs, lvl, wid):
            """output events with the indentation argument normalised: (* lvl wid) in either operand order"""
            out = []
            for e in evs:
                if e[0] != "OUT":
                    continue
                m = re.match(r'^opaque<repeat\(opaque<const " ">,(.*)\)>$', e[1])
                out.append(("INDENT", m.group(1)) if m else ("TEXT", e[1]))
            return out

        for fname, argkind in (("write_indent", None), ("write", "nonempty"), ("write", "empty"), ("newline", None), ("indent", None), ("dedent", None)):
            ex, st0, wref, lvl, wid, als = fresh()
            f = find_fn(P, ">::" + fname, ("writer::",))
            args = [wref]
            if argkind == "nonempty":
                args.append(Opaque('const "S"'))
            elif argkind == "empty":
                args.append(Opaque('const ""'))
            outs = ex.run(f, args, state=st0)
            encoded |= set(ex.encoded)
            for o in outs:
                if not feasible(ex, o.pc):
                    continue
                npaths += 1
                tag = f"{fname}({argkind or ''})"
                if o.kind != "return":
                    bad.append(f"{tag}: {o.kind}: {o.info}")
                    continue
                evs = norm_events(o.state.events, lvl, wid)
                lv2, als2 = final(o)
                want_same_level = fname not in ("indent", "dedent")
                if want_same_level:
                    ask(ex, o.pc, f"(not (= {lv2} {lvl.term}))", f"{tag}: indent level changes")
                if fname == "indent":
                    ask(ex, o.pc, f"(not (= {lv2} (+ {lvl.term} 1)))", f"{tag}: level is not level + 1")
                if fname == "dedent":
                    ask(ex, o.pc, f"(not (= {lv2} (ite (> {lvl.term} 0) (- {lvl.term} 1) 0)))", f"{tag}: level is not max(level - 1, 0)")
                if fname in ("indent", "dedent"):
                    if evs:
                        bad.append(f"{tag}: writes output {evs}")
                    ask(ex, o.pc, f"(not (= {als2} {als.term}))", f"{tag}: at-line-start flag changes")
                    continue
                if fname == "newline":
                    if evs != [("TEXT", "opaque<const '\\n'>")]:
                        bad.append(f"{tag}: output is {evs}, documented: one newline")
                    ask(ex, o.pc, f"(not {als2})", f"{tag}: at-line-start flag not set")
                    continue
                if argkind == "empty":
                    if evs:
                        bad.append(f"{tag}: writes {evs} for the empty string")
                    ask(ex, o.pc, f"(not (= {als2} {als.term}))", f"{tag}: flag changes for the empty string")
                    continue
                # write_indent / write(non-empty): indentation exactly when at line start
                text = [("TEXT", 'opaque<const "S">')] if fname == "write" else []
                ind = [e for e in evs if e[0] == "INDENT"]
                rest = [e for e in evs if e[0] != "INDENT"]
                if rest != text or len(ind) > 1 or (ind and evs[0][0] != "INDENT"):
                    bad.append(f"{tag}: output is {evs}, documented: [indentation] + {text}")
                    continue
                if ind:
                    ask(ex, o.pc, f"(not {als.term})", f"{tag}: indentation written although not at the start of a line")
                    ask(ex, o.pc, f"(not (= {ind[0][1]} (* {lvl.term} {wid.term})))", f"{tag}: indentation is {ind[0][1]} columns, documented level * width")
                else:
                    ask(ex, o.pc, als.term, f"{tag}: no indentation written at the start of a line")
                ask(ex, o.pc, als2, f"{tag}: at-line-start flag still set after writing")
        flush()
        r.update(functions_encoded=sorted(n + " (MIR)" for n in encoded), paths=npaths, queries=queries, wall_s=round(time.time() - t0, 2))
        if npaths < 8:
            r.update(status="inconclusive", reason=f"only {npaths} feasible paths explored (vacuity)")
            return r
        r["vacuity_ok"] = True
        if not bad:
            r.update(status="held", solver=f"{queries} z3 queries: all unsat / all paths as documented")
            return r
        # native confirmation: the deep-nesting and the ordinary statement sentences
        broken = {}
        for prof in ("dev", "release"):
            bat, res = run_fmtrt(log_dir, prof)
            for name in bat:
                st, rest = res.get(name, ("MISSING", ""))
                if st != "SAME" or "NONIDEM" in rest:
                    broken.setdefault(name, []).append(f"[{prof}] {st}{rest[:200]}")
        r["native"] = "; ".join(f"{k}: {v[0]}" for k, v in list(broken.items())[:4]) or "every example sentence (incl. 20-level nesting) round-trips"
        why = "; ".join(bad[:4])
        if broken:
            os.makedirs(os.path.join(common.REPLAYS_DIR, "MIRX"), exist_ok=True)
            rp = os.path.join(common.REPLAYS_DIR, "MIRX", "F-writer.replay")
            with open(rp, "w") as fh:
                fh.write(f"mirx fmtrt {' '.join(sorted(broken))}\n# {statement[:300]}\n# solver: {why[:600]}\n# native: {r['native'][:600]}\n")
            r.update(status="violated", replay=rp, counterexample={"path": why[:600], "native": r["native"][:600]})
        else:
            r.update(status="inconclusive", reason=f"the writer deviates ({why[:400]}) but every example sentence round-trips")
        return r
    return mp.XOb("F-writer", statement, "", run)


# ---- string escaping: one character at a time -------------------------------------------------------------------------------------
ESCAPES = {10: '\\\\n', 13: '\\\\r', 9: '\\\\t', 92: '\\\\\\\\', 34: '\\\\\\"'}     # code point -> the Rust-literal spelling of what is pushed


def escape_obligation(P, R, mp, log_dir):
    statement = ("escape_string (string literals): the text is traversed by Unicode scalar (`chars()`), and each scalar contributes exactly: `\\n` `\\r` `\\t` `\\\\` `\\\"` "
                 "for newline, carriage return, tab, backslash, double quote - and ITSELF, unchanged, otherwise (so that the lexer's unescaping gives the value back)")

    def run():
        t0 = time.time()
        r = {"id": "F-escape", "engine": "E2-X mirsmt", "statement": statement,
             "bound": "strings of 0..=2 scalars, each an arbitrary code point 0..=0x10FFFF (symbolic); the per-scalar rule makes longer strings the same step repeated",
             "encoding": "Chars::next as a fork into end-of-string / one more symbolic scalar; String::push / push_str as events"}
        f = [v for k, v in P.fns.items() if re.search(r"(^|::)escape_string$", k)]
        if len(f) != 1:
            raise Inconclusive("escape_string not found (or ambiguous) in the MIR dump")
        ex = make_executor(P, R, 1, False)
        del ex.state_intrinsics[r"(^|::)escape_string$"]
        chars = []

        class CharIter(symex.Val):
            def __init__(self, pos):
                self.pos = pos

            def __repr__(self):
                return f"chars@{self.pos}"

        def st_chars(ex_, callee, args, st):
            return [("return", CharIter(0), None, st)]

        def st_ident(ex_, callee, args, st):
            return [("return", ex_.deref(args[0], st), None, st)]

        def st_next(ex_, callee, args, st):
            ref = args[0]
            it = ex_.deref(ref, st)
            if not isinstance(it, CharIter):
                raise Unsupported(f"next on {it!r}")
            res = [("return", Adt("Option", "None", []), None, st)]
            if it.pos < 2:
                while len(chars) <= it.pos:
                    c = ex_.sym_value("u32", f"ch{len(chars)}")
                    ex_.enc.side.append(f"(<= {c.term} 1114111)")
                    chars.append(c)
                st2 = st.fork()
                ex_._store(ref.frame, ref.place, CharIter(it.pos + 1), st2)
                st2.events.append(("CHAR", it.pos))
                res.append(("return", Adt("Option", "Some", [chars[it.pos]]), None, st2))
            return res
        ex.state_intrinsics = dict(ex.state_intrinsics)
        ex.state_intrinsics[r"str>::chars$"] = st_chars
        ex.state_intrinsics[r"^<(std::str::)?Chars<.*> as (std::iter::)?IntoIterator>::into_iter$"] = st_ident
        ex.state_intrinsics[r"^<(std::str::)?Chars<.*> as (std::iter::)?Iterator>::next$"] = st_next
        ex.state_intrinsics[r"(^|::)String::new$"] = lambda ex_, callee, args, st: [("return", Opaque("res"), None, st)]
        # put the specific handlers first (the generic IntoIterator pattern of the base table would shadow them)
        order = [r"str>::chars$", r"^<(std::str::)?Chars<.*> as (std::iter::)?IntoIterator>::into_iter$",
                 r"^<(std::str::)?Chars<.*> as (std::iter::)?Iterator>::next$", r"(^|::)String::new$"]
        ex.state_intrinsics = {**{k: ex.state_intrinsics[k] for k in order}, **{k: v for k, v in ex.state_intrinsics.items() if k not in order}}
        try:
            outs = ex.run(f[0], [Opaque("s")])
        except (Unsupported, symex.PathExplosion) as x:
            outs, err = [], str(x)
        r["functions_encoded"] = [n + " (MIR)" for n in ex.encoded]
        bad, queries, npaths = [], 0, 0
        if not outs:
            bad.append(f"the traversal is not `for c in s.chars()` over push / push_str any more: {locals().get('err', 'no path')}")
        feas = solver.check_many(mp.smt_lines(ex, []), [[symex.conj(o.pc)] for o in outs], "z3", 300)
        queries += len(outs)
        later = []
        for o, fz in zip(outs, feas):
            if fz == "unsat":
                continue
            npaths += 1
            if o.kind != "return":
                bad.append(f"{o.kind}: {o.info}")
                continue
            evs = o.state.events
            # split events per character
            per, cur = [], None
            for e in evs:
                if e[0] == "CHAR":
                    cur = []
                    per.append((e[1], cur))
                elif e[0] == "OUT":
                    if cur is None:
                        bad.append(f"output {e[1]} before the first scalar")
                    else:
                        cur.append(e[1])
            for k, outs_k in per:
                c = chars[k].term
                if len(outs_k) != 1:
                    bad.append(f"scalar #{k} contributes {len(outs_k)} pieces {outs_k}")
                    continue
                piece = outs_k[0]
                if piece == c:
                    cond = "(or " + " ".join(f"(= {c} {cp})" for cp in ESCAPES) + ")"       # must not be a special scalar
                    what = f"scalar #{k} pushed unchanged although it needs an escape"
                else:
                    cp = next((cp for cp, lit in ESCAPES.items() if piece == f'opaque<const "{lit}">'), None)
                    if cp is None:
                        bad.append(f"scalar #{k} contributes {piece}, which is neither the scalar itself nor a documented escape")
                        continue
                    cond = f"(not (= {c} {cp}))"
                    what = f"scalar #{k}: escape {piece} written for another scalar"
                later.append((symex.conj(o.pc + [cond]), what))
        for (q_, what), r_ in zip(later, solver.check_many(mp.smt_lines(ex, []), [[q_] for q_, _ in later], "z3", 300)):
            queries += 1
            if r_ != "unsat":
                bad.append(f"{what} [{r_}]")
        r.update(paths=npaths, queries=queries, wall_s=round(time.time() - t0, 2))
        if not bad and npaths < 20:
            r.update(status="inconclusive", reason=f"only {npaths} feasible paths (vacuity)")
            return r
        r["vacuity_ok"] = True
        if not bad:
            r.update(status="held", solver=f"{queries} z3 queries; every scalar contributes its documented piece on all {npaths} paths")
            return r
        broken = {}
        for prof in ("dev", "release"):
            bat, res = run_fmtrt(log_dir, prof)
            for name in ("string_escapes", "literals", "patterns"):
                st, rest = res.get(name, ("MISSING", ""))
                if st != "SAME":
                    broken.setdefault(name, []).append(f"[{prof}] {st}{rest[:240]}")
        why = "; ".join(bad[:4])
        r["native"] = "; ".join(f"{k}: {v[0]}" for k, v in broken.items()) or "the string-literal example sentences round-trip"
        if broken:
            os.makedirs(os.path.join(common.REPLAYS_DIR, "MIRX"), exist_ok=True)
            rp = os.path.join(common.REPLAYS_DIR, "MIRX", "F-escape.replay")
            with open(rp, "w") as fh:
                fh.write(f"mirx fmtrt {' '.join(sorted(broken))}\n# {statement[:300]}\n# solver: {why[:600]}\n# native: {r['native'][:600]}\n")
            r.update(status="violated", replay=rp, counterexample={"path": why[:600], "native": r["native"][:600]})
        else:
            r.update(status="inconclusive", reason=f"escape_string deviates ({why[:400]}) but the string-literal example sentences round-trip")
        return r
    return mp.XOb("F-escape", statement, "", run)
