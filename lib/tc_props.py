"""E2-X slices of the type checker (C07): the rule bodies of `check_binary` and of the compound-assignment arm of
`check_statement` are executed symbolically from the point where the operand types are known (the recursive
`check_expr` calls before that point are summarised by ARBITRARY operand types), with the checker's own helpers
(`types_compatible`, error constructors, `errors.push`) recorded as events."""
import os
import re
import time

import common
from common import Inconclusive, say
import mir
import mirx
import solver
import symex
from symex import Adt, Sym, conj, disj, neg

AST_OP = "incan_syntax::ast::BinaryOp"
ARITH = ["Add", "Sub", "Mul", "Div", "FloorDiv", "Mod", "Pow"]
CMP = ["Eq", "NotEq", "Lt", "Gt", "LtEq", "GtEq"]
OPSYM = {"Add": "+", "Sub": "-", "Mul": "*", "Div": "/", "FloorDiv": "//", "Mod": "%", "Pow": "**", "Eq": "==", "NotEq": "!=",
         "Lt": "<", "Gt": ">", "LtEq": "<=", "GtEq": ">=", "And": "and", "Or": "or"}
SUMMARIZE = [r"lang::\w+(::\w+)*::from_str$", r"_type_id$", r"::as_str$", r"String as .*Deref>::deref$", r"ToString>::to_string$",
             r"fmt::format", r"^format$", r"::types_compatible$", r"^(errors::)?\w*mismatch\w*$", r"^errors::\w+$", r"Vec::<.*>::push$",
             r"^unknown_symbol$", r"^mutation_without_mut$"]


def find_fn(P, suffix):
    c = [f for n, f in P.fns.items() if n.endswith("::" + suffix) and "{closure" not in n]
    if len(c) != 1:
        raise Inconclusive(f"function `{suffix}` not found (or ambiguous) in the MIR dump")
    return c[0]


def entry_after_call(f, var_name, callee_pat):
    """The block a call matching `callee_pat` returns to when its result is the source variable `var_name`."""
    loc = f.debug.get(var_name)
    if loc is None:
        raise Inconclusive(f"{f.name}: no local named `{var_name}` any more")
    for b in f.blocks.values():
        m = re.match(r"^" + re.escape(loc) + r" = .*" + callee_pat + r"\(.*\) -> \[return: (bb\d+)", b.term or "")
        if m:
            return loc, m.group(1)
    raise Inconclusive(f"{f.name}: `{var_name}` is no longer the result of a {callee_pat} call")


class LitModel:
    """Documented classification of an exponent expression on the surface syntax (n, -n, parenthesised up to `depth`)."""

    def __init__(self, ex, R, mp, expr_sym, depth):
        self.ex, self.R, self.mp = ex, R, mp
        self.lits = []
        self.nonneg = self._build(expr_sym, depth)

    def _lit_int(self, node, variant):
        """formula 'node is Literal(Int n)' and the term n, for an Expr sym `node`"""
        R, mp = self.R, self.mp
        lit = node.child(variant, 0) if variant else node
        return lit

    def _build(self, spanned, depth):
        R, mp = self.R, self.mp
        ix = lambda ty, n: mp.idx(R, ty, n)  # noqa: E731
        node = spanned.child(None, 0)
        nt = node.tag().term
        lit = node.child("Literal", 0)
        n = lit.child("Int", 0)
        self.lits.append(n.term)
        is_lit = f"(and (= {nt} {ix('incan_syntax::ast::Expr', 'Literal')}) (= {lit.tag().term} {ix('incan_syntax::ast::Literal', 'Int')}))"
        uop = node.child("Unary", 0)
        inner = node.child("Unary", 1).child(None, 0)
        ilit = inner.child("Literal", 0)
        m = ilit.child("Int", 0)
        self.lits.append(m.term)
        is_neg = (f"(and (= {nt} {ix('incan_syntax::ast::Expr', 'Unary')}) (= {uop.tag().term} {ix('incan_syntax::ast::UnaryOp', 'Neg')}) "
                  f"(= {inner.tag().term} {ix('incan_syntax::ast::Expr', 'Literal')}) (= {ilit.tag().term} {ix('incan_syntax::ast::Literal', 'Int')}))")
        f = f"(or (and {is_lit} (>= {n.term} 0)) (and {is_neg} (>= (- {m.term}) 0))"
        if depth > 0:
            is_paren = f"(= {nt} {ix('incan_syntax::ast::Expr', 'Paren')})"
            f += f" (and {is_paren} {self._build(node.child('Paren', 0), depth - 1)})"
        return f + ")"


def build(pid, P, R, tier, log_dir):
    import mirx_props as mp
    obs = []
    if pid not in ("C07", "C04", "C06", "C17", "C11"):
        return obs
    PAREN_DEPTH = 2

    def setup():
        ex = mirx.make_executor(P, R)
        ex.opaque_calls = mirx.slice_opaque
        ex.recursion_bound = PAREN_DEPTH
        ex.summarize = SUMMARIZE

        def lexer_fact(parent, variant, idx, child):
            # the lexer only produces integer literals in 0..=i64::MAX (a leading minus is a separate unary node): at every depth
            if variant == "Int" and parent.tdef is not None and parent.tdef.name == "Literal" and isinstance(child, symex.Scalar):
                ex.enc.side.append(f"(>= {child.term} 0)")
        ex.child_axiom = lexer_fact
        return ex

    def num_terms(ex, lty, rty):
        I, F = mp.idx(R, "ResolvedType", "Int"), mp.idx(R, "ResolvedType", "Float")
        lt, rt = lty.tag().term, rty.tag().term
        return {"l_int": f"(= {lt} {I})", "l_float": f"(= {lt} {F})", "r_int": f"(= {rt} {I})", "r_float": f"(= {rt} {F})",
                "both": f"(and (or (= {lt} {I}) (= {lt} {F})) (or (= {rt} {I}) (= {rt} {F})))", "any_float": f"(or (= {lt} {F}) (= {rt} {F}))"}

    # ---- check_binary --------------------------------------------------------------------------------------------
    def run_check_binary():
        t0 = time.time()
        f = find_fn(P, "check_binary")
        loc_r, entry = entry_after_call(f, "right_ty", r"check_expr")
        loc_l = f.debug.get("left_ty")
        ex = setup()
        selfv = ex.sym_value("TypeChecker", "self")
        left = ex.sym_value("incan_syntax::ast::Spanned<incan_syntax::ast::Expr>", "left")
        op = ex.sym_value(AST_OP, "op")
        right = ex.sym_value("incan_syntax::ast::Spanned<incan_syntax::ast::Expr>", "right")
        lty = ex.sym_value("symbols::ResolvedType", "lty")
        rty = ex.sym_value("symbols::ResolvedType", "rty")
        lm = LitModel(ex, R, mp, right, PAREN_DEPTH)
        for t in lm.lits:
            ex.enc.side.append(f"(>= {t} 0)")     # the lexer only produces literals in 0..=i64::MAX
        outs = ex.run_slice(f, entry, {loc_l: lty, loc_r: rty}, [selfv, left, op, right, symex.Opaque("span")])
        nt = num_terms(ex, lty, rty)
        ot = op.tag().term
        op_is = lambda n: f"(= {ot} {mp.idx(R, AST_OP, n)})"  # noqa: E731
        arith = disj([op_is(n) for n in ARITH])
        cmpf = disj([op_is(n) for n in CMP])
        logic = disj([op_is(n) for n in ("And", "Or")])
        doc_float = (f"(ite {op_is('Div')} true (ite {op_is('Pow')} (not (and (not {nt['any_float']}) {lm.nonneg})) {nt['any_float']}))")
        bad = []
        for o in outs:
            if o.kind != "return":
                bad.append(conj(o.pc + [nt["both"]]))     # no panic on numeric operands
                continue
            err = any(e[0].endswith("::push") for e in o.events)
            v = ex.deref(o.value, o.state)
            vn = v.variant if isinstance(v, Adt) else None
            want_arith = "false"
            if not err and vn == "Float":
                want_arith = doc_float
            elif not err and vn == "Int":
                want_arith = neg(doc_float)
            want_bool = "true" if (vn == "Bool" and not err) else "false"
            want = (f"(and (=> (and {arith} {nt['both']}) {want_arith}) (=> (and {cmpf} {nt['both']}) {want_bool}) "
                    f"(=> {logic} {'true' if vn == 'Bool' else 'false'}))")
            bad.append(conj(o.pc + [neg(want)]))
        r = {"id": "X-check_binary", "engine": "E2-X mirsmt (slice)",
             "statement": "type checker, binary expressions: for int/float operand types the static type is the documented one (/ float; "
                          "+ - * // % float iff an operand is; ** int only for int ** non-negative int literal, also when parenthesised; "
                          "comparisons bool, mixing int and float allowed) and no error is reported; and/or are bool",
             "bound": f"rule body of check_binary from the point where both operand types are known: ALL operand types (every ResolvedType "
                      f"variant) x all 18 operators x every exponent expression shape up to {PAREN_DEPTH} nested parentheses x every literal; "
                      "the recursive check of the operands is summarised by arbitrary types",
             "encoding": "enum tags as bounded Int; literals as Int; checker helpers as events",
             "functions_encoded": [n + " (MIR)" for n in ex.encoded], "paths": len(outs),
             "truncated_recursion": sorted(getattr(ex, "truncated", []))}
        base = os.path.join(log_dir, "X-check_binary")
        vac, _ = mp.query(ex, [conj([nt["both"], arith]), disj([conj(o.pc) for o in outs if o.kind == "return"])], [], base + ".vac")
        if vac.status != "sat":
            r.update(status="inconclusive", reason=f"vacuity twin {vac.status}", wall_s=round(time.time() - t0, 2))
            return r
        r["vacuity_ok"] = True
        res, res2 = mp.query(ex, [disj(bad)], mp.tag_names(ex), base)
        r["solver"] = f"z3: {res.status} in {res.wall:.2f} s" + (f"; cvc5: {res2.status} in {res2.wall:.2f} s" if res2 else "")
        r["wall_s"] = round(time.time() - t0, 2)
        if res.status == "unsat" and (res2 is None or res2.status != "sat"):
            r["status"] = "held"
            return r
        if res.status == "inconclusive":
            r.update(status="inconclusive", reason="solver: " + res.raw[:200])
            return r
        model = (res if res.status == "sat" else res2).model
        # concretise
        tv = lambda s: solver.value_int(model[s.tag().term]) if s.tag().term in model else 0  # noqa: E731
        opn = mp.variants(R, AST_OP)[tv(op)]
        ltn = mp.variants(R, "ResolvedType")[tv(lty)]
        rtn = mp.variants(R, "ResolvedType")[tv(rty)]
        shape = expr_shape(R, mp, right, model, PAREN_DEPTH)
        r["model"] = {"op": opn, "left": ltn, "right": rtn, "right_expr": shape}
        return finish_tc(r, "binary", opn, ltn, rtn, shape, log_dir)
    if pid not in ("C06", "C17", "C11"):
        obs.append(mp.XOb("X-check_binary", "", "", run_check_binary))

    # ---- the const evaluator's binary arm (C07: one more phase that types arithmetic; C06: what it computes at compile time) -------
    def run_const_binary():
        t0 = time.time()
        f = find_fn(P, "eval_const_expr")
        # the Binary arm: source variables `left, op, right`, then `l`, then `r`; enter where `r` is bound
        names = [n for n, _ in f.debug_all]
        if "left" not in names or "right" not in names or "l" not in names:
            raise Inconclusive("eval_const_expr: the Binary arm's variables (left, op, right, l, r) were not found")
        i_l = names.index("l")
        loc_l = f.debug_all[i_l][1]
        loc_r = next((loc for n, loc in f.debug_all[i_l + 1:] if n == "r"), None)
        i_left = names.index("left")
        loc_op = next((loc for n, loc in f.debug_all[i_left:] if n == "op"), None)
        loc_right = f.debug_all[names.index("right")][1]
        if loc_r is None or loc_op is None:
            raise Inconclusive("eval_const_expr: `r` / `op` of the Binary arm not found")
        entry = None
        for bn, b in f.blocks.items():
            if any(re.match(r"^" + re.escape(loc_r) + r" = move (_\d+|\(\(_\d+ as Continue\)\.0.*)$", s_) for s_ in b.stmts):
                entry = bn
        if entry is None:
            raise Inconclusive("eval_const_expr: the block binding `r` was not found")
        ex = setup()
        ex.tolerate_unsupported = True
        ex.summarize = SUMMARIZE + [r"(^|::)str_concat$", r"(^|::)str_contains$", r"stringlike_type_id$",
                                    r"Display>::fmt", r"fmt::rt::Argument", r"Arguments::<.*>::new", r"must_use", r"CompileError::\w+$"]
        selfv = ex.sym_value("TypeChecker", "self")
        expr = ex.sym_value("incan_syntax::ast::Spanned<incan_syntax::ast::Expr>", "expr")
        l = ex.sym_value("ConstEvalResult", "l")
        op = ex.sym_value(AST_OP, "op")
        right = ex.sym_value("incan_syntax::ast::Spanned<incan_syntax::ast::Expr>", "right")
        cn = [x[0] for x in R.resolve("ConstEvalResult").variants[0][1]]
        lm = LitModel(ex, R, mp, right, PAREN_DEPTH)
        for t in lm.lits:
            ex.enc.side.append(f"(>= {t} 0)")
        # an operand that has been evaluated contains no parenthesised sub-expression (the evaluator rejects Expr::Paren at every level)
        PAREN = mp.idx(R, "incan_syntax::ast::Expr", "Paren")
        node = right.child(None, 0)
        for _ in range(4):
            ex.enc.side.append(f"(not (= {node.tag().term} {PAREN}))")
            node = node.child("Unary", 1).child(None, 0)
        rres = ex.sym_value("ConstEvalResult", "r")
        cf = None
        for s_ in f.blocks[entry].stmts:
            mcf = re.match(r"^_\d+ = move \(\((_\d+) as Continue\)\.0", s_)
            if mcf:
                cf = mcf.group(1)
        if cf is None:
            raise Inconclusive("eval_const_expr: the `?` payload feeding `r` was not found")
        outs = ex.run_slice(f, entry, {loc_l: l, loc_op: op, loc_right: right, cf: Adt("ControlFlow", "Continue", [rres])},
                            [selfv, expr, symex.Opaque("expected"), symex.Opaque("stack"), symex.Opaque("span")])
        # `r` is created by the slice itself (payload of the `?`): find it through the frame's havocked local
        ot = op.tag().term
        op_is = lambda n: f"(= {ot} {mp.idx(R, AST_OP, n)})"  # noqa: E731
        arith = disj([op_is(n) for n in ARITH])
        cmpf = disj([op_is(n) for n in CMP])
        logic = disj([op_is(n) for n in ("And", "Or")])
        RT = "ResolvedType"
        I, F, B = mp.idx(R, RT, "Int"), mp.idx(R, RT, "Float"), mp.idx(R, RT, "Bool")
        lty = l.child(None, cn.index("ty"))
        bad, n_ok, why = [], 0, []
        rsyms = set()
        unsup = set()
        n_val = {}
        for o in outs:
            rt = rres.child(None, cn.index("ty")).tag().term
            if o.kind == "unsupported":
                lt_ = lty.tag().term
                rel = (f"(or (and (or {arith} {cmpf}) (or (= {lt_} {I}) (= {lt_} {F})) (or (= {rt} {I}) (= {rt} {F}))) "
                       f"(and {logic} (= {lt_} {B}) (= {rt} {B})))")
                bad.append(conj(o.pc + [rel])); why.append(f"unsupported MIR: {o.info}")
                unsup.add(str(o.info)[:160])
                continue
            rsyms.add(rt)
            lt = lty.tag().term
            both = f"(and (or (= {lt} {I}) (= {lt} {F})) (or (= {rt} {I}) (= {rt} {F})))"
            anyf = f"(or (= {lt} {F}) (= {rt} {F}))"
            doc_float = f"(ite {op_is('Div')} true (ite {op_is('Pow')} (not (and (not {anyf}) {lm.nonneg})) {anyf}))"
            if o.kind != "return":
                bad.append(conj(o.pc + [both])); why.append(f"panic on numeric operands: {o.info}")
                continue
            err = any(e[0].endswith("::push") for e in o.events)
            v = ex.deref(o.value, o.state)
            res = find_adt(v, ex, o.state, None) if False else None
            got = None
            if isinstance(v, Adt) and v.variant == "Some":
                inner = ex.deref(v.fields[0][1] if isinstance(v.fields[0], tuple) else v.fields[0], o.state)
                if isinstance(inner, Adt):
                    tyv = ex.deref(adt_field(inner, "ty"), o.state)
                    got = tyv.variant if isinstance(tyv, Adt) else None
            n_ok += 1
            want_arith = "false"
            if not err and got == "Float":
                want_arith = doc_float
            elif not err and got == "Int":
                want_arith = neg(doc_float)
            want_bool = "true" if (got == "Bool" and not err) else "false"
            both_bool = f"(and (= {lt} {B}) (= {rt} {B}))"
            want = (f"(and (=> (and {arith} {both}) {want_arith}) (=> (and {cmpf} {both}) {want_bool}) "
                    f"(=> (and {logic} {both_bool}) {want_bool}))")
            bad.append(conj(o.pc + [neg(want)])); why.append(f"result type {got} (error reported: {err})")
            # ---- what is folded at compile time (C06) ---------------------------------------------------------------------
            fo = o.state.facts.get(ot)
            opn_ = mp.variants(R, AST_OP)[fo[1]] if fo and fo[0] == "eq" else None
            val = ex.deref(adt_field(inner, "value"), o.state) if (isinstance(v, Adt) and v.variant == "Some" and isinstance(inner, Adt)) else None
            CV = mp.variants(R, "ConstValue")
            lv, rv = l.child(None, cn.index("value")), rres.child(None, cn.index("value"))

            def payload(vsym, variant):
                """the ConstValue payload of kind `variant` if this path knows the operand's value is Some(variant(..))"""
                f1 = o.state.facts.get(vsym.tag().term) if vsym._tag is not None else None
                if not (f1 and f1[0] == "eq" and f1[1] == 1):
                    return None
                cvs = vsym.child("Some", 0)
                f2 = o.state.facts.get(cvs.tag().term) if cvs._tag is not None else None
                if not (f2 and f2[0] == "eq" and f2[1] == CV.index(variant)):
                    return None
                return cvs.child(variant, 0)

            def folded(kind_):
                if isinstance(val, Adt) and val.variant == "Some":
                    cvv = ex.deref(val.fields[0][1] if isinstance(val.fields[0], tuple) else val.fields[0], o.state)
                    if isinstance(cvv, Adt) and cvv.variant == kind_:
                        return ex.deref(cvv.fields[0][1] if isinstance(cvv.fields[0], tuple) else cvv.fields[0], o.state)
                return None
            if opn_ in ("And", "Or") and got == "Bool" and not err:
                lb, rb = payload(lv, "Bool"), payload(rv, "Bool")
                if lb is not None and rb is not None:
                    n_val["and/or"] = n_val.get("and/or", 0) + 1
                    t_ = folded("Bool")
                    e_ = f"({'and' if opn_ == 'And' else 'or'} {lb.term} {rb.term})"
                    if t_ is None or not isinstance(t_, symex.Scalar):
                        bad.append(conj(o.pc)); why.append(f"`{opn_.lower()}` of two known bools is not folded to a bool value")
                    else:
                        bad.append(conj(o.pc + [f"(not (= {t_.term} {e_}))"])); why.append(f"`{opn_.lower()}` folds to the wrong truth value")
            if os.environ.get("VERIF_DEBUG") and got in ("FrozenStr",):
                print("DBG", got, [(e[0], e[2]) for e in o.events], mirx.show(val, ex, o.state)[:200])
            sc = [e for e in o.events if e[0].endswith(("str_contains", "str_concat"))]
            for e in sc:
                ls_, rs_ = payload(lv, "FrozenStr"), payload(rv, "FrozenStr")
                if ls_ is None or rs_ is None:
                    bad.append(conj(o.pc)); why.append(f"{e[0]} called although an operand's value is not a known string")
                    continue
                if e[0].endswith("str_contains"):
                    n_val["in"] = n_val.get("in", 0) + 1
                    t_ = folded("Bool")
                    okargs = rs_.name in e[1][0] and ls_.name in e[1][1]      # str_contains(haystack = right operand, needle = left operand)
                    want_t = e[2] if opn_ == "In" else f"(not {e[2]})"
                    if not okargs or opn_ not in ("In", "NotIn") or t_ is None or not isinstance(t_, symex.Scalar):
                        bad.append(conj(o.pc)); why.append(f"`{opn_}` on strings: str_contains{e[1]} / folded value {t_!r}")
                    else:
                        bad.append(conj(o.pc + [f"(not (= {t_.term} {want_t}))"])); why.append(f"`{opn_}` on strings folds to the wrong truth value")
                else:
                    n_val["+"] = n_val.get("+", 0) + 1
                    t_ = folded("FrozenStr")
                    okargs = ls_.name in e[1][0] and rs_.name in e[1][1]
                    if not okargs or opn_ != "Add" or not (isinstance(t_, Sym) and t_.name == e[2]):
                        bad.append(conj(o.pc)); why.append(f"`+` on strings: str_concat{e[1]} / folded value {t_!r}")
        r = {"id": "X-const_binary", "engine": "E2-X mirsmt (slice)",
             "statement": "const evaluator, binary expressions: for int/float operand types the constant's type is the documented one (/ float; "
                          "+ - * // % float iff an operand is; ** int only for int ** non-negative int literal, also when parenthesised; "
                          "comparisons bool) and no error is reported; and/or of two bools is bool - the same table as the checker, lowering and emission; "
                          "what it folds at compile time is what runs: `and`/`or` of two known bools folds to their conjunction/disjunction, `l in r` / "
                          "`l not in r` on known strings to (the negation of) str_contains(r, l), `l + r` to str_concat(l, r) - the shared core kernels",
             "bound": f"Binary arm of TypeChecker::eval_const_expr from the point where both operands have been evaluated: ALL operand types x all 18 "
                      f"operators x every exponent expression shape up to {PAREN_DEPTH} nested parentheses x every literal; the recursive evaluation of "
                      "the operands is summarised by arbitrary results",
             "encoding": "enum tags as bounded Int; literals as Int; evaluator helpers as events",
             "functions_encoded": [n + " (MIR)" for n in ex.encoded], "paths": len(outs),
             "compositions": n_val,
             "outside": "string operands (concatenation, comparison, membership): " + ("; ".join(sorted(unsup)) if unsup else "executed")}
        base = os.path.join(log_dir, "X-const_binary")
        r["wall_s"] = round(time.time() - t0, 2)
        if n_ok == 0 or len(rsyms) != 1 or not {"and/or", "in", "+"} <= set(n_val):
            r.update(status="inconclusive", reason=f"no result path / folded values not reached ({n_val}); {(why or ['-'])[0][:200]}")
            return r
        rt = sorted(rsyms)[0]
        lt = lty.tag().term
        both = f"(and (or (= {lt} {I}) (= {lt} {F})) (or (= {rt} {I}) (= {rt} {F})))"
        vac, _ = mp.query(ex, [conj([both, arith]), disj([conj(o.pc) for o in outs if o.kind == "return"])], [], base + ".vac")
        if vac.status != "sat":
            r.update(status="inconclusive", reason=f"vacuity twin {vac.status}")
            return r
        r["vacuity_ok"] = True
        res, res2 = mp.query(ex, [disj([b for b in bad if b != "false"])], mp.tag_names(ex), base)
        r["solver"] = f"z3: {res.status} in {res.wall:.2f} s" + (f"; cvc5: {res2.status} in {res2.wall:.2f} s" if res2 else "")
        r["wall_s"] = round(time.time() - t0, 2)
        if res.status == "unsat" and (res2 is None or res2.status != "sat"):
            r["status"] = "held"
            return r
        if res.status == "inconclusive":
            r.update(status="inconclusive", reason="solver: " + res.raw[:200])
            return r
        model = (res if res.status == "sat" else res2).model
        for b_, w_ in zip(bad, why):
            if b_ != "false" and solver.check(mp.smt_lines(ex, [b_]), [], "z3", 30).status == "sat":
                r["deviating_path"] = w_
                break
        tv = lambda t: solver.value_int(model[t]) if t in model else 0  # noqa: E731
        opn = mp.variants(R, AST_OP)[tv(ot)]
        ltn = mp.variants(R, RT)[tv(lt)]
        rtn = mp.variants(R, RT)[tv(rt)]
        shape = expr_shape(R, mp, right, model, PAREN_DEPTH)
        r["model"] = {"op": opn, "left": ltn, "right": rtn, "right_expr": shape}
        if ltn in TY and rtn in TY:
            return finish_tc(r, "const", opn, ltn, rtn, shape, log_dir)
        return finish_const_values(r, log_dir)
    if pid in ("C07", "C06"):
        obs.append(mp.XOb("X-const_binary", "", "", run_const_binary))

    # ---- the const evaluator's slice arm (C06): what is folded is S[start:end:step] with the WRITTEN bounds ---------------------------
    def run_const_slice():
        t0 = time.time()
        f = find_fn(P, "eval_const_expr")
        ex = setup()
        ex.tolerate_unsupported = True
        ex.recursion_bound = 0
        ex.summarize = SUMMARIZE + [r"::eval_const_expr$", r"(^|::)str_slice$", r"is_intlike_for_index$", r"stringlike_type_id$", r"Display>::fmt",
                                    r"fmt::rt::Argument", r"Arguments::<.*>::new", r"must_use", r"CompileError::\w+$", r"IncanError::\w+$"]
        selfv = ex.sym_value("TypeChecker", "self")
        expr = ex.sym_value("incan_syntax::ast::Spanned<incan_syntax::ast::Expr>", "expr")
        node = expr.child(None, 0)
        evars = mp.variants(R, "incan_syntax::ast::Expr")
        st0 = symex.State()
        k = evars.index("Slice")
        st0.facts[node.tag().term] = ("eq", k)
        st0.pc.append(f"(= {node.tag().term} {k})")
        ex.call_stack = [f.name]
        try:
            outs = ex._run(f, [selfv, expr, symex.Opaque("expected"), symex.Opaque("stack"), symex.Opaque("span")], {}, 0, st0)
        finally:
            ex.call_stack = []
        sl = node.child("Slice", 1)
        sn = [x[0] for x in R.resolve("incan_syntax::ast::SliceExpr").variants[0][1]]
        bounds = {n: sl.child(None, sn.index(n)) for n in ("start", "end", "step")}
        cn = [x[0] for x in R.resolve("ConstEvalResult").variants[0][1]]
        bad, why, n_fold, classes = [], [], 0, {}
        for o in outs:
            if o.kind == "unsupported":
                bad.append(conj(o.pc)); why.append(f"unsupported MIR: {o.info}")
                continue
            if o.kind != "return":
                bad.append(conj(o.pc)); why.append(f"panic: {o.info}")
                continue
            folds = [e for e in o.events if e[0].endswith("str_slice")]
            if not folds:
                continue
            if len(folds) > 1:
                bad.append(conj(o.pc)); why.append("str_slice is called twice")
                continue
            n_fold += 1
            e = folds[0]
            # which evaluation result belongs to which bound
            evals = {}
            for ev in o.events:
                if ev[0].endswith("eval_const_expr"):
                    for bn, bs in bounds.items():
                        if f"sym<{bs.name}.Some.0" in ev[1][1]:
                            evals[bn] = ev[2]
            desc = []
            ok = True
            for pos, bn in enumerate(("start", "end", "step"), start=1):
                bs = bounds[bn]
                fo = o.state.facts.get(bs.tag().term) if bs._tag is not None else None
                written = bool(fo and fo[0] == "eq" and fo[1] == 1)
                shown = e[1][pos]
                if not written:
                    desc.append(f"{bn} omitted")
                    ok = ok and shown == "Option::None"
                    continue
                evn = evals.get(bn)
                want = f"{evn}.Some.0.{cn.index('value')}.Some.0.Int.0" if evn else None
                if shown == "Option::None":
                    desc.append(f"{bn} written, value unknown, passed as omitted")
                    ok = False
                elif want is not None and want in shown:
                    desc.append(f"{bn} written and known")
                else:
                    desc.append(f"{bn} written, passed {shown[:40]}")
                    ok = False
            key = "; ".join(desc)
            classes[key] = classes.get(key, 0) + 1
            if not ok:
                bad.append(conj(o.pc)); why.append("folding str_slice(base, " + ", ".join(e[1][1:4]) + ") although " + key)
        r = {"id": "X-const_slice", "engine": "E2-X mirsmt",
             "statement": "const evaluator, string slicing: a value is folded only by str_slice(base, start, end, step) where every WRITTEN bound is passed as "
                          "Some(its compile-time value) and every omitted bound as None; when a written bound's value is not known at compile time "
                          "nothing is folded (the const then has no recorded value instead of a wrong one)",
             "bound": "Slice arm of TypeChecker::eval_const_expr: every combination of written / omitted bounds x every outcome of evaluating the base and "
                      "each bound (unknown value, known int, error); the recursive evaluations and str_slice itself are summarised (str_slice is "
                      "decided by the C05/C06 Kani harnesses)",
             "encoding": "expression as a symbolic ADT; evaluator helpers as events", "functions_encoded": [n + " (MIR)" for n in ex.encoded],
             "paths": len(outs), "compositions": dict(sorted(classes.items())[:12])}
        base = os.path.join(log_dir, "X-const_slice")
        r["wall_s"] = round(time.time() - t0, 2)
        if n_fold < 8:
            r.update(status="inconclusive", reason=f"only {n_fold} folding paths were reached; {(why or ['-'])[0][:200]}")
            return r
        r["vacuity_ok"] = True
        live = [(b_, w_) for b_, w_ in zip(bad, why) if b_ != "false"]
        worst = None
        for k_ in range(0, len(live), 40):
            chunk = live[k_:k_ + 40]
            res = solver.check(mp.smt_lines(ex, [disj([b_ for b_, _ in chunk])]), [], "z3", 120)
            if res.status == "unsat":
                continue
            for b_, w_ in chunk:
                if solver.check(mp.smt_lines(ex, [b_]), [], "z3", 60).status != "unsat":
                    worst = w_
                    break
            if worst:
                break
        r["wall_s"] = round(time.time() - t0, 2)
        if worst is None:
            r.update(status="held", solver=f"{n_fold} folding paths, {len(live)} deviation conditions, all unsat (z3)")
            return r
        r["deviating_path"] = worst
        return finish_const_slice(r, log_dir)
    if pid == "C06":
        obs.append(mp.XOb("X-const_slice", "", "", run_const_slice))

    def run_const_index():
        t0 = time.time()
        f = find_fn(P, "eval_const_expr")
        ex = setup()
        ex.tolerate_unsupported = True
        ex.recursion_bound = 0
        ex.summarize = SUMMARIZE + [r"::eval_const_expr$", r"(^|::)str_char_at$", r"is_intlike_for_index$", r"stringlike_type_id$", r"Display>::fmt",
                                    r"fmt::rt::Argument", r"Arguments::<.*>::new", r"must_use", r"CompileError::\w+$", r"IncanError::\w+$"]
        selfv = ex.sym_value("TypeChecker", "self")
        expr = ex.sym_value("incan_syntax::ast::Spanned<incan_syntax::ast::Expr>", "expr")
        node = expr.child(None, 0)
        evars = mp.variants(R, "incan_syntax::ast::Expr")
        st0 = symex.State()
        k = evars.index("Index")
        st0.facts[node.tag().term] = ("eq", k)
        st0.pc.append(f"(= {node.tag().term} {k})")
        ex.call_stack = [f.name]
        try:
            outs = ex._run(f, [selfv, expr, symex.Opaque("expected"), symex.Opaque("stack"), symex.Opaque("span")], {}, 0, st0)
        finally:
            ex.call_stack = []
        cn = [x[0] for x in R.resolve("ConstEvalResult").variants[0][1]]
        base_s, idx_s = node.child("Index", 0), node.child("Index", 1)
        # contract of the summarised kernel (decided by the C05 harnesses, which compare its whole result): indexing never reports a step error
        SSZ = mp.idx(R, "StringAccessError", "SliceStepZero")
        declared = {d.split()[1] for d in ex.enc.decls}
        for o in outs:
            for e in o.events:
                if e[0].endswith("str_char_at") and f"{e[2]}.Err.0!tag" in declared:
                    c_ = f"(not (= {e[2]}.Err.0!tag {SSZ}))"
                    if c_ not in ex.enc.side:
                        ex.enc.side.append(c_)
        bad, why, n_fold, classes = [], [], 0, {}
        for o in outs:
            if o.kind != "return":
                bad.append(conj(o.pc)); why.append(f"{o.kind}: {o.info}")
                continue
            calls = [e for e in o.events if e[0].endswith("str_char_at")]
            if not calls:
                continue
            n_fold += 1
            e = calls[0]
            evals = {}
            for ev in o.events:
                if ev[0].endswith("eval_const_expr"):
                    if f"sym<{base_s.name}" in ev[1][1]:
                        evals["base"] = ev[2]
                    elif f"sym<{idx_s.name}" in ev[1][1]:
                        evals["idx"] = ev[2]
            want_b = f"{evals.get('base')}.Some.0.{cn.index('value')}.Some.0.FrozenStr.0"
            want_i = f"{evals.get('idx')}.Some.0.{cn.index('value')}.Some.0.Int.0"
            args_ok = len(calls) == 1 and want_b in e[1][0] and e[1][1] == want_i
            v = ex.deref(o.value, o.state)
            text = mirx.show(v, ex, o.state)
            pushed = any(x[0].endswith("::push") for x in o.events)
            # the shared kernel's verdict decides: Ok(ch) -> value FrozenStr(ch), no error; Err(out of range) -> error reported, no const
            res_tag = o.state.facts.get(f"{e[2]}!tag")
            if res_tag == ("eq", 0):
                key = "in range"
                ok = args_ok and not pushed and f"ConstValue::FrozenStr(sym<{e[2]}.Ok.0" in text
            elif res_tag == ("eq", 1):
                key = "kernel reports an error"
                ok = args_ok and (pushed and text.startswith("Option::None") or "unreachable" in str(o.info))
            else:
                key, ok = "verdict not examined", False
            classes[key] = classes.get(key, 0) + 1
            if not ok:
                bad.append(conj(o.pc)); why.append(f"{key}: str_char_at{e[1]} -> {text[:160]} (error reported: {pushed})")
        r = {"id": "X-const_index", "engine": "E2-X mirsmt",
             "statement": "const evaluator, string indexing: when base and index have compile-time values the shared kernel str_char_at is called on exactly "
                          "those two values (the index unchanged); its Ok(ch) becomes the const's value and its out-of-range error becomes a compile "
                          "error with no const - the same function, on the same arguments, that run-time indexing wraps",
             "bound": "Index arm of TypeChecker::eval_const_expr: every outcome of evaluating base and index and of the kernel; the recursive "
                      "evaluations and str_char_at itself are summarised (str_char_at is decided by the C05/C06 Kani harnesses)",
             "encoding": "expression as a symbolic ADT; evaluator helpers as events", "functions_encoded": [n + " (MIR)" for n in ex.encoded],
             "paths": len(outs), "compositions": classes}
        r["wall_s"] = round(time.time() - t0, 2)
        if n_fold < 2 or "in range" not in classes or "kernel reports an error" not in classes:
            r.update(status="inconclusive", reason=f"folding paths not reached ({classes}); {(why or ['-'])[0][:200]}")
            return r
        r["vacuity_ok"] = True
        for b_, w_ in zip(bad, why):
            if b_ != "false" and solver.check(mp.smt_lines(ex, [b_]), [], "z3", 60).status != "unsat":
                r["deviating_path"] = w_
                return finish_const_index(r, log_dir)
        r.update(status="held", solver=f"{n_fold} folding paths follow the documented wiring" + (f"; {len(bad)} deviating paths infeasible" if bad else " (syntactic)"))
        r["wall_s"] = round(time.time() - t0, 2)
        return r
    if pid == "C06":
        obs.append(mp.XOb("X-const_index", "", "", run_const_index))

    # ---- cycle detection: one step of the per-const state machine (C06) -------------------------------------------------------------
    def run_const_cycle():
        t0 = time.time()
        f = find_fn(P, "eval_const_by_name")
        ex = setup()
        ex.tolerate_unsupported = True
        ex.recursion_bound = 0
        ex.model_sequences = False
        ex.summarize = SUMMARIZE + [r"::eval_const_expr$", r"HashMap::<.*>::(get|insert|contains_key)(::<.*>)?$", r"Vec::<.*>::(push|pop)$", r"as (std::clone::)?Clone>::clone$",
                                    r"impl \[.*\]>::join", r"resolve_type$", r"freeze_const_annotation$", r"Display>::fmt", r"fmt::rt::Argument",
                                    r"Arguments::<.*>::new", r"must_use", r"CompileError::\w+$", r"unknown_symbol$", r"Option::<.*>::cloned$"]
        selfv = ex.sym_value("TypeChecker", "self")
        outs = ex.run(f, [selfv, symex.Opaque("name"), symex.Opaque("stack")])
        tn = [x[0] for x in R.resolve("TypeChecker").variants[0][1]]
        f_state = f"sym<{selfv.child(None, tn.index('const_eval_state')).name}:"
        f_cache = f"sym<{selfv.child(None, tn.index('const_eval_cache')).name}:"
        f_errors = f"sym<{selfv.child(None, tn.index('errors')).name}:"
        svars = mp.variants(R, "ConstEvalState")
        bad, why, classes = [], [], {}
        for o in outs:
            if o.kind != "return":
                bad.append(conj(o.pc)); why.append(f"{o.kind}: {o.info}")
                continue
            evs = o.events
            names = [e[0] for e in evs]
            cache_gets = [e for e in evs if e[0].endswith("HashMap::get") and e[1][0].startswith(f_cache)]
            state_gets = [e for e in evs if e[0].endswith("HashMap::get") and e[1][0].startswith(f_state)]
            state_ins = [(k_, e) for k_, e in enumerate(evs) if e[0].endswith("HashMap::insert") and e[1][0].startswith(f_state)]
            cache_ins = [(k_, e) for k_, e in enumerate(evs) if e[0].endswith("HashMap::insert") and e[1][0].startswith(f_cache)]
            evals = [k_ for k_, e in enumerate(evs) if e[0].endswith("eval_const_expr")]
            errs = [e for e in evs if e[0].endswith("Vec::push") and e[1][0].startswith(f_errors)]
            pushes = [k_ for k_, e in enumerate(evs) if e[0].endswith("Vec::push") and not e[1][0].startswith(f_errors)]
            pops = [k_ for k_, e in enumerate(evs) if e[0].endswith("Vec::pop")]
            v = ex.deref(o.value, o.state)
            text = mirx.show(v, ex, o.state)
            # the decisive facts of this path
            def opt(evname):
                fo = o.state.facts.get(f"{evname}!tag")
                return None if not fo or fo[0] != "eq" else fo[1]
            first_cache = cache_gets[0][2] if cache_gets else None
            cached = opt(first_cache.replace("ev", "ev")) if first_cache else None
            # the cache lookup result is cloned through a summarised call: follow it
            cl = next((e for e in evs if e[0].endswith("cloned") and first_cache and f"sym<{first_cache}:" in e[1][0]), None)
            hit = opt(cl[2]) if cl else cached
            if hit == 1:
                key = "cached"
                ok = not state_ins and not evals and not errs
            else:
                st_name = None
                if state_gets:
                    # state = get(name).copied().unwrap_or(NotStarted)
                    sg = state_gets[0][2]
                    tag = opt(sg)
                    if tag == 0:
                        st_name = "NotStarted"
                    elif tag == 1:
                        fo = o.state.facts.get(f"{sg}.Some.0!tag")
                        st_name = svars[fo[1]] if fo and fo[0] == "eq" else None
                if st_name == "InProgress":
                    key = "re-entered while in progress (cycle)"
                    ok = bool(errs) and text.startswith("Option::None") and not evals and not state_ins
                elif st_name == "Done":
                    key = "done"
                    ok = not evals and not state_ins and not errs
                elif st_name == "NotStarted":
                    if evals:
                        key = "first evaluation"
                        marks = [k_ for k_, e in state_ins]
                        ins_vals = [e[1][2] for _, e in state_ins]
                        ok = (len(state_ins) == 2 and "InProgress" in ins_vals[0] and "Done" in ins_vals[1] and marks[0] < evals[0] < marks[1]
                              and len(evals) == 1 and pushes and pushes[0] < evals[0] and pops and pops[0] > evals[0])
                        # cached iff a result exists
                        res_ev = evs[evals[0]][2]
                        got = opt(res_ev)
                        ok = ok and ((got == 1) == bool(cache_ins)) if got is not None else ok
                    else:
                        key = "unknown const"
                        ok = bool(errs) and text.startswith("Option::None") and not state_ins
                else:
                    key, ok = "state not examined", False
            classes[key] = classes.get(key, 0) + 1
            if not ok:
                bad.append(conj(o.pc)); why.append(f"{key}: events {[n.split('::')[-1] for n in names]} -> {text[:80]}")
        r = {"id": "X-const_cycle", "engine": "E2-X mirsmt",
             "statement": "one step of the const evaluator's per-name state machine: a cached const is returned; a const requested while its own evaluation is "
                          "in progress is ALWAYS reported as a dependency cycle (error, no value, no further evaluation - wherever on the stack the cycle "
                          "closes); a not-started const is marked in-progress BEFORE its initializer is evaluated, marked done after, and cached iff it has "
                          "a result - so every cycle re-enters an in-progress name and is reported instead of looping",
             "bound": "TypeChecker::eval_const_by_name with every answer of the cache / state / declaration lookups and of the initializer's evaluation "
                      "arbitrary; one inductive step (the recursion through eval_const_expr is summarised)",
             "encoding": "map lookups and the recursive evaluation as events with arbitrary results", "functions_encoded": [n + " (MIR)" for n in ex.encoded],
             "paths": len(outs), "compositions": classes}
        r["wall_s"] = round(time.time() - t0, 2)
        need = {"cached", "re-entered while in progress (cycle)", "first evaluation", "unknown const"}
        if not need <= set(classes):
            r["deviating_path"] = f"not every case was reached ({classes}); {(why or ['-'])[0][:200]}"
            return finish_const_cycle(r, log_dir)
        r["vacuity_ok"] = True
        for b_, w_ in zip(bad, why):
            if b_ != "false" and solver.check(mp.smt_lines(ex, [b_]), [], "z3", 60).status != "unsat":
                r["deviating_path"] = w_
                return finish_const_cycle(r, log_dir)
        r.update(status="held", solver=f"{len(outs)} paths follow the state machine" + (f"; {len(bad)} deviating paths infeasible" if bad else " (syntactic)"))
        return r
    if pid == "C06":
        obs.append(mp.XOb("X-const_cycle", "", "", run_const_cycle))
    if pid == "C06":
        return obs

    # ---- compound assignment ------------------------------------------------------------------------------------------
    def run_compound():
        t0 = time.time()
        f = find_fn(P, "check_statement")
        loc_v, entry = entry_after_call(f, "value_ty", r"check_expr")
        loc_var = f.debug.get("var_ty")
        loc_c = f.debug.get("compound")
        if loc_var is None or loc_c is None:
            raise Inconclusive("check_statement: locals `var_ty` / `compound` not found")
        ex = setup()
        selfv = ex.sym_value("TypeChecker", "self")
        stmt = ex.sym_value("incan_syntax::ast::Spanned<incan_syntax::ast::Statement>", "stmt")
        ctype = re.sub(r"^&\s*", "", f.locals.get(loc_c, ""))
        comp = ex.sym_value(ctype, "compound")
        var_ty = ex.sym_value("symbols::ResolvedType", "var_ty")
        val_ty = ex.sym_value("symbols::ResolvedType", "value_ty")
        outs = ex.run_slice(f, entry, {loc_v: val_ty, loc_var: var_ty, loc_c: comp}, [selfv, stmt])
        nt = num_terms(ex, var_ty, val_ty)
        td = R.resolve(ctype)
        names = [x[0] for x in td.variants[0][1]]
        cop = comp.child(None, names.index("op"))
        ct = cop.tag().term
        cvars = mp.variants(R, "incan_syntax::ast::CompoundOp")
        is_div = f"(= {ct} {cvars.index('Div')})"
        doc_float = f"(ite {is_div} true {nt['any_float']})"
        bad = []
        for o in outs:
            if o.kind != "return":
                bad.append(conj(o.pc + [nt["both"]]))
                continue
            tcs = [e for e in o.events if e[0].endswith("types_compatible")]
            pushed = any(e[0].endswith("::push") for e in o.events)
            # meaning of the checker's own compatibility test on numeric types (what the rule relies on):
            # same kind -> compatible; a float result is never compatible with an int variable
            axioms = []
            I, F = mp.idx(R, "ResolvedType", "Int"), mp.idx(R, "ResolvedType", "Float")
            vt = var_ty.tag().term
            for e in tcs:
                shown = e[1]
                if len(shown) >= 3 and "var_ty" in shown[2] and shown[1] in ("ResolvedType::Float", "ResolvedType::Int"):
                    k = F if shown[1].endswith("Float") else I
                    axioms.append(f"(=> (or (= {vt} {I}) (= {vt} {F})) (= {e[2]} (or (= {vt} {k}) (and (= {k} {I}) (= {vt} {F})))))")
            want = f"(= {'true' if pushed else 'false'} (and {nt['l_int']} {doc_float}))"
            bad.append(conj(o.pc + axioms + [nt["both"], neg(want)]))
        r = {"id": "X-compound_assign", "engine": "E2-X mirsmt (slice)",
             "statement": "type checker, `x <op>= y` with int/float x and y: the type of `x <op> y` by the documented table (/= always float; "
                          "+= -= *= //= %= float iff an operand is) decides acceptance: an error is reported exactly when x is an int variable "
                          "and the result is float - so `k: int; k /= 2` is always rejected (the checker's own types_compatible is given its "
                          "numeric meaning: same kind compatible, float into int not)",
             "bound": "rule body of the CompoundAssignment arm of check_statement from the point where the value's type is known: all "
                      "variable types x all value types (every ResolvedType variant) x all 6 compound operators",
             "encoding": "enum tags as bounded Int; checker helpers as events",
             "functions_encoded": [n + " (MIR)" for n in ex.encoded], "paths": len(outs)}
        base = os.path.join(log_dir, "X-compound_assign")
        vac, _ = mp.query(ex, [nt["both"], disj([conj(o.pc) for o in outs if o.kind == "return"])], [], base + ".vac")
        if vac.status != "sat":
            r.update(status="inconclusive", reason=f"vacuity twin {vac.status}", wall_s=round(time.time() - t0, 2))
            return r
        r["vacuity_ok"] = True
        res, res2 = mp.query(ex, [disj(bad)], mp.tag_names(ex), base)
        r["solver"] = f"z3: {res.status} in {res.wall:.2f} s" + (f"; cvc5: {res2.status} in {res2.wall:.2f} s" if res2 else "")
        r["wall_s"] = round(time.time() - t0, 2)
        if res.status == "unsat" and (res2 is None or res2.status != "sat"):
            r["status"] = "held"
            return r
        if res.status == "inconclusive":
            r.update(status="inconclusive", reason="solver: " + res.raw[:200])
            return r
        model = (res if res.status == "sat" else res2).model
        tv = lambda s: solver.value_int(model[s.tag().term]) if s.tag().term in model else 0  # noqa: E731
        opn = cvars[tv(cop)]
        vtn = mp.variants(R, "ResolvedType")[tv(var_ty)]
        wtn = mp.variants(R, "ResolvedType")[tv(val_ty)]
        r["model"] = {"op": opn, "variable": vtn, "value": wtn}
        return finish_tc(r, "compound", opn, vtn, wtn, None, log_dir)
    obs.append(mp.XOb("X-compound_assign", "", "", run_compound))


    # ---- C11: the checker's indexing / field-access arms are total (no out-of-bounds index, no overflow) ---------------------------------
    def run_access_total():
        t0 = time.time()
        results, encoded, npaths, classes = [], [], 0, {}
        for fname, ty_var in (("check_field", "base_ty"), ("check_index", "index_ty")):
            f = find_fn(P, fname)
            loc, entry = entry_after_call(f, ty_var, r"check_expr")
            ex = setup()
            ex.tolerate_unsupported = True
            ex.model_sequences = True
            ex.seq_bound = 3
            ex.recursion_bound = 0
            ex.max_steps = 3000
            ex.summarize = SUMMARIZE + [r"impl str>::parse::<.*>$", r"trait_required_field_type$", r"lookup_type_info$", r"HashMap::<.*>::(get|contains_key)(::<.*>)?$",
                                        r"Vec::<.*>::contains$", r"collection_type_id$", r"is_intlike_for_index$", r"is_frozen_str$", r"Display>::fmt",
                                        r"ToString>::to_string$", r"const_from_str$", r"PartialEq.*>::(eq|ne)$", r"as (std::clone::)?Clone>::clone$"]
            selfv = ex.sym_value("TypeChecker", "self")
            base = ex.sym_value("incan_syntax::ast::Spanned<incan_syntax::ast::Expr>", "base")
            tyv = ex.sym_value("symbols::ResolvedType", ty_var)
            preset = {loc: tyv}
            if fname == "check_field":
                args = [selfv, base, symex.Opaque("field"), symex.Opaque("span")]
            else:
                index = ex.sym_value("incan_syntax::ast::Spanned<incan_syntax::ast::Expr>", "index")
                args = [selfv, base, index, symex.Opaque("span")]
                lb = f.debug.get("base_ty")
                if lb is None:
                    raise Inconclusive("check_index: no local `base_ty` any more")
                preset[lb] = ex.sym_value("symbols::ResolvedType", "base_ty")
            outs = ex.run_slice(f, entry, preset, args)
            encoded += ex.encoded
            npaths += len(outs)
            lbad = []
            for o in outs:
                if o.kind == "unsupported":
                    lbad.append((conj(o.pc), f"{fname}: unsupported MIR: {o.info}"))
                elif o.kind != "return":
                    lbad.append((conj(o.pc), f"{fname}: {o.info}"))
                else:
                    classes[fname] = classes.get(fname, 0) + 1
            results.append((fname, ex, lbad, outs))
        r = {"id": "X-tc_access_total", "engine": "E2-X mirsmt (slice)",
             "statement": "type checker, `base[i]` and `base.field`: for every receiver type (tuples and generic collections with 0..=3 element / argument "
                          "types), every index literal / parsed positional field number and every answer of the symbol-table lookups, the rule body "
                          "returns a type - no out-of-bounds index into the element list, no arithmetic overflow, no unwrap on None",
             "bound": "TypeChecker::check_field and check_index from the point where the receiver (and index) type is known; tuple / argument lists as "
                      "symbolic sequences of 0..=3; the literal tuple index is any i64 >= 0 (lexer), the parsed field number any usize; symbol-table "
                      "lookups and diagnostics constructors are uninterpreted",
             "encoding": "types as symbolic ADTs, element lists as symbolic sequences, MIR assert terminators and modelled indexing as the panic conditions",
             "functions_encoded": sorted(set(n + " (MIR)" for n in encoded)), "paths": npaths, "compositions": classes}
        r["wall_s"] = round(time.time() - t0, 2)
        if set(classes) != {"check_field", "check_index"}:
            r.update(status="inconclusive", reason=f"no returning path for {sorted({'check_field', 'check_index'} - set(classes))}")
            return r
        r["vacuity_ok"] = True
        queries = 0
        for fname, ex, lbad, outs in results:
            live = [(b_, w_) for b_, w_ in lbad if b_ != "false"]
            if not live:
                continue
            res = solver.check(mp.smt_lines(ex, [disj([b_ for b_, _ in live])]), [], "z3", 120)
            queries += 1
            if res.status == "unsat":
                continue
            for b_, w_ in live:
                res = solver.check(mp.smt_lines(ex, [b_]), [], "z3", 60)
                queries += 1
                if res.status != "unsat":
                    r["deviating_path"] = w_
                    return finish_access_total(r, log_dir)
        r.update(status="held", solver=f"{npaths} paths, no feasible panic ({queries} z3 queries)")
        r["wall_s"] = round(time.time() - t0, 2)
        return r
    if pid == "C11":
        return [mp.XOb("X-tc_access_total", "", "", run_access_total)]

    # ---- nominal typing of user-named types (C17: distinct newtypes are never interchangeable) ----------------------------------
    def run_nominal():
        t0 = time.time()
        f = find_fn(P, "types_compatible")
        ex = setup()
        ex.summarize = [p for p in SUMMARIZE if "types_compatible" not in p] + [r"String as .*PartialEq.*>::eq$", r"^<str as .*PartialEq.*>::eq$",
                                                                               r"stringlike_type_id$", r"collection_type_id$"]
        ex.recursion_bound = 1
        ex.tolerate_unsupported = True
        selfv = ex.sym_value("TypeChecker", "self")
        a = ex.sym_value("symbols::ResolvedType", "actual")
        b = ex.sym_value("symbols::ResolvedType", "expected")
        rvars = mp.variants(R, "ResolvedType")
        NAMED = rvars.index("Named")
        plain = [n for n in ("Int", "Float", "Bool", "Str", "Bytes", "Unit", "Named") if n in rvars]
        st0 = symex.State()
        at, bt = a.tag().term, b.tag().term
        st0.facts[at] = ("eq", NAMED)
        st0.pc.append(f"(= {at} {NAMED})")
        st0.pc.append(disj([f"(= {bt} {rvars.index(n)})" for n in plain]))
        st0.facts[bt] = ("ne", set(range(len(rvars))) - {rvars.index(n) for n in plain})
        outs = ex.run(f, [selfv, a, b], state=st0)
        sl = mp.variants(R, "StringLikeId")
        bad, why, n_ret, classes = [], [], 0, {}
        for o in outs:
            if o.kind != "return":
                bad.append(conj(o.pc)); why.append(f"{o.kind}: {o.info}")
                continue
            v = ex.deref(o.value, o.state)
            if not (isinstance(v, symex.Scalar) and v.sort == "bool"):
                bad.append(conj(o.pc)); why.append("no boolean verdict")
                continue
            n_ret += 1
            fb = o.state.facts.get(bt)
            bn = rvars[fb[1]] if fb and fb[0] == "eq" else None
            classes[str(bn)] = classes.get(str(bn), 0) + 1
            # answers of the summarised helpers on this path
            same_name = None
            for e in o.events:
                if e[0].endswith("::eq") and a.child("Named", 0).name in e[1][0] and b.child("Named", 0).name in e[1][1]:
                    same_name = e[2]
            sl_ev = next((e[2] for e in o.events if e[0].endswith("stringlike_type_id") and a.child("Named", 0).name in " ".join(e[1])), None)

            def is_frozen(which):
                # `stringlike_type_id(name) == Some(which)`: the lookup is a summarised call, the comparison is structural on its result
                if sl_ev is None:
                    return "false"
                for e in o.events:       # (older shape: the comparison itself summarised)
                    if e[0].endswith("::eq") and f"sym<{sl_ev}:" in e[1][0] and which in e[1][1] and "Some" in e[1][1]:
                        return e[2]
                t1, t2 = f"{sl_ev}!tag", f"{sl_ev}.Some.0!tag"
                decl = {d.split()[1] for d in ex.enc.decls}
                for t_, hi in ((t1, 2), (t2, len(sl))):
                    if t_ not in decl:
                        ex.enc.decls.append(f"(declare-const {t_} Int)")
                        ex.enc.side.append(f"(and (<= 0 {t_}) (< {t_} {hi}))")
                return f"(and (= {t1} 1) (= {t2} {sl.index(which)}))"
            sn = same_name if (same_name is not None) else "false"
            doc = (f"(ite (= {bt} {NAMED}) {sn} (ite (= {bt} {rvars.index('Str')}) {is_frozen('FrozenStr')} "
                   f"(ite (= {bt} {rvars.index('Bytes')}) {is_frozen('FrozenBytes')} false)))")
            bad.append(conj(o.pc + [f"(not (= {v.term} {doc}))"])); why.append(f"expected {bn}: verdict {v.term}, documented {doc}")
        r = {"id": "X-newtype_nominal", "engine": "E2-X mirsmt",
             "statement": "user-named types are nominal: a value of type Named(a) is accepted where Named(b) is declared iff the names are equal, and "
                          "never where int / float / bool / str / bytes / None is declared - the only exceptions are the built-in frozen string / "
                          "bytes names, which are accepted for str / bytes; so two newtypes over the same underlying type are not interchangeable, "
                          "nor is a newtype interchangeable with its underlying type",
             "bound": "TypeChecker::types_compatible with actual = Named(any name) and expected in {Named(any name), int, float, bool, str, bytes, None}; "
                      "string equality and the built-in name lookup are arbitrary (uninterpreted) answers",
             "encoding": "enum tags as bounded Int; name equality as an uninterpreted boolean", "functions_encoded": [n + " (MIR)" for n in ex.encoded],
             "paths": len(outs), "compositions": classes}
        base = os.path.join(log_dir, "X-newtype_nominal")
        r["wall_s"] = round(time.time() - t0, 2)
        if n_ret == 0 or not {"Named", "Str", "Bytes", "None"} <= set(classes):
            r.update(status="inconclusive", reason=f"not every expected kind was reached ({classes}); {(why or ['-'])[0][:200]}")
            return r
        r["vacuity_ok"] = True
        res, res2 = mp.query(ex, [disj([x for x in bad if x != "false"])], [], base)
        r["solver"] = f"z3: {res.status} in {res.wall:.2f} s" + (f"; cvc5: {res2.status} in {res2.wall:.2f} s" if res2 else "")
        r["wall_s"] = round(time.time() - t0, 2)
        if res.status == "unsat" and (res2 is None or res2.status != "sat"):
            r["status"] = "held"
            return r
        if res.status == "inconclusive":
            r.update(status="inconclusive", reason="solver: " + res.raw[:200])
            return r
        for b_, w_ in zip(bad, why):
            if b_ != "false" and solver.check(mp.smt_lines(ex, [b_]), [], "z3", 30).status == "sat":
                r["deviating_path"] = w_
                break
        return finish_nominal(r, log_dir)
    if pid == "C17":
        return [mp.XOb("X-newtype_nominal", "", "", run_nominal)]

    # ---- the compatibility relation on payload-free types (the meaning X-compound_assign relies on) --------------------------
    SIMPLE = ["Int", "Float", "Bool", "Str", "Bytes", "FrozenStr", "FrozenBytes", "Unit", "SelfType", "Unknown"]

    def run_compat():
        t0 = time.time()
        f = find_fn(P, "types_compatible")
        ex = setup()
        ex.summarize = [p for p in SUMMARIZE if "types_compatible" not in p]
        ex.recursion_bound = 1
        selfv = ex.sym_value("TypeChecker", "self")
        a = ex.sym_value("symbols::ResolvedType", "actual")
        b = ex.sym_value("symbols::ResolvedType", "expected")
        rvars = mp.variants(R, "ResolvedType")
        missing = [n for n in SIMPLE if n not in rvars]
        if missing:
            raise Inconclusive(f"ResolvedType no longer has the variants {missing}")
        st0 = symex.State()
        allowed = {rvars.index(n) for n in SIMPLE}
        for sym in (a, b):
            t = sym.tag().term
            st0.facts[t] = ("ne", set(range(len(rvars))) - allowed)
            st0.pc.append("(or " + " ".join(f"(= {t} {k})" for k in sorted(allowed)) + ")")
        outs = ex.run(f, [selfv, a, b], state=st0)
        at, bt = a.tag().term, b.tag().term
        ix = lambda n: rvars.index(n)  # noqa: E731
        doc = (f"(or (= {at} {bt}) (= {at} {ix('Unknown')}) (= {bt} {ix('Unknown')}) "
               f"(and (= {at} {ix('FrozenStr')}) (= {bt} {ix('Str')})) (and (= {at} {ix('FrozenBytes')}) (= {bt} {ix('Bytes')})))")
        bad = []
        for o in outs:
            if o.kind != "return":
                bad.append(conj(o.pc))
                continue
            v = ex.deref(o.value, o.state)
            if isinstance(v, symex.Scalar) and v.sort == "bool":
                bad.append(conj(o.pc + [f"(not (= {v.term} {doc}))"]))
            else:
                bad.append(conj(o.pc))
        r = {"id": "X-types_compatible", "engine": "E2-X mirsmt",
             "statement": "the checker's compatibility relation on payload-free types: `actual` is accepted where `expected` is declared iff "
                          "they are the same type, either is Unknown (error recovery), or actual is the frozen form of expected "
                          "(FrozenStr -> str, FrozenBytes -> bytes); in particular float is never accepted for int nor int for float",
             "bound": f"all {len(SIMPLE)}^2 pairs of payload-free ResolvedType variants (tags symbolic)",
             "encoding": "enum tags as bounded Int", "functions_encoded": [n + " (MIR)" for n in ex.encoded], "paths": len(outs)}
        base = os.path.join(log_dir, "X-types_compatible")
        vac, _ = mp.query(ex, [disj([conj(o.pc) for o in outs if o.kind == "return"])], [], base + ".vac")
        if vac.status != "sat":
            r.update(status="inconclusive", reason=f"vacuity twin {vac.status}", wall_s=round(time.time() - t0, 2))
            return r
        r["vacuity_ok"] = True
        res, res2 = mp.query(ex, [disj(bad)], mp.tag_names(ex), base)
        r["solver"] = f"z3: {res.status} in {res.wall:.2f} s" + (f"; cvc5: {res2.status} in {res2.wall:.2f} s" if res2 else "")
        r["wall_s"] = round(time.time() - t0, 2)
        if res.status == "unsat" and (res2 is None or res2.status != "sat"):
            r["status"] = "held"
            return r
        if res.status == "inconclusive":
            r.update(status="inconclusive", reason="solver: " + res.raw[:200])
            return r
        model = (res if res.status == "sat" else res2).model
        an = rvars[solver.value_int(model[at])]
        bn = rvars[solver.value_int(model[bt])]
        r["model"] = {"actual": an, "expected": bn}
        SRC = {"Int": ("int", "1"), "Float": ("float", "1.5"), "Bool": ("bool", "true"), "Str": ("str", '"s"'), "Unit": ("None", "None")}
        if an not in SRC or bn not in SRC:
            r.update(status="inconclusive", reason=f"model {r['model']} has no surface program (only int/float/bool/str/None can be written)")
            return r
        src = f"def f() -> {SRC[bn][0]}:\n    let v: {SRC[an][0]} = {SRC[an][1]}\n    return v\n"
        exp = "ACCEPTED" if an == bn else "REJECTED"
        res_n, path = native_typecheck(src, log_dir, "compat")
        text = f"returning a {SRC[an][0]} from a function declared -> {SRC[bn][0]}: expected {exp}, checker says {res_n}"
        r["native"] = text
        if any(not line.startswith(exp) for line in res_n.values()):
            os.makedirs(os.path.join(common.REPLAYS_DIR, "MIRX"), exist_ok=True)
            rp = os.path.join(common.REPLAYS_DIR, "MIRX", "X-types_compatible.replay")
            with open(rp, "w") as fh:
                fh.write(f"mirx compat {an} {bn}\n# {r['statement']}\n# {text}\n")
            r.update(status="violated", replay=rp, counterexample={"model": r["model"], "native": text})
        else:
            r.update(status="inconclusive", reason=f"model does not reproduce through the public API: {text}")
        return r
    obs.append(mp.XOb("X-types_compatible", "", "", run_compat))
    obs.append(mp.XOb("X-lower_compound", "", "", lambda: run_lower_compound(P, R, mp, setup, log_dir)))
    if pid == "C04":
        # C04 covers "/, //, % and their compound-assignment forms": only the desugaring obligation belongs to it
        obs = [o for o in obs if o.id == "X-lower_compound"]
    return obs


def find_adt(v, ex, st, variant, depth=0):
    """First Adt with the given variant name inside a returned value (looks through Ok(..), struct fields, boxes)."""
    v = ex.deref(v, st)
    if isinstance(v, Adt):
        if v.variant == variant:
            return v
        if depth < 6:
            for f in v.fields:
                r = find_adt(f[1] if isinstance(f, tuple) else f, ex, st, variant, depth + 1)
                if r is not None:
                    return r
    return None


def adt_field(adt, name):
    for f in adt.fields:
        if isinstance(f, tuple) and f[0] == name:
            return f[1]
    return None


def run_lower_compound(P, R, mp, setup, log_dir):
    """Lowering of `x <op>= y`: desugars to `x = x <op> y` with the SAME operator, x on the left and y on the right, typed by the
    documented table."""
    t0 = time.time()
    f = find_fn(P, "lower_stmt") if any(n.endswith("::lower_stmt") for n in P.fns) else find_fn(P, "lower_statement")
    loc_ca = f.debug.get("ca")
    if loc_ca is None:
        raise Inconclusive(f"{f.name}: no local named `ca` (compound assignment arm) any more")
    entry = None
    for bn, b in f.blocks.items():
        if any(re.match(r"^" + re.escape(loc_ca) + r" = ", st_) for st_ in b.stmts):
            entry = bn
    if entry is None:
        raise Inconclusive(f"{f.name}: the block that binds `ca` was not found")
    ex = setup()
    ex.summarize = SUMMARIZE + [r"::lookup_var$", r"::lower_expr_spanned$", r"::lower_expr$"]
    selfv = ex.sym_value("AstLowering", "self")
    ctype = re.sub(r"^&\s*", "", f.locals.get(loc_ca, ""))
    stmt = ex.sym_value(f.params[1][1], "stmt")
    # the arm's binding `ca` is the payload of Statement::CompoundAssignment of the statement being lowered
    snode = stmt
    if snode.tdef is not None and snode.tdef.kind == "struct":
        snode = stmt.child(None, 0)
    ca = snode.child("CompoundAssignment", 0)
    params = [selfv, stmt] + [ex.sym_value(t, f"p{k}") for k, (_, t) in enumerate(f.params[2:])]
    st_var = mp.idx(R, "incan_syntax::ast::Statement", "CompoundAssignment")
    outs = ex.run_slice(f, entry, {}, params)
    td = R.resolve(ctype)
    names = [x[0] for x in td.variants[0][1]]
    cop = ca.child(None, names.index("op"))
    cvars = mp.variants(R, "incan_syntax::ast::CompoundOp")
    irt = mp.variants(R, "IrType")
    I, F = irt.index("Int"), irt.index("Float")
    bad = []
    shapes = []
    n_ok = 0
    for o in outs:
        if o.kind != "return":
            bad.append(conj(o.pc))
            continue
        v = ex.deref(o.value, o.state)
        if isinstance(v, Adt) and v.variant == "Err":
            continue                 # the value expression failed to lower: error propagated
        assign = find_adt(v, ex, o.state, "Assign")
        binop = find_adt(v, ex, o.state, "BinOp")
        if assign is None or binop is None:
            bad.append(conj(o.pc))
            continue
        n_ok += 1
        opv = ex.deref(adt_field(binop, "op"), o.state)
        left = ex.deref(adt_field(binop, "left"), o.state)
        right = ex.deref(adt_field(binop, "right"), o.state)
        k = op_fact(o, cop)
        cname = cvars[k] if k is not None else None
        want_op = cname     # CompoundOp and BinOp use the same names for these six operators
        ok_op = isinstance(opv, Adt) and opv.variant == want_op
        # left operand: a variable reference carrying the assigned name; right operand: the lowered value expression
        lkind = ex.deref(adt_field(left, "kind"), o.state) if isinstance(left, Adt) else None
        ok_left = isinstance(lkind, Adt) and lkind.variant == "Var" and (ca.name + ".0") in mirx.show(lkind, ex, o.state)
        ok_right = isinstance(right, symex.Sym) and right.name.startswith("ev")
        tgt = mirx.show(ex.deref(adt_field(assign, "target"), o.state), ex, o.state)
        ok_target = "Var" in tgt and (ca.name + ".0") in tgt
        shapes.append(mirx.show(binop, ex, o.state)[:160])
        if not (ok_op and ok_left and ok_right and ok_target):
            bad.append(conj(o.pc))
            continue
        # result type of the desugared expression by the documented table (lhs type = the variable's, rhs type = the value's)
        value = ex.deref(adt_field(assign, "value"), o.state)
        rty = ex.deref(adt_field(value, "ty"), o.state) if isinstance(value, Adt) else None
        lty = ex.deref(adt_field(left, "ty"), o.state)
        rhs_ty = right.child(None, [x[0] for x in R.resolve("TypedExpr").variants[0][1]].index("ty"))
        if isinstance(lty, symex.Sym):
            lt, rt = lty.tag().term, rhs_ty.tag().term
            both = f"(and (or (= {lt} {I}) (= {lt} {F})) (or (= {rt} {I}) (= {rt} {F})))"
            docf = f"(or (= {cop.tag().term} {cvars.index('Div')}) (= {lt} {F}) (= {rt} {F}))"
            if isinstance(rty, Adt) and rty.variant == "Float":
                bad.append(conj(o.pc + [both, neg(docf)]))
            elif isinstance(rty, Adt) and rty.variant == "Int":
                bad.append(conj(o.pc + [both, docf]))
            else:
                bad.append(conj(o.pc + [both]))
    r = {"id": "X-lower_compound", "engine": "E2-X mirsmt (slice)",
         "statement": "lowering, `x <op>= y`: the statement becomes `x = x <op> y` with the same operator, the variable on the left and the "
                      "value on the right (so `x //= y` is x // y, never y // x), assigned back to x, and the expression is typed by the "
                      "documented table for int/float operands",
         "bound": "CompoundAssignment arm of lower_stmt from the variable lookup on: all 6 compound operators x all IrType variants of the "
                  "variable and of the value; lookup_var / lower_expr_spanned summarised by arbitrary results",
         "encoding": "enum tags as bounded Int", "functions_encoded": [n + " (MIR)" for n in ex.encoded], "paths": len(outs),
         "shapes": shapes[:3]}
    base = os.path.join(log_dir, "X-lower_compound")
    if n_ok == 0:
        r.update(status="inconclusive", reason="no path produced an Assign statement (vacuous)", wall_s=round(time.time() - t0, 2))
        return r
    r["vacuity_ok"] = True
    bad = [b for b in bad if b != "false"]
    if not bad:
        r.update(status="held", solver="no path can differ (syntactic)", wall_s=round(time.time() - t0, 2))
        return r
    res, res2 = mp.query(ex, [disj(bad)], mp.tag_names(ex), base)
    r["solver"] = f"z3: {res.status} in {res.wall:.2f} s" + (f"; cvc5: {res2.status} in {res2.wall:.2f} s" if res2 else "")
    r["wall_s"] = round(time.time() - t0, 2)
    if res.status == "unsat" and (res2 is None or res2.status != "sat"):
        r["status"] = "held"
        return r
    if res.status == "inconclusive":
        r.update(status="inconclusive", reason="solver: " + res.raw[:200])
        return r
    model = (res if res.status == "sat" else res2).model
    k = solver.value_int(model[cop.tag().term]) if cop.tag().term in model else 0
    opn = cvars[k]
    r["model"] = {"op": opn}
    # native: run a program whose result depends on operand order and operator
    return finish_lower_compound(r, opn, log_dir)


def op_fact(o, sym):
    f = o.state.facts.get(sym.tag().term)
    return f[1] if f and f[0] == "eq" else None


def finish_lower_compound(r, opn, log_dir):
    import kani
    sym = {"Add": "+=", "Sub": "-=", "Mul": "*=", "Div": "/=", "FloorDiv": "//=", "Mod": "%="}[opn]
    rust = {"Add": r"k \+ w", "Sub": r"k - w", "Mul": r"k \* w", "Div": r"py_div\(\s*k\b.*,\s*\(?w", "FloorDiv": r"py_floor_div\w*\(\s*k\b.*,\s*w",
            "Mod": r"py_mod\w*\(\s*k\b.*,\s*w"}[opn]
    vt = "float" if opn == "Div" else "int"
    src = f"def f(v: {vt}, w: int) -> None:\n    mut k: {vt} = v\n    k {sym} w\n"
    path = os.path.join(log_dir, "lower_compound_replay.incn")
    os.makedirs(log_dir, exist_ok=True)
    with open(path, "w") as fh:
        fh.write(src)
    texts, broken = [], False
    for prof in ("dev", "release"):
        binp = kani.build_replay(prof, True, log_dir)
        rc, out, _, to = common.run([binp, "emitrust", path], timeout=60)
        m = re.search(r"^\s*k = (.*?);", out, re.S | re.M)
        if not m:
            texts.append(f"[{prof}] no assignment to k in the generated code: {out.strip()[-160:]}")
            broken = broken or "RUST-BEGIN" in out or "CODEGEN-ERROR" in out
            continue
        ok = re.search(rust, m.group(1)) is not None
        broken = broken or not ok
        texts.append(f"[{prof}] `k {sym} w` generated `k = {m.group(1).strip()}`")
    text = "; ".join(texts)
    r["native"] = text
    if broken:
        os.makedirs(os.path.join(common.REPLAYS_DIR, "MIRX"), exist_ok=True)
        rp = os.path.join(common.REPLAYS_DIR, "MIRX", "X-lower_compound.replay")
        with open(rp, "w") as fh:
            fh.write(f"mirx lowercompound {opn}\n# {r['statement']}\n# {text}\n")
        r.update(status="violated", replay=rp, counterexample={"model": r["model"], "native": text})
    else:
        r.update(status="inconclusive", reason=f"model {r['model']} does not reproduce through the real pipeline: {text}")
    return r


def expr_shape(R, mp, spanned, model, depth):
    """Concrete surface text of the exponent expression chosen by the model: literal forms (n, -n, parenthesised), and nested
    unary / parenthesised shapes around them (`- -3`, `-(-3)`), which are NOT literal forms; None = some other expression."""
    def tv(s):
        return solver.value_int(model[s.tag().term]) if s.tag().term in model else 0

    def known(s):
        return s._tag is not None and s.tag().term in model
    node = spanned.child(None, 0)
    if not known(node):
        return None
    en = mp.variants(R, "incan_syntax::ast::Expr")[tv(node)]
    if en == "Literal":
        lit = node.child("Literal", 0)
        if mp.variants(R, "incan_syntax::ast::Literal")[tv(lit)] == "Int":
            n = lit.child("Int", 0).term
            return str(solver.value_int(model[n])) if n in model else "0"
        return None
    if en == "Unary" and depth >= 0:
        uop = node.child("Unary", 0)
        if mp.variants(R, "incan_syntax::ast::UnaryOp")[tv(uop)] != "Neg":
            return None
        s = expr_shape(R, mp, node.child("Unary", 1), model, depth - 1)
        if s is None:
            return None
        return "-" + s if not s.startswith("-") else "- " + s
    if en == "Paren" and depth > 0:
        s = expr_shape(R, mp, node.child("Paren", 0), model, depth - 1)
        return f"({s})" if s is not None else None
    return None


TY = {"Int": "int", "Float": "float"}


def doc_binary(opn, ltn, rtn, shape):
    anyf = "Float" in (ltn, rtn)
    if opn in CMP or opn in ("And", "Or"):
        return "bool"
    if opn == "Div":
        return "float"
    if opn == "Pow":
        lit = None
        if shape is not None:
            try:
                lit = int(shape.replace("(", "").replace(")", "")) if re.fullmatch(r"\(*-?\d+\)*", shape) else None
            except ValueError:
                lit = None
        return "int" if (not anyf and lit is not None and lit >= 0) else "float"
    return "float" if anyf else "int"


def native_typecheck(src, log_dir, tag):
    import kani
    path = os.path.join(log_dir, f"replay_{tag}.incn")
    with open(path, "w") as f:
        f.write(src)
    res = {}
    for prof in ("dev", "release"):
        binp = kani.build_replay(prof, True, log_dir)
        rc, out, _, to = common.run([binp, "typecheck", path], timeout=60)
        res[prof] = out.strip().splitlines()[-1] if out.strip() else f"<no output rc={rc}>"
    return res, path


def programs(kind, opn, a, b, shape):
    """[(source, expected 'ACCEPTED' | 'REJECTED', why)] for a concrete rule instance; None if it cannot be written as a program."""
    if a not in TY or b not in TY:
        return None
    if kind == "binary":
        if opn not in OPSYM:
            return None
        rhs = shape if (shape is not None and b == "Int") else "b"
        doc = doc_binary(opn, a, b, shape if rhs != "b" else None)
        body = f"a {OPSYM[opn]} {rhs}"
        out = [(f"def f(a: {TY[a]}, b: {TY[b]}) -> {doc}:\n    return {body}\n", "ACCEPTED", f"`{body}` has documented type {doc}")]
        if doc == "float":
            out.append((f"def f(a: {TY[a]}, b: {TY[b]}) -> int:\n    return {body}\n", "REJECTED", f"`{body}` is float, never int"))
        if doc == "int":
            out.append((f"def f(a: {TY[a]}, b: {TY[b]}) -> str:\n    return {body}\n", "REJECTED", f"`{body}` is int, not str"))
        return out
    if kind == "const":
        if opn not in OPSYM:
            return None
        LIT = {"Int": "7", "Float": "7.5"}
        rhs = shape if (shape is not None and b == "Int") else ("2" if b == "Int" else "2.5")
        doc = doc_binary(opn, a, b, rhs if b == "Int" else None)
        body = f"{LIT[a]} {OPSYM[opn]} {rhs}"
        out = [(f"const C: {doc} = {body}\n", "ACCEPTED", f"`{body}` has documented type {doc}")]
        if doc in ("float", "int"):
            other = "int" if doc == "float" else "str"
            out.append((f"const C: {other} = {body}\n", "REJECTED", f"`{body}` is {doc}, not {other}"))
        return out
    sym = {"Add": "+=", "Sub": "-=", "Mul": "*=", "Div": "/=", "FloorDiv": "//=", "Mod": "%="}[opn]
    docf = opn == "Div" or "Float" in (a, b)
    exp = "REJECTED" if (a == "Int" and docf) else "ACCEPTED"
    return [(f"def f(v: {TY[a]}, w: {TY[b]}) -> None:\n    mut k: {TY[a]} = v\n    k {sym} w\n", exp,
             f"`k {sym} w` computes {'float' if docf else 'int'} for k: {TY[a]}")]


def check_programs(kind, opn, a, b, shape, log_dir):
    progs = programs(kind, opn, a, b, shape)
    if progs is None:
        return None, "the model uses non-numeric types or an operator without surface syntax; no program to run", None
    bad = False
    texts = []
    first = None
    for k, (src, exp, why) in enumerate(progs):
        res, path = native_typecheck(src, log_dir, f"{kind}_{k}")
        first = first or path
        for prof, line in res.items():
            ok = line.startswith(exp)
            bad = bad or not ok
            texts.append(f"[{prof}] {src.strip().splitlines()[-1].strip()} ({why}): expected {exp}, checker says {line[:120]}")
    return bad, " ;; ".join(texts), first


def finish_tc(r, kind, opn, a, b, shape, log_dir):
    bad, text, path = check_programs(kind, opn, a, b, shape, log_dir)
    r["native"] = text
    if bad is True:
        os.makedirs(os.path.join(common.REPLAYS_DIR, "MIRX"), exist_ok=True)
        rp = os.path.join(common.REPLAYS_DIR, "MIRX", r["id"] + ".replay")
        with open(rp, "w") as fh:
            fh.write(f"mirx tc {kind} {opn} {a} {b} {shape if shape is not None else '-'}\n# {r['statement']}\n# {text}\n")
        r.update(status="violated", replay=rp, counterexample={"model": r.get("model"), "native": text})
    else:
        r.update(status="inconclusive", reason=f"model {r.get('model')} does not reproduce through the public type-check API: {text}")
    return r


NOMINAL_PROGRAMS = [
    ("same", "type UserId = newtype int\n\ndef f(u: UserId) -> UserId:\n    return u\n", "ACCEPTED"),
    ("other_newtype", "type UserId = newtype int\ntype OrderId = newtype int\n\ndef f(u: UserId) -> OrderId:\n    return u\n", "REJECTED"),
    ("as_underlying", "type UserId = newtype int\n\ndef f(u: UserId) -> int:\n    return u\n", "REJECTED"),
    ("as_str", "type Name = newtype str\n\ndef f(u: Name) -> str:\n    return u\n", "REJECTED"),
    ("model_vs_model", "model A:\n    x: int\n\nmodel B:\n    x: int\n\ndef f(a: A) -> B:\n    return a\n", "REJECTED"),
]


def finish_nominal(r, log_dir):
    texts, broken = [], False
    for name, src, exp in NOMINAL_PROGRAMS:
        res, _ = native_typecheck(src, log_dir, "nominal_" + name)
        for prof, line in res.items():
            if not line.startswith(exp):
                broken = True
                texts.append(f"[{prof}] {name}: expected {exp}, checker says {line[:120]}")
    text = "; ".join(texts) or f"{len(NOMINAL_PROGRAMS)} newtype / model mixing programs are accepted / rejected as documented"
    r["native"] = text
    if broken:
        os.makedirs(os.path.join(common.REPLAYS_DIR, "MIRX"), exist_ok=True)
        rp = os.path.join(common.REPLAYS_DIR, "MIRX", r["id"] + ".replay")
        with open(rp, "w") as fh:
            fh.write(f"mirx nominal\n# {r['statement']}\n# {r.get('deviating_path')}\n# {text}\n")
        r.update(status="violated", replay=rp, counterexample={"path": r.get("deviating_path"), "native": text})
    else:
        r.update(status="inconclusive", reason=f"a feasible path deviates ({r.get('deviating_path')}) but {text}")
    return r


ACCESS_PROGRAMS = ["def f() -> int:\n    t = ()\n    return t.0\n", "def f() -> int:\n    return ().0\n", "def f() -> int:\n    t = (1, 2)\n    return t.2\n",
                   "def f() -> int:\n    t = (1, 2)\n    return t.1\n", "def f() -> int:\n    t = (1, 2)\n    return t[2]\n", "def f() -> int:\n    t = (1, 2)\n    return t[1]\n",
                   "def f() -> int:\n    t = ()\n    return t[0]\n", "def f(t: Tuple[int, str]) -> int:\n    return t[5]\n", "def f(t: Tuple) -> int:\n    return t[0]\n",
                   "def f(x: List) -> int:\n    return x[0]\n", "def f(x: Dict[str]) -> int:\n    return x[0]\n", "def f(t: Tuple[int, str]) -> int:\n    return t.7\n",
                   "def f() -> int:\n    t = (1,)\n    return t.18446744073709551615\n", "def f() -> int:\n    t = (1, 2)\n    return t[9223372036854775807]\n"]


def finish_access_total(r, log_dir):
    texts, broken = [], False
    for k, src in enumerate(ACCESS_PROGRAMS):
        res, _ = native_typecheck(src, log_dir, f"access_{k}")
        for prof, line in res.items():
            if line.startswith("PANIC") or not line.startswith(("ACCEPTED", "REJECTED", "PARSE-ERROR", "LEX-ERROR")):
                broken = True
                texts.append(f"[{prof}] type-checking `{src.strip().splitlines()[-1].strip()}` (program {k}) panics: {line[:100]}")
    text = "; ".join(texts[:4]) or f"{len(ACCESS_PROGRAMS)} tuple / collection access programs (empty tuples, out-of-range and huge indexes, bare generic names) are checked without a panic"
    r["native"] = text
    if broken:
        os.makedirs(os.path.join(common.REPLAYS_DIR, "MIRX"), exist_ok=True)
        rp = os.path.join(common.REPLAYS_DIR, "MIRX", r["id"] + ".replay")
        with open(rp, "w") as fh:
            fh.write(f"mirx accesstotal\n# {r['statement']}\n# {r.get('deviating_path')}\n# {text}\n")
        r.update(status="violated", replay=rp, counterexample={"path": r.get("deviating_path"), "native": text})
    else:
        r.update(status="inconclusive", reason=f"a feasible path panics ({r.get('deviating_path')}) but {text}")
    return r


CYCLE_PROGRAMS = [
    ("self", "const A: int = A + 1\n", "REJECTED"),
    ("pair", "const A: int = B + 1\nconst B: int = A + 1\n", "REJECTED"),
    ("tail_into_cycle", "const T: int = R * 2\nconst R: int = B + 1\nconst B: int = R + 1\n", "REJECTED"),
    ("cycle_then_user", "const R: int = B + 1\nconst B: int = R + 1\nconst T: int = R * 2\n", "REJECTED"),
    ("three", "const A: int = B + 1\nconst B: int = C + 1\nconst C: int = A + 1\n", "REJECTED"),
    ("chain_ok", "const A: int = B + 1\nconst B: int = C + 1\nconst C: int = 5\n", "ACCEPTED"),
    ("diamond_ok", "const A: int = B + C\nconst B: int = D + 1\nconst C: int = D + 2\nconst D: int = 5\n", "ACCEPTED"),
]


def finish_const_cycle(r, log_dir):
    texts, broken = [], False
    for name, src, exp in CYCLE_PROGRAMS:
        res, _ = native_typecheck(src, log_dir, "cycle_" + name)
        for prof, line in res.items():
            okl = line.startswith(exp) and (exp == "ACCEPTED" or "cycle" in line.lower())
            if not okl:
                broken = True
                texts.append(f"[{prof}] {name}: expected {exp}{' with a cycle diagnostic' if exp == 'REJECTED' else ''}, checker says {line[:140]}")
    text = "; ".join(texts) or f"{len(CYCLE_PROGRAMS)} const dependency graphs (cycles closing on and off the first const, chains, diamonds) are reported / accepted as documented"
    r["native"] = text
    if broken:
        os.makedirs(os.path.join(common.REPLAYS_DIR, "MIRX"), exist_ok=True)
        rp = os.path.join(common.REPLAYS_DIR, "MIRX", r["id"] + ".replay")
        with open(rp, "w") as fh:
            fh.write(f"mirx constcycle\n# {r['statement']}\n# {r.get('deviating_path')}\n# {text}\n")
        r.update(status="violated", replay=rp, counterexample={"path": r.get("deviating_path"), "native": text})
    else:
        r.update(status="inconclusive", reason=f"a feasible path deviates ({r.get('deviating_path')}) but {text}")
    return r


CONST_INDEXES = [("S[0]", 'FrozenStr("h")'), ("S[4]", 'FrozenStr("o")'), ("S[-1]", 'FrozenStr("o")'), ("S[-5]", 'FrozenStr("h")'), ("S[5]", "ERR"),
                 ("S[-6]", "ERR"), ("S[-10]", "ERR"), ("S[99]", "ERR")]


def const_index_native(log_dir):
    import kani
    os.makedirs(log_dir, exist_ok=True)
    texts, broken = [], False
    for prof in ("dev", "release"):
        binp = kani.build_replay(prof, True, log_dir)
        for k, (e, want) in enumerate(CONST_INDEXES):
            path = os.path.join(log_dir, f"const_index_{k}.incn")
            with open(path, "w") as fh:
                fh.write(f'const S: FrozenStr = "hello"\nconst K: FrozenStr = {e}\n')
            rc, out, _, to = common.run([binp, "constval", path, "K"], timeout=60)
            m = re.search(r"^CONST K (.*)$", out, re.M)
            got = m.group(1) if m else ("ERR" if "REJECTED" in out and "index out of range" in out else out.strip()[-100:])
            if got != want:
                broken = True
                texts.append(f"[{prof}] const = {e}: compile time gives {got}, run time gives {want if want != 'ERR' else 'IndexError'}")
    return broken, "; ".join(texts) or f"{len(CONST_INDEXES)} const string indexes agree with run-time indexing (value or IndexError)"


def finish_const_index(r, log_dir):
    broken, text = const_index_native(log_dir)
    r["native"] = text
    if broken:
        os.makedirs(os.path.join(common.REPLAYS_DIR, "MIRX"), exist_ok=True)
        rp = os.path.join(common.REPLAYS_DIR, "MIRX", r["id"] + ".replay")
        with open(rp, "w") as fh:
            fh.write(f"mirx constindex\n# {r['statement']}\n# {r.get('deviating_path')}\n# {text}\n")
        r.update(status="violated", replay=rp, counterexample={"path": r.get("deviating_path"), "native": text})
    else:
        r.update(status="inconclusive", reason=f"a feasible path deviates ({r.get('deviating_path')}) but {text}")
    return r


CONST_SLICES = [("S[2:]", 'FrozenStr("llo")'), ("S[1+1:]", 'FrozenStr("llo")'), ("S[:1+1]", 'FrozenStr("he")'), ("S[::1+1]", 'FrozenStr("hlo")'),
                ("S[N:]", 'FrozenStr("llo")'), ("S[1:4]", 'FrozenStr("ell")'), ("S[0+1:2+2]", 'FrozenStr("ell")'), ("S[::-1]", 'FrozenStr("olleh")')]


def const_slices_native(log_dir):
    """-> (kind, text): kind 'ok' | 'known' (only the recorded class: a written bound of unknown value folded as omitted) | 'other'"""
    import kani
    os.makedirs(log_dir, exist_ok=True)
    path = os.path.join(log_dir, "const_slices.incn")
    with open(path, "w") as fh:
        fh.write('const S: FrozenStr = "hello"\nconst N: int = 2\n')
        for k, (e, _) in enumerate(CONST_SLICES):
            fh.write(f"const K{k}: FrozenStr = {e}\n")
    texts, kinds = [], set()
    for prof in ("dev", "release"):
        binp = kani.build_replay(prof, True, log_dir)
        rc, out, _, to = common.run([binp, "constval", path] + [f"K{k}" for k in range(len(CONST_SLICES))], timeout=60)
        got = dict(re.findall(r"^CONST (K\d+) (.*)$", out, re.M))
        if not got:
            kinds.add("other")
            texts.append(f"[{prof}] the const program is not accepted: {out.strip()[-200:]}")
            continue
        for k, (e, want) in enumerate(CONST_SLICES):
            g = got.get(f"K{k}")
            if g == want or g == "-":
                continue          # the run-time value, or no recorded value at all
            computed = "+" in e
            kinds.add("known" if computed else "other")
            texts.append(f"[{prof}] const = {e} records {g}; evaluating the same expression at run time gives {want}")
    kind = "ok" if not kinds else "other" if "other" in kinds else "known"
    return kind, "; ".join(texts) or f"{len(CONST_SLICES)} const slices record their run-time value (or none)"


def finish_const_slice(r, log_dir):
    kind, text = const_slices_native(log_dir)
    r["native"] = text
    kf = [k for k in common.load_known_findings().get("findings", []) if k.get("property") == "C06" and k.get("obligation") == "X-const_slice"]
    if kind == "known" and kf:
        r.update(status="known-finding", finding=f"obligation=X-const_slice {kf[0].get('summary', '')} ({text[:300]})")
        return r
    if kind != "ok":
        os.makedirs(os.path.join(common.REPLAYS_DIR, "MIRX"), exist_ok=True)
        rp = os.path.join(common.REPLAYS_DIR, "MIRX", r["id"] + ".replay")
        with open(rp, "w") as fh:
            fh.write(f"mirx constslice\n# {r['statement']}\n# {r.get('deviating_path')}\n# {text}\n")
        r.update(status="violated", replay=rp, counterexample={"path": r.get("deviating_path"), "native": text})
    else:
        r.update(status="inconclusive", reason=f"a feasible path deviates ({r.get('deviating_path')}) but {text}")
    return r


CONST_VALUES = [("True and False", "Bool(false)"), ("True and True", "Bool(true)"), ("False and True", "Bool(false)"), ("True or False", "Bool(true)"),
                ("False or False", "Bool(false)"), ("False or True", "Bool(true)"), ('"ell" in "hello"', "Bool(true)"), ('"hello" in "ell"', "Bool(false)"),
                ('"xyz" not in "hello"', "Bool(true)"), ('"ell" not in "hello"', "Bool(false)"), ('"ab" + "cd"', 'FrozenStr("abcd")'),
                ('"cd" + "ab"', 'FrozenStr("cdab")')]


def const_values_native(log_dir):
    """Compile-time folding observed through the public API (TypeCheckInfo::const_value) against what the same expression is at run time."""
    import kani
    os.makedirs(log_dir, exist_ok=True)
    path = os.path.join(log_dir, "const_values.incn")
    with open(path, "w") as fh:
        for k, (e, _) in enumerate(CONST_VALUES):
            cty = "FrozenStr" if " + " in e else "bool"
            fh.write(f"const K{k}: {cty} = {e}\n")
    texts, broken = [], False
    for prof in ("dev", "release"):
        binp = kani.build_replay(prof, True, log_dir)
        rc, out, _, to = common.run([binp, "constval", path] + [f"K{k}" for k in range(len(CONST_VALUES))], timeout=60)
        got = dict(re.findall(r"^CONST (K\d+) (.*)$", out, re.M))
        if not got:
            texts.append(f"[{prof}] the const program is not accepted: {out.strip()[-200:]}")
            broken = True
            continue
        for k, (e, want) in enumerate(CONST_VALUES):
            if got.get(f"K{k}") != want:
                broken = True
                texts.append(f"[{prof}] const = {e} folds to {got.get(f'K{k}')}, at run time it is {want}")
    return broken, "; ".join(texts) or f"{len(CONST_VALUES)} const initialisers fold to their run-time values"


def finish_const_values(r, log_dir):
    broken, text = const_values_native(log_dir)
    r["native"] = text
    if broken:
        os.makedirs(os.path.join(common.REPLAYS_DIR, "MIRX"), exist_ok=True)
        rp = os.path.join(common.REPLAYS_DIR, "MIRX", r["id"] + ".replay")
        with open(rp, "w") as fh:
            fh.write(f"mirx constvalues\n# {r['statement']}\n# {r.get('deviating_path')}\n# {text}\n")
        r.update(status="violated", replay=rp, counterexample={"model": r.get("model"), "path": r.get("deviating_path"), "native": text})
    else:
        r.update(status="inconclusive", reason=f"model {r.get('model')} ({r.get('deviating_path')}) but {text}")
    return r


def replay_tc(pid, line):
    log_dir = os.path.join(common.WORK_DIR, pid, "replay")
    os.makedirs(log_dir, exist_ok=True)
    if line[1] == "compat":
        SRC = {"Int": ("int", "1"), "Float": ("float", "1.5"), "Bool": ("bool", "true"), "Str": ("str", '"s"'), "Unit": ("None", "None")}
        an, bn = line[2], line[3]
        src = f"def f() -> {SRC[bn][0]}:\n    let v: {SRC[an][0]} = {SRC[an][1]}\n    return v\n"
        exp = "ACCEPTED" if an == bn else "REJECTED"
        res_n, _ = native_typecheck(src, log_dir, "compat")
        say(f"expected {exp}; checker says {res_n}")
        return any(not l.startswith(exp) for l in res_n.values())
    if line[1] == "constvalues":
        bad, text = const_values_native(log_dir)
        say(text)
        return bad
    if line[1] == "accesstotal":
        r = finish_access_total({"id": "replay", "statement": ""}, log_dir)
        say(r.get("native", ""))
        return r.get("status") == "violated"
    if line[1] == "constcycle":
        r = finish_const_cycle({"id": "replay", "statement": ""}, log_dir)
        say(r.get("native", ""))
        return r.get("status") == "violated"
    if line[1] == "constindex":
        bad, text = const_index_native(log_dir)
        say(text)
        return bad
    if line[1] == "constslice":
        kind, text = const_slices_native(log_dir)
        say(text)
        return kind != "ok"
    if line[1] == "nominal":
        r = finish_nominal({"id": "replay", "statement": ""}, log_dir)
        say(r.get("native", ""))
        return r.get("status") == "violated"
    kind, opn, a, b, shape = line[2], line[3], line[4], line[5], (None if line[6] == "-" else line[6])
    bad, text, _ = check_programs(kind, opn, a, b, shape, log_dir)
    say(text)
    return bad
