"""E2-X slices of the type checker (C07): the rule bodies of `check_binary` and of the compound-assignment arm of
`check_statement` are executed symbolically from the point where the operand types are known (the recursive
`check_expr` calls before that point are summarised by ARBITRARY operand types), with the checker's own helpers
(`types_compatible`, error constructors, `errors.push`) recorded as events."""
import os
import re
import time

import common
from common import Inconclusive, say
import mir
import mirx
import solver
import symex
from symex import Adt, Sym, conj, disj, neg

AST_OP = "incan_syntax::ast::BinaryOp"
ARITH = ["Add", "Sub", "Mul", "Div", "FloorDiv", "Mod", "Pow"]
CMP = ["Eq", "NotEq", "Lt", "Gt", "LtEq", "GtEq"]
OPSYM = {"Add": "+", "Sub": "-", "Mul": "*", "Div": "/", "FloorDiv": "//", "Mod": "%", "Pow": "**", "Eq": "==", "NotEq": "!=",
         "Lt": "<", "Gt": ">", "LtEq": "<=", "GtEq": ">=", "And": "and", "Or": "or"}
SUMMARIZE = [r"lang::\w+(::\w+)*::from_str$", r"_type_id$", r"::as_str$", r"String as .*Deref>::deref$", r"ToString>::to_string$",
             r"fmt::format", r"^format$", r"::types_compatible$", r"^(errors::)?\w*mismatch\w*$", r"^errors::\w+$", r"Vec::<.*>::push$",
             r"^unknown_symbol$", r"^mutation_without_mut$"]


def find_fn(P, suffix):
    c = [f for n, f in P.fns.items() if n.endswith("::" + suffix) and "{closure" not in n]
    if len(c) != 1:
        raise Inconclusive(f"function `{suffix}` not found (or ambiguous) in the MIR dump")
    return c[0]


def entry_after_call(f, var_name, callee_pat):
    """The block a call matching `callee_pat` returns to when its result is the source variable `var_name`."""
    loc = f.debug.get(var_name)
    if loc is None:
        raise Inconclusive(f"{f.name}: no local named `{var_name}` any more")
    for b in f.blocks.values():
        m = re.match(r"^" + re.escape(loc) + r" = .*" + callee_pat + r"\(.*\) -> \[return: (bb\d+)", b.term or "")
        if m:
            return loc, m.group(1)
    raise Inconclusive(f"{f.name}: `{var_name}` is no longer the result of a {callee_pat} call")


class LitModel:
    """Documented classification of an exponent expression on the surface syntax (n, -n, parenthesised up to `depth`)."""

    def __init__(self, ex, R, mp, expr_sym, depth):
        self.ex, self.R, self.mp = ex, R, mp
        self.lits = []
        self.nonneg = self._build(expr_sym, depth)

    def _lit_int(self, node, variant):
        """formula 'node is Literal(Int n)' and the term n, for an Expr sym `node`"""
        R, mp = self.R, self.mp
        lit = node.child(variant, 0) if variant else node
        return lit

    def _build(self, spanned, depth):
        R, mp = self.R, self.mp
        ix = lambda ty, n: mp.idx(R, ty, n)  # noqa: E731
        node = spanned.child(None, 0)
        nt = node.tag().term
        lit = node.child("Literal", 0)
        n = lit.child("Int", 0)
        self.lits.append(n.term)
        is_lit = f"(and (= {nt} {ix('incan_syntax::ast::Expr', 'Literal')}) (= {lit.tag().term} {ix('incan_syntax::ast::Literal', 'Int')}))"
        uop = node.child("Unary", 0)
        inner = node.child("Unary", 1).child(None, 0)
        ilit = inner.child("Literal", 0)
        m = ilit.child("Int", 0)
        self.lits.append(m.term)
        is_neg = (f"(and (= {nt} {ix('incan_syntax::ast::Expr', 'Unary')}) (= {uop.tag().term} {ix('incan_syntax::ast::UnaryOp', 'Neg')}) "
                  f"(= {inner.tag().term} {ix('incan_syntax::ast::Expr', 'Literal')}) (= {ilit.tag().term} {ix('incan_syntax::ast::Literal', 'Int')}))")
        f = f"(or (and {is_lit} (>= {n.term} 0)) (and {is_neg} (>= (- {m.term}) 0))"
        if depth > 0:
            is_paren = f"(= {nt} {ix('incan_syntax::ast::Expr', 'Paren')})"
            f += f" (and {is_paren} {self._build(node.child('Paren', 0), depth - 1)})"
        return f + ")"


def build(pid, P, R, tier, log_dir):
    import mirx_props as mp
    obs = []
    if pid != "C07":
        return obs
    PAREN_DEPTH = 2

    def setup():
        ex = mirx.make_executor(P, R)
        ex.opaque_calls = mirx.slice_opaque
        ex.recursion_bound = PAREN_DEPTH
        ex.summarize = SUMMARIZE
        return ex

    def num_terms(ex, lty, rty):
        I, F = mp.idx(R, "ResolvedType", "Int"), mp.idx(R, "ResolvedType", "Float")
        lt, rt = lty.tag().term, rty.tag().term
        return {"l_int": f"(= {lt} {I})", "l_float": f"(= {lt} {F})", "r_int": f"(= {rt} {I})", "r_float": f"(= {rt} {F})",
                "both": f"(and (or (= {lt} {I}) (= {lt} {F})) (or (= {rt} {I}) (= {rt} {F})))", "any_float": f"(or (= {lt} {F}) (= {rt} {F}))"}

    # ---- check_binary --------------------------------------------------------------------------------------------
    def run_check_binary():
        t0 = time.time()
        f = find_fn(P, "check_binary")
        loc_r, entry = entry_after_call(f, "right_ty", r"check_expr")
        loc_l = f.debug.get("left_ty")
        ex = setup()
        selfv = ex.sym_value("TypeChecker", "self")
        left = ex.sym_value("incan_syntax::ast::Spanned<incan_syntax::ast::Expr>", "left")
        op = ex.sym_value(AST_OP, "op")
        right = ex.sym_value("incan_syntax::ast::Spanned<incan_syntax::ast::Expr>", "right")
        lty = ex.sym_value("symbols::ResolvedType", "lty")
        rty = ex.sym_value("symbols::ResolvedType", "rty")
        lm = LitModel(ex, R, mp, right, PAREN_DEPTH)
        for t in lm.lits:
            ex.enc.side.append(f"(>= {t} 0)")     # the lexer only produces literals in 0..=i64::MAX
        outs = ex.run_slice(f, entry, {loc_l: lty, loc_r: rty}, [selfv, left, op, right, symex.Opaque("span")])
        nt = num_terms(ex, lty, rty)
        ot = op.tag().term
        op_is = lambda n: f"(= {ot} {mp.idx(R, AST_OP, n)})"  # noqa: E731
        arith = disj([op_is(n) for n in ARITH])
        cmpf = disj([op_is(n) for n in CMP])
        logic = disj([op_is(n) for n in ("And", "Or")])
        doc_float = (f"(ite {op_is('Div')} true (ite {op_is('Pow')} (not (and (not {nt['any_float']}) {lm.nonneg})) {nt['any_float']}))")
        bad = []
        for o in outs:
            if o.kind != "return":
                bad.append(conj(o.pc + [nt["both"]]))     # no panic on numeric operands
                continue
            err = any(e[0].endswith("::push") for e in o.events)
            v = ex.deref(o.value, o.state)
            vn = v.variant if isinstance(v, Adt) else None
            want_arith = "false"
            if not err and vn == "Float":
                want_arith = doc_float
            elif not err and vn == "Int":
                want_arith = neg(doc_float)
            want_bool = "true" if (vn == "Bool" and not err) else "false"
            want = (f"(and (=> (and {arith} {nt['both']}) {want_arith}) (=> (and {cmpf} {nt['both']}) {want_bool}) "
                    f"(=> {logic} {'true' if vn == 'Bool' else 'false'}))")
            bad.append(conj(o.pc + [neg(want)]))
        r = {"id": "X-check_binary", "engine": "E2-X mirsmt (slice)",
             "statement": "type checker, binary expressions: for int/float operand types the static type is the documented one (/ float; "
                          "+ - * // % float iff an operand is; ** int only for int ** non-negative int literal, also when parenthesised; "
                          "comparisons bool, mixing int and float allowed) and no error is reported; and/or are bool",
             "bound": f"rule body of check_binary from the point where both operand types are known: ALL operand types (every ResolvedType "
                      f"variant) x all 18 operators x every exponent expression shape up to {PAREN_DEPTH} nested parentheses x every literal; "
                      "the recursive check of the operands is summarised by arbitrary types",
             "encoding": "enum tags as bounded Int; literals as Int; checker helpers as events",
             "functions_encoded": [n + " (MIR)" for n in ex.encoded], "paths": len(outs),
             "truncated_recursion": sorted(getattr(ex, "truncated", []))}
        base = os.path.join(log_dir, "X-check_binary")
        vac, _ = mp.query(ex, [conj([nt["both"], arith]), disj([conj(o.pc) for o in outs if o.kind == "return"])], [], base + ".vac")
        if vac.status != "sat":
            r.update(status="inconclusive", reason=f"vacuity twin {vac.status}", wall_s=round(time.time() - t0, 2))
            return r
        r["vacuity_ok"] = True
        res, res2 = mp.query(ex, [disj(bad)], mp.tag_names(ex), base)
        r["solver"] = f"z3: {res.status} in {res.wall:.2f} s" + (f"; cvc5: {res2.status} in {res2.wall:.2f} s" if res2 else "")
        r["wall_s"] = round(time.time() - t0, 2)
        if res.status == "unsat" and (res2 is None or res2.status != "sat"):
            r["status"] = "held"
            return r
        if res.status == "inconclusive":
            r.update(status="inconclusive", reason="solver: " + res.raw[:200])
            return r
        model = (res if res.status == "sat" else res2).model
        # concretise
        tv = lambda s: solver.value_int(model[s.tag().term]) if s.tag().term in model else 0  # noqa: E731
        opn = mp.variants(R, AST_OP)[tv(op)]
        ltn = mp.variants(R, "ResolvedType")[tv(lty)]
        rtn = mp.variants(R, "ResolvedType")[tv(rty)]
        shape = expr_shape(R, mp, right, model, PAREN_DEPTH)
        r["model"] = {"op": opn, "left": ltn, "right": rtn, "right_expr": shape}
        return finish_tc(r, "binary", opn, ltn, rtn, shape, log_dir)
    obs.append(mp.XOb("X-check_binary", "", "", run_check_binary))

    # ---- compound assignment ------------------------------------------------------------------------------------------
    def run_compound():
        t0 = time.time()
        f = find_fn(P, "check_statement")
        loc_v, entry = entry_after_call(f, "value_ty", r"check_expr")
        loc_var = f.debug.get("var_ty")
        loc_c = f.debug.get("compound")
        if loc_var is None or loc_c is None:
            raise Inconclusive("check_statement: locals `var_ty` / `compound` not found")
        ex = setup()
        selfv = ex.sym_value("TypeChecker", "self")
        stmt = ex.sym_value("incan_syntax::ast::Spanned<incan_syntax::ast::Statement>", "stmt")
        ctype = re.sub(r"^&\s*", "", f.locals.get(loc_c, ""))
        comp = ex.sym_value(ctype, "compound")
        var_ty = ex.sym_value("symbols::ResolvedType", "var_ty")
        val_ty = ex.sym_value("symbols::ResolvedType", "value_ty")
        outs = ex.run_slice(f, entry, {loc_v: val_ty, loc_var: var_ty, loc_c: comp}, [selfv, stmt])
        nt = num_terms(ex, var_ty, val_ty)
        td = R.resolve(ctype)
        names = [x[0] for x in td.variants[0][1]]
        cop = comp.child(None, names.index("op"))
        ct = cop.tag().term
        cvars = mp.variants(R, "incan_syntax::ast::CompoundOp")
        is_div = f"(= {ct} {cvars.index('Div')})"
        doc_float = f"(ite {is_div} true {nt['any_float']})"
        bad = []
        for o in outs:
            if o.kind != "return":
                bad.append(conj(o.pc + [nt["both"]]))
                continue
            tcs = [e for e in o.events if e[0].endswith("types_compatible")]
            pushed = any(e[0].endswith("::push") for e in o.events)
            # meaning of the checker's own compatibility test on numeric types (what the rule relies on):
            # same kind -> compatible; a float result is never compatible with an int variable
            axioms = []
            I, F = mp.idx(R, "ResolvedType", "Int"), mp.idx(R, "ResolvedType", "Float")
            vt = var_ty.tag().term
            for e in tcs:
                shown = e[1]
                if len(shown) >= 3 and "var_ty" in shown[2] and shown[1] in ("ResolvedType::Float", "ResolvedType::Int"):
                    k = F if shown[1].endswith("Float") else I
                    axioms.append(f"(=> (or (= {vt} {I}) (= {vt} {F})) (= {e[2]} (or (= {vt} {k}) (and (= {k} {I}) (= {vt} {F})))))")
            want = f"(= {'true' if pushed else 'false'} (and {nt['l_int']} {doc_float}))"
            bad.append(conj(o.pc + axioms + [nt["both"], neg(want)]))
        r = {"id": "X-compound_assign", "engine": "E2-X mirsmt (slice)",
             "statement": "type checker, `x <op>= y` with int/float x and y: the type of `x <op> y` by the documented table (/= always float; "
                          "+= -= *= //= %= float iff an operand is) decides acceptance: an error is reported exactly when x is an int variable "
                          "and the result is float - so `k: int; k /= 2` is always rejected (the checker's own types_compatible is given its "
                          "numeric meaning: same kind compatible, float into int not)",
             "bound": "rule body of the CompoundAssignment arm of check_statement from the point where the value's type is known: all "
                      "variable types x all value types (every ResolvedType variant) x all 6 compound operators",
             "encoding": "enum tags as bounded Int; checker helpers as events",
             "functions_encoded": [n + " (MIR)" for n in ex.encoded], "paths": len(outs)}
        base = os.path.join(log_dir, "X-compound_assign")
        vac, _ = mp.query(ex, [nt["both"], disj([conj(o.pc) for o in outs if o.kind == "return"])], [], base + ".vac")
        if vac.status != "sat":
            r.update(status="inconclusive", reason=f"vacuity twin {vac.status}", wall_s=round(time.time() - t0, 2))
            return r
        r["vacuity_ok"] = True
        res, res2 = mp.query(ex, [disj(bad)], mp.tag_names(ex), base)
        r["solver"] = f"z3: {res.status} in {res.wall:.2f} s" + (f"; cvc5: {res2.status} in {res2.wall:.2f} s" if res2 else "")
        r["wall_s"] = round(time.time() - t0, 2)
        if res.status == "unsat" and (res2 is None or res2.status != "sat"):
            r["status"] = "held"
            return r
        if res.status == "inconclusive":
            r.update(status="inconclusive", reason="solver: " + res.raw[:200])
            return r
        model = (res if res.status == "sat" else res2).model
        tv = lambda s: solver.value_int(model[s.tag().term]) if s.tag().term in model else 0  # noqa: E731
        opn = cvars[tv(cop)]
        vtn = mp.variants(R, "ResolvedType")[tv(var_ty)]
        wtn = mp.variants(R, "ResolvedType")[tv(val_ty)]
        r["model"] = {"op": opn, "variable": vtn, "value": wtn}
        return finish_tc(r, "compound", opn, vtn, wtn, None, log_dir)
    obs.append(mp.XOb("X-compound_assign", "", "", run_compound))
    return obs


def expr_shape(R, mp, spanned, model, depth):
    """Concrete surface text of the exponent expression chosen by the model (or None = not a literal form)."""
    def tv(s):
        return solver.value_int(model[s.tag().term]) if s.tag().term in model else 0
    node = spanned.child(None, 0)
    en = mp.variants(R, "incan_syntax::ast::Expr")[tv(node)]
    if en == "Literal":
        lit = node.child("Literal", 0)
        if mp.variants(R, "incan_syntax::ast::Literal")[tv(lit)] == "Int":
            n = lit.child("Int", 0).term
            return str(solver.value_int(model[n])) if n in model else "0"
        return None
    if en == "Unary":
        uop = node.child("Unary", 0)
        inner = node.child("Unary", 1).child(None, 0)
        if mp.variants(R, "incan_syntax::ast::UnaryOp")[tv(uop)] == "Neg" and mp.variants(R, "incan_syntax::ast::Expr")[tv(inner)] == "Literal":
            il = inner.child("Literal", 0)
            if mp.variants(R, "incan_syntax::ast::Literal")[tv(il)] == "Int":
                n = il.child("Int", 0).term
                return "-" + (str(solver.value_int(model[n])) if n in model else "0")
        return None
    if en == "Paren" and depth > 0:
        s = expr_shape(R, mp, node.child("Paren", 0), model, depth - 1)
        return f"({s})" if s is not None else None
    return None


TY = {"Int": "int", "Float": "float"}


def doc_binary(opn, ltn, rtn, shape):
    anyf = "Float" in (ltn, rtn)
    if opn in CMP or opn in ("And", "Or"):
        return "bool"
    if opn == "Div":
        return "float"
    if opn == "Pow":
        lit = None
        if shape is not None:
            try:
                lit = int(shape.replace("(", "").replace(")", ""))
            except ValueError:
                lit = None
        return "int" if (not anyf and lit is not None and lit >= 0) else "float"
    return "float" if anyf else "int"


def native_typecheck(src, log_dir, tag):
    import kani
    path = os.path.join(log_dir, f"replay_{tag}.incn")
    with open(path, "w") as f:
        f.write(src)
    res = {}
    for prof in ("dev", "release"):
        binp = kani.build_replay(prof, True, log_dir)
        rc, out, _, to = common.run([binp, "typecheck", path], timeout=60)
        res[prof] = out.strip().splitlines()[-1] if out.strip() else f"<no output rc={rc}>"
    return res, path


def programs(kind, opn, a, b, shape):
    """[(source, expected 'ACCEPTED' | 'REJECTED', why)] for a concrete rule instance; None if it cannot be written as a program."""
    if a not in TY or b not in TY:
        return None
    if kind == "binary":
        if opn not in OPSYM:
            return None
        rhs = shape if (shape is not None and b == "Int") else "b"
        doc = doc_binary(opn, a, b, shape if rhs != "b" else None)
        body = f"a {OPSYM[opn]} {rhs}"
        out = [(f"def f(a: {TY[a]}, b: {TY[b]}) -> {doc}:\n    return {body}\n", "ACCEPTED", f"`{body}` has documented type {doc}")]
        if doc == "float":
            out.append((f"def f(a: {TY[a]}, b: {TY[b]}) -> int:\n    return {body}\n", "REJECTED", f"`{body}` is float, never int"))
        if doc == "int":
            out.append((f"def f(a: {TY[a]}, b: {TY[b]}) -> str:\n    return {body}\n", "REJECTED", f"`{body}` is int, not str"))
        return out
    sym = {"Add": "+=", "Sub": "-=", "Mul": "*=", "Div": "/=", "FloorDiv": "//=", "Mod": "%="}[opn]
    docf = opn == "Div" or "Float" in (a, b)
    exp = "REJECTED" if (a == "Int" and docf) else "ACCEPTED"
    return [(f"def f(v: {TY[a]}, w: {TY[b]}) -> None:\n    mut k: {TY[a]} = v\n    k {sym} w\n", exp,
             f"`k {sym} w` computes {'float' if docf else 'int'} for k: {TY[a]}")]


def check_programs(kind, opn, a, b, shape, log_dir):
    progs = programs(kind, opn, a, b, shape)
    if progs is None:
        return None, "the model uses non-numeric types or an operator without surface syntax; no program to run", None
    bad = False
    texts = []
    first = None
    for k, (src, exp, why) in enumerate(progs):
        res, path = native_typecheck(src, log_dir, f"{kind}_{k}")
        first = first or path
        for prof, line in res.items():
            ok = line.startswith(exp)
            bad = bad or not ok
            texts.append(f"[{prof}] {src.strip().splitlines()[-1].strip()} ({why}): expected {exp}, checker says {line[:120]}")
    return bad, " ;; ".join(texts), first


def finish_tc(r, kind, opn, a, b, shape, log_dir):
    bad, text, path = check_programs(kind, opn, a, b, shape, log_dir)
    r["native"] = text
    if bad is True:
        os.makedirs(os.path.join(common.REPLAYS_DIR, "MIRX"), exist_ok=True)
        rp = os.path.join(common.REPLAYS_DIR, "MIRX", r["id"] + ".replay")
        with open(rp, "w") as fh:
            fh.write(f"mirx tc {kind} {opn} {a} {b} {shape if shape is not None else '-'}\n# {r['statement']}\n# {text}\n")
        r.update(status="violated", replay=rp, counterexample={"model": r.get("model"), "native": text})
    else:
        r.update(status="inconclusive", reason=f"model {r.get('model')} does not reproduce through the public type-check API: {text}")
    return r


def replay_tc(pid, line):
    log_dir = os.path.join(common.WORK_DIR, pid, "replay")
    os.makedirs(log_dir, exist_ok=True)
    kind, opn, a, b, shape = line[2], line[3], line[4], line[5], (None if line[6] == "-" else line[6])
    bad, text, _ = check_programs(kind, opn, a, b, shape, log_dir)
    say(text)
    return bad
