"""E2-X slices of the type checker (C07): the rule bodies of `check_binary` and of the compound-assignment arm of
`check_statement` are executed symbolically from the point where the operand types are known (the recursive
`check_expr` calls before that point are summarised by ARBITRARY operand types), with the checker's own helpers
(`types_compatible`, error constructors, `errors.push`) recorded as events."""
import os
import re
import time

import common
from common import Inconclusive, say
import mir
import mirx
import solver
import symex
from symex import Adt, Sym, conj, disj, neg

AST_OP = "incan_syntax::ast::BinaryOp"
ARITH = ["Add", "Sub", "Mul", "Div", "FloorDiv", "Mod", "Pow"]
CMP = ["Eq", "NotEq", "Lt", "Gt", "LtEq", "GtEq"]
OPSYM = {"Add": "+", "Sub": "-", "Mul": "*", "Div": "/", "FloorDiv": "//", "Mod": "%", "Pow": "**", "Eq": "==", "NotEq": "!=",
         "Lt": "<", "Gt": ">", "LtEq": "<=", "GtEq": ">=", "And": "and", "Or": "or"}
SUMMARIZE = [r"lang::\w+(::\w+)*::from_str$", r"_type_id$", r"::as_str$", r"String as .*Deref>::deref$", r"ToString>::to_string$",
             r"fmt::format", r"^format$", r"::types_compatible$", r"^(errors::)?\w*mismatch\w*$", r"^errors::\w+$", r"Vec::<.*>::push$",
             r"^unknown_symbol$", r"^mutation_without_mut$"]


def find_fn(P, suffix):
    c = [f for n, f in P.fns.items() if n.endswith("::" + suffix) and "{closure" not in n]
    if len(c) != 1:
        raise Inconclusive(f"function `{suffix}` not found (or ambiguous) in the MIR dump")
    return c[0]


def entry_after_call(f, var_name, callee_pat):
    """The block a call matching `callee_pat` returns to when its result is the source variable `var_name`."""
    loc = f.debug.get(var_name)
    if loc is None:
        raise Inconclusive(f"{f.name}: no local named `{var_name}` any more")
    for b in f.blocks.values():
        m = re.match(r"^" + re.escape(loc) + r" = .*" + callee_pat + r"\(.*\) -> \[return: (bb\d+)", b.term or "")
        if m:
            return loc, m.group(1)
    raise Inconclusive(f"{f.name}: `{var_name}` is no longer the result of a {callee_pat} call")


class LitModel:
    """Documented classification of an exponent expression on the surface syntax (n, -n, parenthesised up to `depth`)."""

    def __init__(self, ex, R, mp, expr_sym, depth):
        self.ex, self.R, self.mp = ex, R, mp
        self.lits = []
        self.nonneg = self._build(expr_sym, depth)

    def _lit_int(self, node, variant):
        """formula 'node is Literal(Int n)' and the term n, for an Expr sym `node`"""
        R, mp = self.R, self.mp
        lit = node.child(variant, 0) if variant else node
        return lit

    def _build(self, spanned, depth):
        R, mp = self.R, self.mp
        ix = lambda ty, n: mp.idx(R, ty, n)  # noqa: E731
        node = spanned.child(None, 0)
        nt = node.tag().term
        lit = node.child("Literal", 0)
        n = lit.child("Int", 0)
        self.lits.append(n.term)
        is_lit = f"(and (= {nt} {ix('incan_syntax::ast::Expr', 'Literal')}) (= {lit.tag().term} {ix('incan_syntax::ast::Literal', 'Int')}))"
        uop = node.child("Unary", 0)
        inner = node.child("Unary", 1).child(None, 0)
        ilit = inner.child("Literal", 0)
        m = ilit.child("Int", 0)
        self.lits.append(m.term)
        is_neg = (f"(and (= {nt} {ix('incan_syntax::ast::Expr', 'Unary')}) (= {uop.tag().term} {ix('incan_syntax::ast::UnaryOp', 'Neg')}) "
                  f"(= {inner.tag().term} {ix('incan_syntax::ast::Expr', 'Literal')}) (= {ilit.tag().term} {ix('incan_syntax::ast::Literal', 'Int')}))")
        f = f"(or (and {is_lit} (>= {n.term} 0)) (and {is_neg} (>= (- {m.term}) 0))"
        if depth > 0:
            is_paren = f"(= {nt} {ix('incan_syntax::ast::Expr', 'Paren')})"
            f += f" (and {is_paren} {self._build(node.child('Paren', 0), depth - 1)})"
        return f + ")"


def build(pid, P, R, tier, log_dir):
    import mirx_props as mp
    obs = []
    if pid not in ("C07", "C04"):
        return obs
    PAREN_DEPTH = 2

    def setup():
        ex = mirx.make_executor(P, R)
        ex.opaque_calls = mirx.slice_opaque
        ex.recursion_bound = PAREN_DEPTH
        ex.summarize = SUMMARIZE
        return ex

    def num_terms(ex, lty, rty):
        I, F = mp.idx(R, "ResolvedType", "Int"), mp.idx(R, "ResolvedType", "Float")
        lt, rt = lty.tag().term, rty.tag().term
        return {"l_int": f"(= {lt} {I})", "l_float": f"(= {lt} {F})", "r_int": f"(= {rt} {I})", "r_float": f"(= {rt} {F})",
                "both": f"(and (or (= {lt} {I}) (= {lt} {F})) (or (= {rt} {I}) (= {rt} {F})))", "any_float": f"(or (= {lt} {F}) (= {rt} {F}))"}

    # ---- check_binary --------------------------------------------------------------------------------------------
    def run_check_binary():
        t0 = time.time()
        f = find_fn(P, "check_binary")
        loc_r, entry = entry_after_call(f, "right_ty", r"check_expr")
        loc_l = f.debug.get("left_ty")
        ex = setup()
        selfv = ex.sym_value("TypeChecker", "self")
        left = ex.sym_value("incan_syntax::ast::Spanned<incan_syntax::ast::Expr>", "left")
        op = ex.sym_value(AST_OP, "op")
        right = ex.sym_value("incan_syntax::ast::Spanned<incan_syntax::ast::Expr>", "right")
        lty = ex.sym_value("symbols::ResolvedType", "lty")
        rty = ex.sym_value("symbols::ResolvedType", "rty")
        lm = LitModel(ex, R, mp, right, PAREN_DEPTH)
        for t in lm.lits:
            ex.enc.side.append(f"(>= {t} 0)")     # the lexer only produces literals in 0..=i64::MAX
        outs = ex.run_slice(f, entry, {loc_l: lty, loc_r: rty}, [selfv, left, op, right, symex.Opaque("span")])
        nt = num_terms(ex, lty, rty)
        ot = op.tag().term
        op_is = lambda n: f"(= {ot} {mp.idx(R, AST_OP, n)})"  # noqa: E731
        arith = disj([op_is(n) for n in ARITH])
        cmpf = disj([op_is(n) for n in CMP])
        logic = disj([op_is(n) for n in ("And", "Or")])
        doc_float = (f"(ite {op_is('Div')} true (ite {op_is('Pow')} (not (and (not {nt['any_float']}) {lm.nonneg})) {nt['any_float']}))")
        bad = []
        for o in outs:
            if o.kind != "return":
                bad.append(conj(o.pc + [nt["both"]]))     # no panic on numeric operands
                continue
            err = any(e[0].endswith("::push") for e in o.events)
            v = ex.deref(o.value, o.state)
            vn = v.variant if isinstance(v, Adt) else None
            want_arith = "false"
            if not err and vn == "Float":
                want_arith = doc_float
            elif not err and vn == "Int":
                want_arith = neg(doc_float)
            want_bool = "true" if (vn == "Bool" and not err) else "false"
            want = (f"(and (=> (and {arith} {nt['both']}) {want_arith}) (=> (and {cmpf} {nt['both']}) {want_bool}) "
                    f"(=> {logic} {'true' if vn == 'Bool' else 'false'}))")
            bad.append(conj(o.pc + [neg(want)]))
        r = {"id": "X-check_binary", "engine": "E2-X mirsmt (slice)",
             "statement": "type checker, binary expressions: for int/float operand types the static type is the documented one (/ float; "
                          "+ - * // % float iff an operand is; ** int only for int ** non-negative int literal, also when parenthesised; "
                          "comparisons bool, mixing int and float allowed) and no error is reported; and/or are bool",
             "bound": f"rule body of check_binary from the point where both operand types are known: ALL operand types (every ResolvedType "
                      f"variant) x all 18 operators x every exponent expression shape up to {PAREN_DEPTH} nested parentheses x every literal; "
                      "the recursive check of the operands is summarised by arbitrary types",
             "encoding": "enum tags as bounded Int; literals as Int; checker helpers as events",
             "functions_encoded": [n + " (MIR)" for n in ex.encoded], "paths": len(outs),
             "truncated_recursion": sorted(getattr(ex, "truncated", []))}
        base = os.path.join(log_dir, "X-check_binary")
        vac, _ = mp.query(ex, [conj([nt["both"], arith]), disj([conj(o.pc) for o in outs if o.kind == "return"])], [], base + ".vac")
        if vac.status != "sat":
            r.update(status="inconclusive", reason=f"vacuity twin {vac.status}", wall_s=round(time.time() - t0, 2))
            return r
        r["vacuity_ok"] = True
        res, res2 = mp.query(ex, [disj(bad)], mp.tag_names(ex), base)
        r["solver"] = f"z3: {res.status} in {res.wall:.2f} s" + (f"; cvc5: {res2.status} in {res2.wall:.2f} s" if res2 else "")
        r["wall_s"] = round(time.time() - t0, 2)
        if res.status == "unsat" and (res2 is None or res2.status != "sat"):
            r["status"] = "held"
            return r
        if res.status == "inconclusive":
            r.update(status="inconclusive", reason="solver: " + res.raw[:200])
            return r
        model = (res if res.status == "sat" else res2).model
        # concretise
        tv = lambda s: solver.value_int(model[s.tag().term]) if s.tag().term in model else 0  # noqa: E731
        opn = mp.variants(R, AST_OP)[tv(op)]
        ltn = mp.variants(R, "ResolvedType")[tv(lty)]
        rtn = mp.variants(R, "ResolvedType")[tv(rty)]
        shape = expr_shape(R, mp, right, model, PAREN_DEPTH)
        r["model"] = {"op": opn, "left": ltn, "right": rtn, "right_expr": shape}
        return finish_tc(r, "binary", opn, ltn, rtn, shape, log_dir)
    obs.append(mp.XOb("X-check_binary", "", "", run_check_binary))

    # ---- compound assignment ------------------------------------------------------------------------------------------
    def run_compound():
        t0 = time.time()
        f = find_fn(P, "check_statement")
        loc_v, entry = entry_after_call(f, "value_ty", r"check_expr")
        loc_var = f.debug.get("var_ty")
        loc_c = f.debug.get("compound")
        if loc_var is None or loc_c is None:
            raise Inconclusive("check_statement: locals `var_ty` / `compound` not found")
        ex = setup()
        selfv = ex.sym_value("TypeChecker", "self")
        stmt = ex.sym_value("incan_syntax::ast::Spanned<incan_syntax::ast::Statement>", "stmt")
        ctype = re.sub(r"^&\s*", "", f.locals.get(loc_c, ""))
        comp = ex.sym_value(ctype, "compound")
        var_ty = ex.sym_value("symbols::ResolvedType", "var_ty")
        val_ty = ex.sym_value("symbols::ResolvedType", "value_ty")
        outs = ex.run_slice(f, entry, {loc_v: val_ty, loc_var: var_ty, loc_c: comp}, [selfv, stmt])
        nt = num_terms(ex, var_ty, val_ty)
        td = R.resolve(ctype)
        names = [x[0] for x in td.variants[0][1]]
        cop = comp.child(None, names.index("op"))
        ct = cop.tag().term
        cvars = mp.variants(R, "incan_syntax::ast::CompoundOp")
        is_div = f"(= {ct} {cvars.index('Div')})"
        doc_float = f"(ite {is_div} true {nt['any_float']})"
        bad = []
        for o in outs:
            if o.kind != "return":
                bad.append(conj(o.pc + [nt["both"]]))
                continue
            tcs = [e for e in o.events if e[0].endswith("types_compatible")]
            pushed = any(e[0].endswith("::push") for e in o.events)
            # meaning of the checker's own compatibility test on numeric types (what the rule relies on):
            # same kind -> compatible; a float result is never compatible with an int variable
            axioms = []
            I, F = mp.idx(R, "ResolvedType", "Int"), mp.idx(R, "ResolvedType", "Float")
            vt = var_ty.tag().term
            for e in tcs:
                shown = e[1]
                if len(shown) >= 3 and "var_ty" in shown[2] and shown[1] in ("ResolvedType::Float", "ResolvedType::Int"):
                    k = F if shown[1].endswith("Float") else I
                    axioms.append(f"(=> (or (= {vt} {I}) (= {vt} {F})) (= {e[2]} (or (= {vt} {k}) (and (= {k} {I}) (= {vt} {F})))))")
            want = f"(= {'true' if pushed else 'false'} (and {nt['l_int']} {doc_float}))"
            bad.append(conj(o.pc + axioms + [nt["both"], neg(want)]))
        r = {"id": "X-compound_assign", "engine": "E2-X mirsmt (slice)",
             "statement": "type checker, `x <op>= y` with int/float x and y: the type of `x <op> y` by the documented table (/= always float; "
                          "+= -= *= //= %= float iff an operand is) decides acceptance: an error is reported exactly when x is an int variable "
                          "and the result is float - so `k: int; k /= 2` is always rejected (the checker's own types_compatible is given its "
                          "numeric meaning: same kind compatible, float into int not)",
             "bound": "rule body of the CompoundAssignment arm of check_statement from the point where the value's type is known: all "
                      "variable types x all value types (every ResolvedType variant) x all 6 compound operators",
             "encoding": "enum tags as bounded Int; checker helpers as events",
             "functions_encoded": [n + " (MIR)" for n in ex.encoded], "paths": len(outs)}
        base = os.path.join(log_dir, "X-compound_assign")
        vac, _ = mp.query(ex, [nt["both"], disj([conj(o.pc) for o in outs if o.kind == "return"])], [], base + ".vac")
        if vac.status != "sat":
            r.update(status="inconclusive", reason=f"vacuity twin {vac.status}", wall_s=round(time.time() - t0, 2))
            return r
        r["vacuity_ok"] = True
        res, res2 = mp.query(ex, [disj(bad)], mp.tag_names(ex), base)
        r["solver"] = f"z3: {res.status} in {res.wall:.2f} s" + (f"; cvc5: {res2.status} in {res2.wall:.2f} s" if res2 else "")
        r["wall_s"] = round(time.time() - t0, 2)
        if res.status == "unsat" and (res2 is None or res2.status != "sat"):
            r["status"] = "held"
            return r
        if res.status == "inconclusive":
            r.update(status="inconclusive", reason="solver: " + res.raw[:200])
            return r
        model = (res if res.status == "sat" else res2).model
        tv = lambda s: solver.value_int(model[s.tag().term]) if s.tag().term in model else 0  # noqa: E731
        opn = cvars[tv(cop)]
        vtn = mp.variants(R, "ResolvedType")[tv(var_ty)]
        wtn = mp.variants(R, "ResolvedType")[tv(val_ty)]
        r["model"] = {"op": opn, "variable": vtn, "value": wtn}
        return finish_tc(r, "compound", opn, vtn, wtn, None, log_dir)
    obs.append(mp.XOb("X-compound_assign", "", "", run_compound))

    # ---- the compatibility relation on payload-free types (the meaning X-compound_assign relies on) --------------------------
    SIMPLE = ["Int", "Float", "Bool", "Str", "Bytes", "FrozenStr", "FrozenBytes", "Unit", "SelfType", "Unknown"]

    def run_compat():
        t0 = time.time()
        f = find_fn(P, "types_compatible")
        ex = setup()
        ex.summarize = [p for p in SUMMARIZE if "types_compatible" not in p]
        ex.recursion_bound = 1
        selfv = ex.sym_value("TypeChecker", "self")
        a = ex.sym_value("symbols::ResolvedType", "actual")
        b = ex.sym_value("symbols::ResolvedType", "expected")
        rvars = mp.variants(R, "ResolvedType")
        missing = [n for n in SIMPLE if n not in rvars]
        if missing:
            raise Inconclusive(f"ResolvedType no longer has the variants {missing}")
        st0 = symex.State()
        allowed = {rvars.index(n) for n in SIMPLE}
        for sym in (a, b):
            t = sym.tag().term
            st0.facts[t] = ("ne", set(range(len(rvars))) - allowed)
            st0.pc.append("(or " + " ".join(f"(= {t} {k})" for k in sorted(allowed)) + ")")
        outs = ex.run(f, [selfv, a, b], state=st0)
        at, bt = a.tag().term, b.tag().term
        ix = lambda n: rvars.index(n)  # noqa: E731
        doc = (f"(or (= {at} {bt}) (= {at} {ix('Unknown')}) (= {bt} {ix('Unknown')}) "
               f"(and (= {at} {ix('FrozenStr')}) (= {bt} {ix('Str')})) (and (= {at} {ix('FrozenBytes')}) (= {bt} {ix('Bytes')})))")
        bad = []
        for o in outs:
            if o.kind != "return":
                bad.append(conj(o.pc))
                continue
            v = ex.deref(o.value, o.state)
            if isinstance(v, symex.Scalar) and v.sort == "bool":
                bad.append(conj(o.pc + [f"(not (= {v.term} {doc}))"]))
            else:
                bad.append(conj(o.pc))
        r = {"id": "X-types_compatible", "engine": "E2-X mirsmt",
             "statement": "the checker's compatibility relation on payload-free types: `actual` is accepted where `expected` is declared iff "
                          "they are the same type, either is Unknown (error recovery), or actual is the frozen form of expected "
                          "(FrozenStr -> str, FrozenBytes -> bytes); in particular float is never accepted for int nor int for float",
             "bound": f"all {len(SIMPLE)}^2 pairs of payload-free ResolvedType variants (tags symbolic)",
             "encoding": "enum tags as bounded Int", "functions_encoded": [n + " (MIR)" for n in ex.encoded], "paths": len(outs)}
        base = os.path.join(log_dir, "X-types_compatible")
        vac, _ = mp.query(ex, [disj([conj(o.pc) for o in outs if o.kind == "return"])], [], base + ".vac")
        if vac.status != "sat":
            r.update(status="inconclusive", reason=f"vacuity twin {vac.status}", wall_s=round(time.time() - t0, 2))
            return r
        r["vacuity_ok"] = True
        res, res2 = mp.query(ex, [disj(bad)], mp.tag_names(ex), base)
        r["solver"] = f"z3: {res.status} in {res.wall:.2f} s" + (f"; cvc5: {res2.status} in {res2.wall:.2f} s" if res2 else "")
        r["wall_s"] = round(time.time() - t0, 2)
        if res.status == "unsat" and (res2 is None or res2.status != "sat"):
            r["status"] = "held"
            return r
        if res.status == "inconclusive":
            r.update(status="inconclusive", reason="solver: " + res.raw[:200])
            return r
        model = (res if res.status == "sat" else res2).model
        an = rvars[solver.value_int(model[at])]
        bn = rvars[solver.value_int(model[bt])]
        r["model"] = {"actual": an, "expected": bn}
        SRC = {"Int": ("int", "1"), "Float": ("float", "1.5"), "Bool": ("bool", "true"), "Str": ("str", '"s"'), "Unit": ("None", "None")}
        if an not in SRC or bn not in SRC:
            r.update(status="inconclusive", reason=f"model {r['model']} has no surface program (only int/float/bool/str/None can be written)")
            return r
        src = f"def f() -> {SRC[bn][0]}:\n    let v: {SRC[an][0]} = {SRC[an][1]}\n    return v\n"
        exp = "ACCEPTED" if an == bn else "REJECTED"
        res_n, path = native_typecheck(src, log_dir, "compat")
        text = f"returning a {SRC[an][0]} from a function declared -> {SRC[bn][0]}: expected {exp}, checker says {res_n}"
        r["native"] = text
        if any(not line.startswith(exp) for line in res_n.values()):
            os.makedirs(os.path.join(common.REPLAYS_DIR, "MIRX"), exist_ok=True)
            rp = os.path.join(common.REPLAYS_DIR, "MIRX", "X-types_compatible.replay")
            with open(rp, "w") as fh:
                fh.write(f"mirx compat {an} {bn}\n# {r['statement']}\n# {text}\n")
            r.update(status="violated", replay=rp, counterexample={"model": r["model"], "native": text})
        else:
            r.update(status="inconclusive", reason=f"model does not reproduce through the public API: {text}")
        return r
    obs.append(mp.XOb("X-types_compatible", "", "", run_compat))
    obs.append(mp.XOb("X-lower_compound", "", "", lambda: run_lower_compound(P, R, mp, setup, log_dir)))
    if pid == "C04":
        # C04 covers "/, //, % and their compound-assignment forms": only the desugaring obligation belongs to it
        obs = [o for o in obs if o.id == "X-lower_compound"]
    return obs


def find_adt(v, ex, st, variant, depth=0):
    """First Adt with the given variant name inside a returned value (looks through Ok(..), struct fields, boxes)."""
    v = ex.deref(v, st)
    if isinstance(v, Adt):
        if v.variant == variant:
            return v
        if depth < 6:
            for f in v.fields:
                r = find_adt(f[1] if isinstance(f, tuple) else f, ex, st, variant, depth + 1)
                if r is not None:
                    return r
    return None


def adt_field(adt, name):
    for f in adt.fields:
        if isinstance(f, tuple) and f[0] == name:
            return f[1]
    return None


def run_lower_compound(P, R, mp, setup, log_dir):
    """Lowering of `x <op>= y`: desugars to `x = x <op> y` with the SAME operator, x on the left and y on the right, typed by the
    documented table."""
    t0 = time.time()
    f = find_fn(P, "lower_stmt") if any(n.endswith("::lower_stmt") for n in P.fns) else find_fn(P, "lower_statement")
    loc_ca = f.debug.get("ca")
    if loc_ca is None:
        raise Inconclusive(f"{f.name}: no local named `ca` (compound assignment arm) any more")
    entry = None
    for bn, b in f.blocks.items():
        if any(re.match(r"^" + re.escape(loc_ca) + r" = ", st_) for st_ in b.stmts):
            entry = bn
    if entry is None:
        raise Inconclusive(f"{f.name}: the block that binds `ca` was not found")
    ex = setup()
    ex.summarize = SUMMARIZE + [r"::lookup_var$", r"::lower_expr_spanned$", r"::lower_expr$"]
    selfv = ex.sym_value("AstLowering", "self")
    ctype = re.sub(r"^&\s*", "", f.locals.get(loc_ca, ""))
    stmt = ex.sym_value(f.params[1][1], "stmt")
    # the arm's binding `ca` is the payload of Statement::CompoundAssignment of the statement being lowered
    snode = stmt
    if snode.tdef is not None and snode.tdef.kind == "struct":
        snode = stmt.child(None, 0)
    ca = snode.child("CompoundAssignment", 0)
    params = [selfv, stmt] + [ex.sym_value(t, f"p{k}") for k, (_, t) in enumerate(f.params[2:])]
    st_var = mp.idx(R, "incan_syntax::ast::Statement", "CompoundAssignment")
    outs = ex.run_slice(f, entry, {}, params)
    td = R.resolve(ctype)
    names = [x[0] for x in td.variants[0][1]]
    cop = ca.child(None, names.index("op"))
    cvars = mp.variants(R, "incan_syntax::ast::CompoundOp")
    irt = mp.variants(R, "IrType")
    I, F = irt.index("Int"), irt.index("Float")
    bad = []
    shapes = []
    n_ok = 0
    for o in outs:
        if o.kind != "return":
            bad.append(conj(o.pc))
            continue
        v = ex.deref(o.value, o.state)
        if isinstance(v, Adt) and v.variant == "Err":
            continue                 # the value expression failed to lower: error propagated
        assign = find_adt(v, ex, o.state, "Assign")
        binop = find_adt(v, ex, o.state, "BinOp")
        if assign is None or binop is None:
            bad.append(conj(o.pc))
            continue
        n_ok += 1
        opv = ex.deref(adt_field(binop, "op"), o.state)
        left = ex.deref(adt_field(binop, "left"), o.state)
        right = ex.deref(adt_field(binop, "right"), o.state)
        k = op_fact(o, cop)
        cname = cvars[k] if k is not None else None
        want_op = cname     # CompoundOp and BinOp use the same names for these six operators
        ok_op = isinstance(opv, Adt) and opv.variant == want_op
        # left operand: a variable reference carrying the assigned name; right operand: the lowered value expression
        lkind = ex.deref(adt_field(left, "kind"), o.state) if isinstance(left, Adt) else None
        ok_left = isinstance(lkind, Adt) and lkind.variant == "Var" and (ca.name + ".0") in mirx.show(lkind, ex, o.state)
        ok_right = isinstance(right, symex.Sym) and right.name.startswith("ev")
        tgt = mirx.show(ex.deref(adt_field(assign, "target"), o.state), ex, o.state)
        ok_target = "Var" in tgt and (ca.name + ".0") in tgt
        shapes.append(mirx.show(binop, ex, o.state)[:160])
        if not (ok_op and ok_left and ok_right and ok_target):
            bad.append(conj(o.pc))
            continue
        # result type of the desugared expression by the documented table (lhs type = the variable's, rhs type = the value's)
        value = ex.deref(adt_field(assign, "value"), o.state)
        rty = ex.deref(adt_field(value, "ty"), o.state) if isinstance(value, Adt) else None
        lty = ex.deref(adt_field(left, "ty"), o.state)
        rhs_ty = right.child(None, [x[0] for x in R.resolve("TypedExpr").variants[0][1]].index("ty"))
        if isinstance(lty, symex.Sym):
            lt, rt = lty.tag().term, rhs_ty.tag().term
            both = f"(and (or (= {lt} {I}) (= {lt} {F})) (or (= {rt} {I}) (= {rt} {F})))"
            docf = f"(or (= {cop.tag().term} {cvars.index('Div')}) (= {lt} {F}) (= {rt} {F}))"
            if isinstance(rty, Adt) and rty.variant == "Float":
                bad.append(conj(o.pc + [both, neg(docf)]))
            elif isinstance(rty, Adt) and rty.variant == "Int":
                bad.append(conj(o.pc + [both, docf]))
            else:
                bad.append(conj(o.pc + [both]))
    r = {"id": "X-lower_compound", "engine": "E2-X mirsmt (slice)",
         "statement": "lowering, `x <op>= y`: the statement becomes `x = x <op> y` with the same operator, the variable on the left and the "
                      "value on the right (so `x //= y` is x // y, never y // x), assigned back to x, and the expression is typed by the "
                      "documented table for int/float operands",
         "bound": "CompoundAssignment arm of lower_stmt from the variable lookup on: all 6 compound operators x all IrType variants of the "
                  "variable and of the value; lookup_var / lower_expr_spanned summarised by arbitrary results",
         "encoding": "enum tags as bounded Int", "functions_encoded": [n + " (MIR)" for n in ex.encoded], "paths": len(outs),
         "shapes": shapes[:3]}
    base = os.path.join(log_dir, "X-lower_compound")
    if n_ok == 0:
        r.update(status="inconclusive", reason="no path produced an Assign statement (vacuous)", wall_s=round(time.time() - t0, 2))
        return r
    r["vacuity_ok"] = True
    bad = [b for b in bad if b != "false"]
    if not bad:
        r.update(status="held", solver="no path can differ (syntactic)", wall_s=round(time.time() - t0, 2))
        return r
    res, res2 = mp.query(ex, [disj(bad)], mp.tag_names(ex), base)
    r["solver"] = f"z3: {res.status} in {res.wall:.2f} s" + (f"; cvc5: {res2.status} in {res2.wall:.2f} s" if res2 else "")
    r["wall_s"] = round(time.time() - t0, 2)
    if res.status == "unsat" and (res2 is None or res2.status != "sat"):
        r["status"] = "held"
        return r
    if res.status == "inconclusive":
        r.update(status="inconclusive", reason="solver: " + res.raw[:200])
        return r
    model = (res if res.status == "sat" else res2).model
    k = solver.value_int(model[cop.tag().term]) if cop.tag().term in model else 0
    opn = cvars[k]
    r["model"] = {"op": opn}
    # native: run a program whose result depends on operand order and operator
    return finish_lower_compound(r, opn, log_dir)


def op_fact(o, sym):
    f = o.state.facts.get(sym.tag().term)
    return f[1] if f and f[0] == "eq" else None


def finish_lower_compound(r, opn, log_dir):
    import kani
    sym = {"Add": "+=", "Sub": "-=", "Mul": "*=", "Div": "/=", "FloorDiv": "//=", "Mod": "%="}[opn]
    rust = {"Add": r"k \+ w", "Sub": r"k - w", "Mul": r"k \* w", "Div": r"py_div\(\s*k\b.*,\s*\(?w", "FloorDiv": r"py_floor_div\w*\(\s*k\b.*,\s*w",
            "Mod": r"py_mod\w*\(\s*k\b.*,\s*w"}[opn]
    vt = "float" if opn == "Div" else "int"
    src = f"def f(v: {vt}, w: int) -> None:\n    mut k: {vt} = v\n    k {sym} w\n"
    path = os.path.join(log_dir, "lower_compound_replay.incn")
    os.makedirs(log_dir, exist_ok=True)
    with open(path, "w") as fh:
        fh.write(src)
    texts, broken = [], False
    for prof in ("dev", "release"):
        binp = kani.build_replay(prof, True, log_dir)
        rc, out, _, to = common.run([binp, "emitrust", path], timeout=60)
        m = re.search(r"^\s*k = (.*?);", out, re.S | re.M)
        if not m:
            texts.append(f"[{prof}] no assignment to k in the generated code: {out.strip()[-160:]}")
            broken = broken or "RUST-BEGIN" in out or "CODEGEN-ERROR" in out
            continue
        ok = re.search(rust, m.group(1)) is not None
        broken = broken or not ok
        texts.append(f"[{prof}] `k {sym} w` generated `k = {m.group(1).strip()}`")
    text = "; ".join(texts)
    r["native"] = text
    if broken:
        os.makedirs(os.path.join(common.REPLAYS_DIR, "MIRX"), exist_ok=True)
        rp = os.path.join(common.REPLAYS_DIR, "MIRX", "X-lower_compound.replay")
        with open(rp, "w") as fh:
            fh.write(f"mirx lowercompound {opn}\n# {r['statement']}\n# {text}\n")
        r.update(status="violated", replay=rp, counterexample={"model": r["model"], "native": text})
    else:
        r.update(status="inconclusive", reason=f"model {r['model']} does not reproduce through the real pipeline: {text}")
    return r


def expr_shape(R, mp, spanned, model, depth):
    """Concrete surface text of the exponent expression chosen by the model (or None = not a literal form)."""
    def tv(s):
        return solver.value_int(model[s.tag().term]) if s.tag().term in model else 0
    node = spanned.child(None, 0)
    en = mp.variants(R, "incan_syntax::ast::Expr")[tv(node)]
    if en == "Literal":
        lit = node.child("Literal", 0)
        if mp.variants(R, "incan_syntax::ast::Literal")[tv(lit)] == "Int":
            n = lit.child("Int", 0).term
            return str(solver.value_int(model[n])) if n in model else "0"
        return None
    if en == "Unary":
        uop = node.child("Unary", 0)
        inner = node.child("Unary", 1).child(None, 0)
        if mp.variants(R, "incan_syntax::ast::UnaryOp")[tv(uop)] == "Neg" and mp.variants(R, "incan_syntax::ast::Expr")[tv(inner)] == "Literal":
            il = inner.child("Literal", 0)
            if mp.variants(R, "incan_syntax::ast::Literal")[tv(il)] == "Int":
                n = il.child("Int", 0).term
                return "-" + (str(solver.value_int(model[n])) if n in model else "0")
        return None
    if en == "Paren" and depth > 0:
        s = expr_shape(R, mp, node.child("Paren", 0), model, depth - 1)
        return f"({s})" if s is not None else None
    return None


TY = {"Int": "int", "Float": "float"}


def doc_binary(opn, ltn, rtn, shape):
    anyf = "Float" in (ltn, rtn)
    if opn in CMP or opn in ("And", "Or"):
        return "bool"
    if opn == "Div":
        return "float"
    if opn == "Pow":
        lit = None
        if shape is not None:
            try:
                lit = int(shape.replace("(", "").replace(")", ""))
            except ValueError:
                lit = None
        return "int" if (not anyf and lit is not None and lit >= 0) else "float"
    return "float" if anyf else "int"


def native_typecheck(src, log_dir, tag):
    import kani
    path = os.path.join(log_dir, f"replay_{tag}.incn")
    with open(path, "w") as f:
        f.write(src)
    res = {}
    for prof in ("dev", "release"):
        binp = kani.build_replay(prof, True, log_dir)
        rc, out, _, to = common.run([binp, "typecheck", path], timeout=60)
        res[prof] = out.strip().splitlines()[-1] if out.strip() else f"<no output rc={rc}>"
    return res, path


def programs(kind, opn, a, b, shape):
    """[(source, expected 'ACCEPTED' | 'REJECTED', why)] for a concrete rule instance; None if it cannot be written as a program."""
    if a not in TY or b not in TY:
        return None
    if kind == "binary":
        if opn not in OPSYM:
            return None
        rhs = shape if (shape is not None and b == "Int") else "b"
        doc = doc_binary(opn, a, b, shape if rhs != "b" else None)
        body = f"a {OPSYM[opn]} {rhs}"
        out = [(f"def f(a: {TY[a]}, b: {TY[b]}) -> {doc}:\n    return {body}\n", "ACCEPTED", f"`{body}` has documented type {doc}")]
        if doc == "float":
            out.append((f"def f(a: {TY[a]}, b: {TY[b]}) -> int:\n    return {body}\n", "REJECTED", f"`{body}` is float, never int"))
        if doc == "int":
            out.append((f"def f(a: {TY[a]}, b: {TY[b]}) -> str:\n    return {body}\n", "REJECTED", f"`{body}` is int, not str"))
        return out
    sym = {"Add": "+=", "Sub": "-=", "Mul": "*=", "Div": "/=", "FloorDiv": "//=", "Mod": "%="}[opn]
    docf = opn == "Div" or "Float" in (a, b)
    exp = "REJECTED" if (a == "Int" and docf) else "ACCEPTED"
    return [(f"def f(v: {TY[a]}, w: {TY[b]}) -> None:\n    mut k: {TY[a]} = v\n    k {sym} w\n", exp,
             f"`k {sym} w` computes {'float' if docf else 'int'} for k: {TY[a]}")]


def check_programs(kind, opn, a, b, shape, log_dir):
    progs = programs(kind, opn, a, b, shape)
    if progs is None:
        return None, "the model uses non-numeric types or an operator without surface syntax; no program to run", None
    bad = False
    texts = []
    first = None
    for k, (src, exp, why) in enumerate(progs):
        res, path = native_typecheck(src, log_dir, f"{kind}_{k}")
        first = first or path
        for prof, line in res.items():
            ok = line.startswith(exp)
            bad = bad or not ok
            texts.append(f"[{prof}] {src.strip().splitlines()[-1].strip()} ({why}): expected {exp}, checker says {line[:120]}")
    return bad, " ;; ".join(texts), first


def finish_tc(r, kind, opn, a, b, shape, log_dir):
    bad, text, path = check_programs(kind, opn, a, b, shape, log_dir)
    r["native"] = text
    if bad is True:
        os.makedirs(os.path.join(common.REPLAYS_DIR, "MIRX"), exist_ok=True)
        rp = os.path.join(common.REPLAYS_DIR, "MIRX", r["id"] + ".replay")
        with open(rp, "w") as fh:
            fh.write(f"mirx tc {kind} {opn} {a} {b} {shape if shape is not None else '-'}\n# {r['statement']}\n# {text}\n")
        r.update(status="violated", replay=rp, counterexample={"model": r.get("model"), "native": text})
    else:
        r.update(status="inconclusive", reason=f"model {r.get('model')} does not reproduce through the public type-check API: {text}")
    return r


def replay_tc(pid, line):
    log_dir = os.path.join(common.WORK_DIR, pid, "replay")
    os.makedirs(log_dir, exist_ok=True)
    if line[1] == "compat":
        SRC = {"Int": ("int", "1"), "Float": ("float", "1.5"), "Bool": ("bool", "true"), "Str": ("str", '"s"'), "Unit": ("None", "None")}
        an, bn = line[2], line[3]
        src = f"def f() -> {SRC[bn][0]}:\n    let v: {SRC[an][0]} = {SRC[an][1]}\n    return v\n"
        exp = "ACCEPTED" if an == bn else "REJECTED"
        res_n, _ = native_typecheck(src, log_dir, "compat")
        say(f"expected {exp}; checker says {res_n}")
        return any(not l.startswith(exp) for l in res_n.values())
    kind, opn, a, b, shape = line[2], line[3], line[4], line[5], (None if line[6] == "-" else line[6])
    bad, text, _ = check_programs(kind, opn, a, b, shape, log_dir)
    say(text)
    return bad
