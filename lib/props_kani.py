"""Harness tables for the Kani-decided (E1) obligations, per property."""
from kani import Harness as H

RAISE = "incan_stdlib::errors::raise"

C05 = [
    H("c05_list_get_l4", "c05", ["incan_stdlib::collections::list_get"], "list of u8, len <= 4 (all contents); index: every i64",
      "list_get(xs, i) returns the very element Python's xs[i] denotes (by value and by address) iff -len <= i < len, "
      "otherwise raises IndexError through raise(); no other failure (overflow, OOB) is reachable", raises=True),
    H("c05_list_get_mut_l4", "c05", ["incan_stdlib::collections::list_get_mut"], "list of u8, len <= 4; index: every i64",
      "same as list_get for the mutable accessor", raises=True),
    H("c05_list_slice_l4", "c05", ["incan_stdlib::collections::list_slice"],
      "list of u8, len <= 4 (all contents); start, end, step: every Option<i64> (2^195 triples); output Vec replaced by a push log",
      "list_slice(xs, a, b, c) yields exactly the elements of Python's xs[a:b:c] in order; step 0 raises ValueError; "
      "no arithmetic overflow / non-termination for any triple", raises=True, tiers=("quick",)),
    H("c05_list_slice_l6", "c05", ["incan_stdlib::collections::list_slice"],
      "list of u8, len <= 6; start, end, step: every Option<i64>; output Vec replaced by a push log",
      "as c05_list_slice_l4, longer lists", raises=True, tiers=("thorough",)),
    H("c05_list_slice_real_vec_l3", "c05", ["incan_stdlib::collections::list_slice"],
      "list of u8, len <= 3; every Option<i64> triple with a non-zero step; REAL Vec output (validates the push-log stand-in)",
      "as c05_list_slice_l4 with the real output container", raises=False, tiers=("thorough",), timeout_thorough=2400,
      optional_covers={"zero step"}),
    H("c05_range_step", "c05", ["incan_stdlib::iter::range", "<incan_stdlib::iter::PyRange as Iterator>::next"],
      "every (a, b, c) in i64^3 with c != 0; one inductive step from the arbitrary state + exhausted-state stability",
      "next() yields Some(a) iff Python's range(a,b,c) is non-empty; afterwards the state equals range(a+c,b,c), or, when "
      "a+c leaves i64, an exhausted state that stays exhausted; |end-cur| strictly decreases (termination)",
      optional_covers=()),
    H("c05_range_zero_step", "c05", ["incan_stdlib::iter::range"], "every (a, b) in i64^2, step 0",
      "range(a, b, 0) raises ValueError through raise()", raises=True),
]
for k in (0, 1, 2, 3, 4):
    C05.append(H(f"c05_str_char_at_k{k}", "c05", ["incan_core::strings::str_char_at", "incan_core::strings::normalize_index"],
                 f"the {k}-scalar prefix of \"aé€😀\" (1-,2-,3-,4-byte scalars); index: every i64",
                 "str_char_at(s, i) is Ok(the scalar Python's s[i] denotes) iff -len <= i < len, else Err(IndexOutOfRange)",
                 optional_covers=({"most negative valid index", "last scalar by positive index"} if k == 0 else ())))
C05 += [
    H("c05_str_char_at_rev_k4", "c05", ["incan_core::strings::str_char_at"], "\"😀€éa\" (widest scalar first); every i64 index",
      "as c05_str_char_at_k4 with the 4-byte scalar at index 0"),
    H("c05_str_char_at_k6", "c05", ["incan_core::strings::str_char_at"], "\"aé€😀b\\n\" (6 scalars, 12 bytes); every i64 index",
      "as c05_str_char_at_k4, longer string", tiers=("thorough",)),
    H("c05_str_index_k4", "c05", ["incan_stdlib::strings::str_index", "incan_core::strings::str_char_at"],
      "\"aé€😀\"; every i64 index", "runtime wrapper: returns the core's scalar, raises IndexError exactly when the core returns Err",
      raises=True),
    H("c05_str_index_k0", "c05", ["incan_stdlib::strings::str_index"], "empty string; every i64 index",
      "runtime wrapper on the empty string always raises IndexError", raises=True,
      optional_covers={"most negative valid index", "last scalar by positive index"}),
    H("c05_str_index_k6", "c05", ["incan_stdlib::strings::str_index"], "\"aé€😀b\\n\" (ASCII scalars after multi-byte ones); every i64 index",
      "runtime wrapper on a string whose ASCII scalars sit at byte offsets different from their scalar index", raises=True),
    H("c05_str_index_mix", "c05", ["incan_stdlib::strings::str_index"], "\"éa€b\"; every i64 index",
      "runtime wrapper, ASCII and multi-byte scalars interleaved", raises=True),
    H("c05_str_char_at_mix", "c05", ["incan_core::strings::str_char_at"], "\"éa€b\"; every i64 index",
      "core kernel, ASCII and multi-byte scalars interleaved"),
    H("c05_str_slice_wrapper_mix", "c05", ["incan_stdlib::strings::str_slice", "incan_core::strings::str_slice"],
      "\"éa€b\"; every Option<i64> triple; push log", "runtime slice wrapper, interleaved scalars", raises=True),
    H("c05_str_slice_wrapper_k4", "c05", ["incan_stdlib::strings::str_slice", "incan_core::strings::str_slice"],
      "\"aé€😀\"; every Option<i64> triple; output String replaced by a push log",
      "runtime wrapper: Python's s[a:b:c]; step 0 raises ValueError through raise()", raises=True),
    H("c05_str_slice_rev_k4", "c05", ["incan_core::strings::str_slice"], "\"😀€éa\"; every Option<i64> triple; push log",
      "as c05_str_slice_k4 with the widest scalar first"),
    H("c05_str_slice_k6", "c05", ["incan_core::strings::str_slice"], "\"aé€😀b\\n\" (6 scalars); every Option<i64> triple; push log",
      "as c05_str_slice_k4, longer string", tiers=("thorough",)),
]
for k in (0, 1, 2, 3, 4):
    C05.append(H(f"c05_str_slice_k{k}", "c05", ["incan_core::strings::str_slice"],
                 f"the {k}-scalar prefix of \"aé€😀\"; start, end, step: every Option<i64>; output String replaced by a push log",
                 "str_slice(s, a, b, c) is Ok(exactly the scalars of Python's s[a:b:c], in order) iff c != 0, else Err(SliceStepZero); "
                 "no overflow / non-termination for any triple",
                 optional_covers=({"stride-2 slice with two or more scalars"} if k < 3 else set()) |
                                 ({"step i64::MAX yields exactly one scalar", "step i64::MIN yields exactly one scalar"} if k == 0 else set())))

PROPS = {"C05": C05}

# ---- C19 ---------------------------------------------------------------------------------------------------
_C19_FUNCS = ["incan::lsp::diagnostics::offset_to_position", "incan::lsp::diagnostics::position_to_offset"]


_C19_SMALL_OPT = {"offset right after a 4-byte scalar", "after CRLF", "one multi-byte scalar apart",
                  "span starting inside a scalar", "line break between the two offsets"}


def _c19(n, tiers, tq=300, tt=1800, opt=()):
    dom = f"every valid-UTF-8 document of <= {n} bytes (all mixes of 1-4-byte scalars, LF, CR, empty, no final newline)"
    return [
        H(f"c19_roundtrip_n{n}", "c19", _C19_FUNCS, dom + "; every character-boundary offset",
          "position_to_offset(offset_to_position(off)) == Some(off), and line/character equal the count of newlines "
          "before off / scalars since the last newline", optional_covers=opt, tiers=tiers, needs_compiler=True, timeout_quick=tq, timeout_thorough=tt),
        H(f"c19_monotone_n{n}", "c19", _C19_FUNCS[:1], dom + "; every pair of boundary offsets o1 < o2",
          "positions are strictly increasing (lexicographically) in offsets", optional_covers=opt, tiers=tiers, needs_compiler=True,
          timeout_quick=tq, timeout_thorough=tt),
        H(f"c19_position_n{n}", "c19", _C19_FUNCS, dom + "; every Position{line: u32, character: u32}",
          "position_to_offset is None or a character boundary <= len", optional_covers=opt, tiers=tiers, needs_compiler=True,
          timeout_quick=tq, timeout_thorough=tt),
        H(f"c19_span_n{n}", "c19", ["incan::lsp::diagnostics::span_to_range"] + _C19_FUNCS,
          dom + "; every span with start, end < 2^32 (empty, reversed, past the end, mid-scalar)",
          "span_to_range gives start <= end <= end-of-document, both endpoints being positions of offsets inside the document",
          optional_covers=opt, tiers=tiers, needs_compiler=True, timeout_quick=tq, timeout_thorough=tt),
    ]


C19 = (_c19(2, ("quick", "thorough"), opt=_C19_SMALL_OPT) + _c19(6, ("quick",), tq=600) + _c19(8, ("thorough",), tt=2400) + [
    H(f"c19_{fn}_n{n}", "c19", _C19_FUNCS, f"every valid-UTF-8 document of <= {n} bytes",
      f"{fn} obligation on documents of up to {n} bytes", tiers=("thorough",), needs_compiler=True, timeout_thorough=3600)
    for n, fn in ((10, "roundtrip"), (10, "monotone"), (10, "span"), (12, "roundtrip"))])

# ---- C07 ---------------------------------------------------------------------------------------------------
C07 = [
    H("c07_policy_table", "c07", ["incan_core::result_numeric_type", "incan_core::needs_float_promotion"],
      "all 13 NumericOp x {Int,Float}^2 x 5 exponent kinds (260 combinations, chosen by the solver)",
      "result type equals the documented table; promotion marks exactly the Int operands of a Float result", needs_compiler=True),
    H("c07_literal_info", "c07", ["incan_core::PowExponentKind::from_literal_info"], "every (bool, Option<i64>)",
      "Float if the exponent is float, else NonNegative/Negative by the literal's sign, else Variable", needs_compiler=True),
    H("c07_op_adapters", "c07", ["incan::numeric_adapters::numeric_op_from_ast", "incan::numeric_adapters::numeric_op_from_ir"],
      "all 18 surface BinaryOp and all 20 IR BinOp", "each operator maps to the documented NumericOp (None for non-numeric ones), "
      "so checker and backend consult the same table row", needs_compiler=True),
    H("c07_ty_adapters", "c07", ["incan::numeric_adapters::numeric_ty_from_resolved", "incan::numeric_adapters::ir_type_to_numeric_ty"],
      "10 ResolvedType and 12 IrType values (all heap-free variants + boxed samples)", "Some exactly on Int / Float",
      needs_compiler=True),
]
for shape, txt in (("int", "n"), ("neg_int", "-n"), ("paren_int", "(n)"), ("paren_neg_int", "(-n)"), ("paren2_int", "((n))"),
                   ("self", "self"), ("bool", "true"), ("not_int", "not n")):
    C07.append(H(f"c07_pow_ast_{shape}", "c07", ["incan::numeric_adapters::pow_exponent_kind_from_ast",
                                                  "incan::numeric_adapters::extract_int_literal"],
                 f"exponent expression `{txt}`, every literal 0 <= n <= i64::MAX, exponent type Int or Float",
                 "surface exponent classified as documented (so `2 ** (3)` is int and `2 ** -1` is float)", needs_compiler=True))
for shape, txt in (("int", "n"), ("neg_int", "-n"), ("bool", "true"), ("not_int", "not n")):
    C07.append(H(f"c07_pow_ir_{shape}", "c07", ["incan::numeric_adapters::pow_exponent_kind_from_ir"],
                 f"IR exponent `{txt}`, every literal 0 <= n <= i64::MAX, type Int or Float",
                 "IR exponent classified as documented", needs_compiler=True))

# ---- C11 (rendering kernel only) ---------------------------------------------------------------------------
_C11F = ["incan_syntax::diagnostics::format_error", "incan_syntax::diagnostics::get_line_info"]
C11 = [
    H("c11_format_error_n3", "c11", _C11F, "every valid-UTF-8 source of <= 3 bytes; every span with start, end <= 5; all 5 kinds",
      "rendering for the terminal cannot panic (no slice off a char boundary, no underflow/overflow in the caret arithmetic)",
      tiers=(), needs_compiler=True, timeout_quick=600),
    H("c11_format_error_n4", "c11", _C11F, "every valid-UTF-8 source of <= 4 bytes; every span with start, end <= 6; all 5 kinds",
      "as n3", tiers=("quick",), needs_compiler=True, timeout_quick=900, timeout_thorough=1800),
    H("c11_format_error_n6", "c11", _C11F, "every valid-UTF-8 source of <= 6 bytes; every span with start, end <= 8",
      "as n3", tiers=("quick", "thorough"), needs_compiler=True, timeout_quick=900, timeout_thorough=3600),
    H("c11_format_error_n8", "c11", _C11F, "every valid-UTF-8 source of <= 8 bytes; every span with start, end <= 10",
      "as n3", tiers=("thorough",), needs_compiler=True, timeout_thorough=3600),
    H("c11_format_error_n10", "c11", _C11F, "every valid-UTF-8 source of <= 10 bytes; every span with start, end <= 12",
      "as n3", tiers=("thorough",), needs_compiler=True, timeout_thorough=3600),
]

# ---- C14 (export filter only) ------------------------------------------------------------------------------
C14 = [
    H(f"c14_export_{kind}", "c14", ["incan::frontend::module::exported_symbols"],
      f"a module with one `{kind}` declaration ({extra}); visibility chosen by the solver, concrete names",
      "the declaration is exported iff it is `pub`, under the right kind and name (enum variants only with a pub enum; "
      "imports and docstrings never)", needs_compiler=True, timeout_quick=600)
    for kind, extra in (("const", "no type annotation"), ("model", "no fields"), ("class", "no fields"), ("trait", "no methods"),
                        ("enum", "two variants"), ("newtype", "over unit"), ("function", "no parameters"),
                        ("import", "one-segment module path"), ("docstring", "one-letter text"))
]

# the editor half of C11 ("rendering it for the editor never fails", ranges well-formed) is the span obligation of C19
C11 += [h for h in C19 if h.name in ("c19_span_n6", "c19_span_n8")]

C19.insert(0, H("c19_utf8_validator_matches_std_n4", "c19", ["(harness) valid_utf8 vs core::str::from_utf8"],
                 "every byte string of <= 4 bytes", "the byte-wise UTF-8 validator the harnesses assume documents by agrees with "
                 "core::str::from_utf8 (so `assume(valid_utf8)` + from_utf8_unchecked is exactly `from_utf8(..).is_ok()`)",
                 needs_compiler=True))
C11.append(C19[0])

# ---- C13 (keyword table kernel) ---------------------------------------------------------------------------------
C13 = [
    H(f"c13_keyword_table_len{n}", "c13", ["incan_core::lang::rust_keywords::is_keyword"],
      f"every identifier-shaped name ([A-Za-z0-9_]) of exactly {n} bytes",
      "every Rust 2021 strict/reserved keyword that can be a raw identifier (oracle: the Rust Reference lists, typed into the "
      "harness) is recognised as needing `r#`, and `self`/`Self`/`_` (which cannot be raw) never are",
      optional_covers=({"a keyword of this length"} if n in () else ()))
    for n in range(2, 9)
]

PROPS.update({"C19": C19, "C07": C07, "C11": C11, "C14": C14, "C13": C13})
# C02 (accepted => code generation succeeds): an identifier the keyword table misses is emitted bare and the generator's own syn re-parse fails - the
# keyword-table harnesses of C13 for the short lengths are part of C02's kernel too
PROPS["C02"] = [h for h in C13 if h.name in ("c13_keyword_table_len2", "c13_keyword_table_len3", "c13_keyword_table_len4", "c13_keyword_table_len5", "c13_keyword_table_len6", "c13_keyword_table_len8")]
