"""E2-X slices of `AstLowering::lower_statement` (C01): control-flow statements. The arm for `if / elif / else` is executed
from its first block with the statement symbolic: the elif list is a symbolic sequence of every length up to the bound, the
lowering of conditions and bodies is summarised by ARBITRARY results tagged with the piece of source they were called on, and
the obligation is that the IR nests the branches in SOURCE order: the first condition outermost, each `elif` in the else
position of the one before it, the `else` body innermost - and that every body is lowered inside its own scope."""
import os
import re
import time

import common
from common import Inconclusive
import mirx
import solver
import symex
from symex import Adt, Sym, conj, disj

SEQ_BOUND = {"quick": 3, "thorough": 5}


def build(pid, P, R, tier, log_dir):
    import mirx_props as mp
    obs = []
    if pid == "C01":
        obs.append(mp.XOb("X-lower_if", "", "", lambda: run_if(P, R, mp, log_dir, SEQ_BOUND.get(tier, 3))))
        obs.append(mp.XOb("E-emit-stmt", "", "", lambda: run_emit_stmt(P, R, mp, log_dir, SEQ_BOUND.get(tier, 3))))
        obs.append(mp.XOb("X-lower_assign", "", "", lambda: run_assign(P, R, mp, log_dir, SEQ_BOUND.get(tier, 3))))
        obs.append(mp.XOb("X-lower_stmts", "", "", lambda: run_simple_arms(P, R, mp, log_dir)))
        obs.append(mp.XOb("E-emit-exprs", "", "", lambda: run_emit_exprs(P, R, mp, log_dir, SEQ_BOUND.get(tier, 3))))
        obs.append(mp.XOb("E-emit-call-args", "", "", lambda: run_call_args(P, R, mp, log_dir, 3 if tier == "quick" else 4)))
        obs.append(mp.XOb("X-lower_match", "", "", lambda: run_lower_match(P, R, mp, log_dir, 3 if tier == "quick" else 4)))
        obs.append(mp.XOb("E-emit-match", "", "", lambda: run_emit_match(P, R, mp, log_dir, 3 if tier == "quick" else 4)))
    return obs


# ---- match: arms keep their order, and pattern / guard / body their roles, through lowering and emission -------------------------
def run_lower_match(P, R, mp, log_dir, bound):
    import tc_props
    t0 = time.time()
    f = tc_props.find_fn(P, "lower_match_arms")
    ex = mirx.make_executor(P, R, max_paths=2000000)
    ex.opaque_calls = mirx.slice_opaque
    ex.model_sequences = True
    ex.seq_bound = bound
    ex.recursion_bound = 1
    ex.max_steps = 3000
    ex.tolerate_unsupported = True
    ex.summarize = tc_props.SUMMARIZE + [r"::lower_expr$", r"::lower_expr_spanned$", r"::lower_statements$", r"::lower_pattern$", r"IrSpan as .*Default>::default$"]
    selfv = ex.sym_value("AstLowering", "self")
    arms = ex.sym_value("&[incan_syntax::ast::Spanned<incan_syntax::ast::MatchArm>]", "arms")
    outs = ex.run(f, [selfv, arms])
    an = struct_fields(R, "incan_syntax::ast::MatchArm")
    bvars = mp.variants(R, "incan_syntax::ast::MatchBody")
    bad, n_ok, classes, shapes = [], 0, {}, []
    for o in outs:
        if o.kind == "unsupported":
            bad.append((conj(o.pc), f"unsupported MIR: {o.info}"))
            continue
        if o.kind != "return":
            bad.append((conj(o.pc), f"panic: {o.info}"))
            continue
        v = ex.deref(o.value, o.state)
        if isinstance(v, Adt) and v.variant == "Err":
            continue
        n = o.state.facts.get("len:" + arms.name)
        back = {}
        for e in o.events:
            if e[0].endswith(("lower_expr", "lower_statements", "lower_pattern")) and len(e[1]) >= 2:
                m = re.match(r"^sym<([^:>]+):", e[1][1])
                if m:
                    back[e[2]] = m.group(1)
        got = subst_lowerings(tree(v, ex, o.state), back)
        # lower_pattern is infallible: its result is the event value itself, not an Ok payload
        def unp(t):
            if isinstance(t, tuple):
                return tuple(unp(x) for x in t)
            if isinstance(t, str) and t in back:
                return f"L({back[t]})"
            return t
        got = unp(got)
        want_arms = []
        okp = n is not None
        for j in range(n or 0):
            node = mirx.seq_elem(ex, arms, j).child(None, 0)
            pat = node.child(None, an.index("pattern")).child(None, 0).name
            g = node.child(None, an.index("guard"))
            fg = o.state.facts.get(g.tag().term) if g._tag is not None else None
            b = node.child(None, an.index("body"))
            fb = o.state.facts.get(b.tag().term) if b._tag is not None else None
            if not (fg and fg[0] == "eq" and fb and fb[0] == "eq"):
                okp = False
                break
            guard = ("Some", f"L({g.child('Some', 0).child(None, 0).name})") if fg[1] == 1 else "None"
            if bvars[fb[1]] == "Expr":
                body = f"L({b.child('Expr', 0).child(None, 0).name})"
            else:
                body = ("TypedExpr", None, ("IrExprKind", "Block", f"L({b.child('Block', 0).name})", "None"))
            want_arms.append(("MatchArm", None, f"L({pat})", guard, body))
        n_ok += 1
        classes[f"{n} arms"] = classes.get(f"{n} arms", 0) + 1
        text = str(got)
        if len(shapes) < 3 and n == 1:
            shapes.append(text[:400])
        if not okp:
            bad.append((conj(o.pc), f"an arm's guard / body kind is never examined: {text[:200]}"))
            continue
        # compare arm by arm on (pattern, guard, body-source): the block body's TypedExpr carries type / span fields we do not pin
        ok = isinstance(got, tuple) and got[0] == "Ok" and isinstance(got[1], tuple) and got[1][0] == "Vec" and len(got[1]) - 1 == len(want_arms)
        if ok:
            for ga, wa in zip(got[1][1:], want_arms):
                gs = str(ga)
                ok = ok and ga[0] == "MatchArm" and ga[2] == wa[2] and ga[3] == wa[3]
                if isinstance(wa[4], str):
                    ok = ok and ga[4] == wa[4]
                else:
                    ok = ok and "'Block'" in gs and wa[4][2][2] in gs
        if not ok:
            bad.append((conj(o.pc), f"{n} arms: lowering builds {text[:300]}, the source says {str(want_arms)[:300]}"))
    r = {"id": "X-lower_match", "engine": "E2-X mirsmt",
         "statement": "lowering of match arms: the IR arms are the source arms in order; each arm's pattern is the lowering of ITS pattern, its guard the "
                      "lowering of its guard (None when absent), its body the lowering of its expression or a block of its lowered statements",
         "bound": f"AstLowering::lower_match_arms: 0..={bound} arms, each with / without guard, expression or block body; sub-lowerings summarised by arbitrary results",
         "encoding": "arm list as a symbolic sequence; results as constructed values", "functions_encoded": [n_ + " (MIR)" for n_ in ex.encoded],
         "paths": len(outs), "compositions": classes, "shapes": shapes}
    r["wall_s"] = round(time.time() - t0, 2)
    if len(classes) < bound + 1:
        first = next((w for b, w in bad if b != "false"), "-")
        return native_match(r, f"not every arm count was reached ({classes}); first problem: {first[:300]}", log_dir)
    r["vacuity_ok"] = True
    live = [(b, w) for b, w in bad if b != "false"]
    for b, w in live:
        if solver.check(mp.smt_lines(ex, [b]), [], "z3", 60).status != "unsat":
            return native_match(r, w, log_dir)
    r.update(status="held", solver=f"{n_ok} Ok paths match" + (f"; {len(live)} deviating paths infeasible (z3 unsat)" if live else " (syntactic)"))
    return r


def run_emit_match(P, R, mp, log_dir, bound):
    import emit_props
    t0 = time.time()
    sites = []
    fs = [v for k, v in P.fns.items() if re.search(r"(^|::)statements::<impl at [^>]*>::emit_stmt$", k)]
    fe = [v for k, v in P.fns.items() if re.search(r"expressions::<impl at [^>]*>::emit_expr$", k)]
    if len(fs) != 1 or len(fe) != 1:
        raise Inconclusive("emit_stmt / emit_expr not found (or ambiguous) in the MIR dump")
    sites = [("statement", fs[0], "IrStmt", "IrStmtKind"), ("expression", fe[0], "TypedExpr", "IrExprKind")]
    man = struct_fields(R, "MatchArm") if R.resolve("MatchArm") is not None else None
    if man is None:
        raise Inconclusive("IR MatchArm not found in the sources")
    bad_all, n_ok, classes, shapes, encoded, paths = [], 0, {}, [], [], 0
    exs = []
    for site, f, vty, kty in sites:
        ex = emit_props.atom_executor(P, R)
        ex.model_sequences = True
        ex.seq_bound = bound
        ex.tolerate_unsupported = True
        ex.max_steps = 3000
        ex.summarize = [r"::emit_pattern$"]

        def emit_stmt_atom(ex_, callee, args, st):
            e = ex_.deref(args[1], st)
            return [("return", Adt("Result", "Ok", [symex.Tokens(["@" + e.name])]), None, st)]
        ex.state_intrinsics[r"::emit_stmt$"] = emit_stmt_atom
        selfv = ex.sym_value("IrEmitter", "self")
        val = ex.sym_value(vty, "m")
        kind = val.child(None, struct_fields(R, vty).index("kind"))
        kvars = mp.variants(R, kty)
        st0 = symex.State()
        k = kvars.index("Match")
        st0.facts[kind.tag().term] = ("eq", k)
        st0.pc.append(f"(= {kind.tag().term} {k})")
        outs = ex.run(f, [selfv, val], state=st0)
        encoded += ex.encoded
        paths += len(outs)
        td = R.resolve(kty)
        mf = [x[0] for x in [v for v in td.variants if v[0] == "Match"][0][1]]
        scrut = kind.child("Match", mf.index("scrutinee"))
        arms = kind.child("Match", mf.index("arms"))
        lbad = []
        for o in outs:
            if o.kind == "unsupported":
                lbad.append((conj(o.pc), f"{site}: unsupported MIR: {o.info}"))
                continue
            if o.kind != "return":
                lbad.append((conj(o.pc), f"{site}: panic: {o.info}"))
                continue
            toks = emit_props.tokens_of(ex, o)
            n = o.state.facts.get("len:" + arms.name)
            if toks is None or n is None:
                lbad.append((conj(o.pc), f"{site}: no tokens / arms never walked"))
                continue
            pat_ev = {}
            for e in o.events:
                if e[0].endswith("emit_pattern"):
                    m = re.search(re.escape(arms.name) + r"\.e(\d+)\b", e[1][1])
                    if m:
                        pat_ev[int(m.group(1))] = e[2]
            want = ["match", "@" + scrut.name, "{"]
            okp = True
            for j in range(n):
                a = mirx.seq_elem(ex, arms, j)
                g = a.child(None, man.index("guard"))
                fg = o.state.facts.get(g.tag().term) if g._tag is not None else None
                if j not in pat_ev or not (fg and fg[0] == "eq"):
                    okp = False
                    break
                if j:
                    want.append(",")
                want.append(f"<tokens of sym<{pat_ev[j]}:TokenStream>>")
                if fg[1] == 1:
                    want += ["if", "@" + g.child("Some", 0).name]
                want += ["=>", "@" + a.child(None, man.index("body")).name]
            want.append("}")
            n_ok += 1
            key = f"{site}, {n} arms"
            classes[key] = classes.get(key, 0) + 1
            if len(shapes) < 4 and n == 2 and classes[key] <= 1:
                shapes.append(f"{site}: {' '.join(toks)}"[:300])
            if not okp or toks != want:
                lbad.append((conj(o.pc), f"{site}, {n} arms: emitted `{' '.join(toks)[:260]}`, documented `{' '.join(want)[:260]}`"))
        exs.append((site, ex, lbad))
    r = {"id": "E-emit-match", "engine": "E2-X mirsmt",
         "statement": "emission of `match` (statement and expression form): `match s { P0 => B0 , P1 if G1 => B1 , .. }` - arms in IR order, each arm's own "
                      "pattern, guard (only when present) and body, in that order",
         "bound": f"the Match arms of IrEmitter::emit_stmt and emit_expr; 0..={bound} arms, each with / without guard; patterns (emit_pattern), scrutinee, "
                  "guards and bodies are atoms",
         "encoding": "arm list as a symbolic sequence; quote! expansions (incl. #(..),* repetition) as token pushes",
         "functions_encoded": sorted(set(n_ + " (MIR)" for n_ in encoded)), "paths": paths, "compositions": classes, "samples_tokens": shapes}
    r["wall_s"] = round(time.time() - t0, 2)
    if len(classes) < 2 * (bound + 1):
        first = next((w for _, _, lb in exs for b, w in lb if b != "false"), "-")
        return native_match(r, f"not every arm count was reached ({classes}); first problem: {first[:300]}", log_dir)
    r["vacuity_ok"] = True
    nbad = 0
    for site, ex, lbad in exs:
        for b, w in lbad:
            if b == "false":
                continue
            nbad += 1
            if solver.check(mp.smt_lines(ex, [b]), [], "z3", 60).status != "unsat":
                return native_match(r, w, log_dir)
    r.update(status="held", solver=f"{n_ok} token sequences equal the documented ones" + (f"; {nbad} deviating paths infeasible (z3 unsat)" if nbad else " (syntactic)"))
    return r


MATCH_PROGRAM = '''enum Shape:
    Circle(int)
    Square(int)
    Dot

def area(s: Shape, big: bool) -> int:
    match s:
        case Circle(r) if big:
            return r * r * 300
        case Circle(r):
            return r * r * 3
        case Square(w):
            return w * w
        case _:
            return 0
'''


def native_match(r, why, log_dir):
    import kani
    os.makedirs(log_dir, exist_ok=True)
    path = os.path.join(log_dir, "match_replay.incn")
    texts, broken = [], False
    progs = [MATCH_PROGRAM]
    for prof in ("dev", "release"):
        binp = kani.build_replay(prof, True, log_dir)
        out = ""
        for pr in progs:
            with open(path, "w") as fh:
                fh.write(pr)
            rc, out, _, to = common.run([binp, "emitrust", path], timeout=120)
            if "RUST-END" in out:
                break
        src = re.sub(r"\s+", "", out)
        seq = ["matchs{", "Circle(r)ifbig=>", "300", "Circle(r)=>", "*3", "Square(w)=>", "w*w", "_=>"]
        pos, cur = [], 0
        for w in seq:
            j = src.find(w, cur)
            pos.append(j)
            if j >= 0:
                cur = j
        if "RUST-END" not in out or -1 in pos:
            broken = True
            texts.append(f"[{prof}] the emitted match does not contain, in this order, {[w for w, j in zip(seq, pos) if j < 0][:3]}: ...{out.strip()[-300:]}")
    text = "; ".join(texts) or "the match program is emitted with its arms in source order, guards and bodies on their own arms"
    r["native"] = text
    if broken:
        os.makedirs(os.path.join(common.REPLAYS_DIR, "MIRX"), exist_ok=True)
        rp = os.path.join(common.REPLAYS_DIR, "MIRX", r["id"] + ".replay")
        with open(rp, "w") as fh:
            fh.write(f"mirx match\n# {r['statement']}\n# solver: {why[:400]}\n# native: {text}\n")
        r.update(status="violated", replay=rp, counterexample={"path": why[:500], "native": text})
    else:
        r.update(status="inconclusive", reason=f"a feasible path deviates ({why[:300]}) but the match program is emitted as documented")
    return r


# ---- which argument expression ends up in which slot of an emitted call ----------------------------------------------------------
def run_call_args(P, R, mp, log_dir, bound):
    import emit_props
    t0 = time.time()
    fs = [v for k, v in P.fns.items() if k.endswith("::emit_call_expr") and "{closure" not in k]
    if len(fs) != 1:
        raise Inconclusive("IrEmitter::emit_call_expr not found (or ambiguous) in the MIR dump")
    f = fs[0]
    ex = emit_props.atom_executor(P, R)
    ex.model_sequences = True
    ex.model_vecs = True
    ex.model_maps = True
    ex.opaque_enum_closures = True     # how each argument is converted / borrowed is not the subject: one event per slot
    ex.max_steps = 4000
    ex.seq_bound = bound
    ex.recursion_bound = 1
    ex.tolerate_unsupported = True
    ex.summarize = [r"try_emit_builtin_call$", r"FunctionRegistry::get$", r"determine_conversion$", r"Conversion::apply$", r"::apply$", r"::is_copy$",
                    r"RefCell<.*>::borrow$", r"HashSet::<.*>::contains", r"as (std::clone::)?Clone>::clone$", r"Ref<.*> as .*Deref>::deref$"]
    selfv = ex.sym_value("IrEmitter", "self")
    func = ex.sym_value("TypedExpr", "func")
    args = ex.sym_value("&[IrCallArg]", "args")
    outs = ex.run(f, [selfv, func, args])
    an = struct_fields(R, "IrCallArg")
    pn = struct_fields(R, "FunctionParam")
    sn = struct_fields(R, "FunctionSignature")
    bad, n_ok, classes, shapes = [], 0, {}, []
    for o in outs:
        if o.kind == "unsupported":
            bad.append((conj(o.pc), f"unsupported MIR: {o.info}"))
            continue
        if o.kind != "return":
            bad.append((conj(o.pc), f"panic: {o.info}"))
            continue
        toks = emit_props.tokens_of(ex, o)
        if toks is None:
            continue        # error return of a sub-emission, or the builtin path took over
        n = o.state.facts.get("len:" + args.name)
        if n is None:
            if any(e[0].endswith("try_emit_builtin_call") for e in o.events) and not toks[:1] == ["@" + func.name]:
                continue    # emitted by the builtin path
            bad.append((conj(o.pc), f"the argument list is never examined: {' '.join(toks)}"))
            continue
        # which argument expression sits in each slot: through the conversion events back to the atom
        conv = {}
        for e in o.events:
            if "{closure#" in e[0] and len(e[1]) >= 2:
                conv[e[2]] = e[1][1]
        if toks[0] != "@" + func.name or toks[1] != "(" or toks[-1] != ")":
            bad.append((conj(o.pc), f"not a call of the callee: {' '.join(toks)}"))
            continue
        slots, cur = [], []
        for t in toks[2:-1] + [","]:
            if t == ",":
                if cur:
                    slots.append(cur)
                cur = []
            else:
                cur.append(t)
        order, okslots = [], True
        for sl in slots:
            text = " ".join(sl)
            m = re.search(r"@" + re.escape(args.name) + r"\.e(\d+)\." + str(an.index("expr")) + r"\b", text)
            if not m:
                mm = re.search(r"<tokens of sym<(ev\d+)", text)
                if mm and mm.group(1) in conv:
                    m = re.search(r"\b" + re.escape(args.name) + r"\.e(\d+)\." + str(an.index("expr")) + r"\b", conv[mm.group(1)])
            if not m:
                okslots = False
                break
            order.append(int(m.group(1)))
        if not okslots:
            bad.append((conj(o.pc), f"an argument slot does not hold the emission of an argument: {' '.join(toks)[:200]}"))
            continue
        named = []
        for i in range(n):
            nm = mirx.seq_elem(ex, args, i).child(None, an.index("name"))
            fo = o.state.facts.get(nm.tag().term) if nm._tag is not None else None
            named.append(None if fo is None else (fo[0] == "eq" and fo[1] == 1))
        n_ok += 1
        has_named = any(x for x in named if x)
        # is a signature in play?  (FunctionRegistry::get answered Some on this path)
        sig_ev = next((e[2] for e in o.events if e[0].endswith("FunctionRegistry::get")), None)
        sig_some = sig_ev is not None and o.state.facts.get(f"{sig_ev}!tag") == ("eq", 1)
        if not has_named or not sig_some:
            key = "as written"
            classes[key] = classes.get(key, 0) + 1
            if order != list(range(n)):
                bad.append((conj(o.pc), f"{n} arguments without keywords are emitted in the order {order}"))
            continue
        if any(x is None for x in named):
            bad.append((conj(o.pc), "keyword call: an argument's name is never looked at"))
            continue
        pos = [i for i in range(n) if not named[i]]
        kw = [i for i in range(n) if named[i]]
        key = f"{len(pos)} positional + {len(kw)} keyword"
        classes[key] = classes.get(key, 0) + 1
        if len(shapes) < 8 and classes[key] <= 2:
            shapes.append(f"{key}: slots hold arguments {order}")
        # parameters of the signature
        sig = None
        for e in o.events:
            if e[0].endswith("FunctionRegistry::get"):
                sig = e[2]
        m_ = o.state.facts.get(f"len:{sig}.Some.0.{sn.index('params')}")
        if m_ is None:
            bad.append((conj(o.pc), "keyword call: the parameter list is never walked"))
            continue
        psid = [f"sid!{sig}.Some.0.{sn.index('params')}.e{j}.{pn.index('name')}" for j in range(m_)]
        asid = {i: f"sid!{args.name}.e{i}.{an.index('name')}.Some.0" for i in kw}
        declared = {d.split()[1] for d in ex.enc.decls}
        for t in psid + list(asid.values()):
            if t not in declared:
                ex.enc.decls.append(f"(declare-const {t} Int)")
                declared.add(t)
        k = len(pos)
        # what the checker guarantees about an accepted keyword call
        pre = [f"(distinct {' '.join(psid)})"] if len(psid) > 1 else []
        if len(kw) > 1:
            pre.append(f"(distinct {' '.join(asid[i] for i in kw)})")
        for i in kw:
            pre.append(disj([f"(= {asid[i]} {psid[j]})" for j in range(k, m_)]) if m_ > k else "false")
        if k > m_:
            pre.append("false")
        # documented binding: positionals fill the first k parameters in order, keywords the rest by name -> slots in parameter order
        if order[:k] != pos or sorted(order[k:]) != kw:
            bad.append((conj(o.pc + pre), f"{key}: slots hold arguments {order}; positionals {pos} must come first, then each keyword argument once"))
            continue
        rest = order[k:]
        good = []
        for a_, b_ in zip(rest, rest[1:]):
            good.append(disj([f"(and (= {asid[a_]} {psid[j]}) (= {asid[b_]} {psid[j2]}))" for j in range(k, m_) for j2 in range(j + 1, m_)]))
        if good:
            bad.append((conj(o.pc + pre + [symex.neg(conj(good))]),
                        f"{key}: keyword arguments are passed in the order {rest} although their names select the parameters in another order"))
    r = {"id": "E-emit-call-args", "engine": "E2-X mirsmt",
         "statement": "a call `f(a0, .., name=ak, ..)` of a function with a known signature passes each argument in the slot of the parameter it binds "
                      "to: positional arguments first, in order, then the keyword arguments in PARAMETER order (by name); calls without keywords "
                      "(or without a signature) pass the arguments as written",
         "bound": f"IrEmitter::emit_call_expr: 0..={bound} arguments x 0..={bound} parameters, every split into positional / keyword, names "
                  "symbolic (equality of names = equality of symbolic ids); precondition (what the checker accepts): parameter names distinct, "
                  "keyword names distinct, each keyword names a parameter after the positional ones; how each argument is converted / borrowed is not "
                  "part of this obligation (conversions are uninterpreted)",
         "encoding": "argument and parameter lists as symbolic sequences; the name -> argument HashMap as an insertion-ordered list with symbolic key "
                     "equality; quote! repetition as token pushes", "functions_encoded": [n_ + " (MIR)" for n_ in ex.encoded], "paths": len(outs),
         "compositions": classes, "shapes": shapes}
    r["wall_s"] = round(time.time() - t0, 2)
    need = [c for c in classes if "keyword" in c and not c.endswith("+ 0 keyword")]
    if len(need) < 3 or "as written" not in classes:
        first = next((w for b, w in bad if b != "false"), "-")
        return native_call_args(r, f"keyword calls were not reached ({sorted(classes)}); first problem: {first[:300]}", log_dir)
    r["vacuity_ok"] = True
    live = [(b, w) for b, w in bad if b != "false"]
    nbad, queries = len(live), 0
    # chunks of deviation queries as one disjunction each; a chunk that is not unsat is taken apart
    for k in range(0, len(live), 40):
        chunk = live[k:k + 40]
        res_ = solver.check(mp.smt_lines(ex, [disj([b for b, _ in chunk])]), [], "z3", 120)
        queries += 1
        if res_.status == "unsat":
            continue
        for b, w in chunk:
            res_ = solver.check(mp.smt_lines(ex, [b]), [], "z3", 60)
            queries += 1
            if res_.status != "unsat":
                r["queries"] = queries
                return native_call_args(r, w, log_dir)
    r["queries"] = queries
    r.update(status="held", solver=f"{n_ok} emitted calls; {nbad} ordering / deviation conditions, all unsat (z3, {queries} queries)")
    r["wall_s"] = round(time.time() - t0, 2)
    return r


CALL_PROGRAM = '''def combine(a: int, b: int, c: int) -> int:
    return a * 100 + b * 10 + c

def main() -> None:
    print(combine(1, 2, 3))
    print(combine(1, c=3, b=2))
    print(combine(c=3, a=1, b=2))
    print(combine(b=2, c=3, a=1))
    print(combine(1, 2, c=3))
'''


def native_call_args(r, why, log_dir):
    import kani
    os.makedirs(log_dir, exist_ok=True)
    path = os.path.join(log_dir, "call_replay.incn")
    with open(path, "w") as fh:
        fh.write(CALL_PROGRAM)
    texts, broken = [], False
    for prof in ("dev", "release"):
        binp = kani.build_replay(prof, True, log_dir)
        rc, out, _, to = common.run([binp, "emitrust", path], timeout=120)
        src = re.sub(r"\s+", "", out)
        n = src.count("combine(1,2,3)")
        if rc != 0 or n != 5:
            broken = True
            calls = re.findall(r"combine\([^)]*\)", src)
            texts.append(f"[{prof}] the five calls should all be emitted as combine(1, 2, 3); emitted: {calls[1:] if calls else out.strip()[-200:]}")
    text = "; ".join(texts) or "positional and keyword calls are all emitted as combine(1, 2, 3)"
    r["native"] = text
    if broken:
        os.makedirs(os.path.join(common.REPLAYS_DIR, "MIRX"), exist_ok=True)
        rp = os.path.join(common.REPLAYS_DIR, "MIRX", r["id"] + ".replay")
        with open(rp, "w") as fh:
            fh.write(f"mirx callargs\n# {r['statement']}\n# solver: {why[:400]}\n# native: {text}\n")
        r.update(status="violated", replay=rp, counterexample={"path": why[:500], "native": text})
    else:
        r.update(status="inconclusive", reason=f"a feasible path deviates ({why[:300]}) but the keyword-call program is emitted as documented")
    return r


# ---- emission of collection literals and expression-level control flow -------------------------------------------------------
def sep(atoms, s=","):
    out = []
    for k, a in enumerate(atoms):
        if k:
            out.append(s)
        out += a if isinstance(a, list) else [a]
    return out


def run_emit_exprs(P, R, mp, log_dir, bound):
    import emit_props
    t0 = time.time()
    fs = [v for k, v in P.fns.items() if re.search(r"expressions::<impl at [^>]*>::emit_expr$", k)]
    if len(fs) != 1:
        raise Inconclusive("IrEmitter::emit_expr not found (or ambiguous) in the MIR dump")
    f = fs[0]
    kvars = mp.variants(R, "IrExprKind")
    td = R.resolve("IrExprKind")

    def fidx(variant, name):
        for vn, fields in td.variants:
            if vn == variant:
                names = [x[0] for x in fields]
                return names.index(name) if name in names else int(name)
        raise Inconclusive(f"IrExprKind::{variant} not found")
    i_kind = [x[0] for x in R.resolve("TypedExpr").variants[0][1]].index("kind")
    arms = [a for a in ("List", "Tuple", "Set", "Dict", "If", "Block", "Await", "Try", "Unit", "Bool") if a in kvars]
    exs, per_arm, shapes, encoded, paths, n_ok = [], {}, [], [], 0, 0
    for arm in arms:
        ex = emit_props.atom_executor(P, R)
        ex.model_sequences = True
        ex.seq_bound = bound
        ex.tolerate_unsupported = True

        def emit_stmt_atom(ex_, callee, args, st):
            e = ex_.deref(args[1], st)
            return [("return", Adt("Result", "Ok", [symex.Tokens(["@" + e.name])]), None, st)]
        ex.state_intrinsics[r"::emit_stmt$"] = emit_stmt_atom
        selfv = ex.sym_value("IrEmitter", "self")
        e = ex.sym_value("TypedExpr", "e")
        kind = e.child(None, i_kind)
        st0 = symex.State()
        k = kvars.index(arm)
        st0.facts[kind.tag().term] = ("eq", k)
        st0.pc.append(f"(= {kind.tag().term} {k})")
        outs = ex.run(f, [selfv, e], state=st0)
        encoded += ex.encoded
        paths += len(outs)

        def ln(seq, o):
            return o.state.facts.get("len:" + seq.name)

        def atoms(seq, n):
            return [f"@{seq.name}.e{j}" for j in range(n)]

        def want(o):
            if arm in ("List", "Tuple", "Set"):
                seq = kind.child(arm, 0)
                n = ln(seq, o)
                if n is None:
                    return None
                if arm == "List":
                    return ["vec", "!", "["] + sep(atoms(seq, n)) + ["]"]
                if arm == "Tuple":
                    return ["("] + sep(atoms(seq, n)) + [")"]
                if n == 0:
                    return ["HashSet", "::", "new", "(", ")"]
                return ["["] + sep(atoms(seq, n)) + ["]", ".", "into_iter", "(", ")", ".", "collect", "::", "<", "HashSet", "<", "_", ">>", "(", ")"]
            if arm == "Dict":
                seq = kind.child("Dict", 0)
                n = ln(seq, o)
                if n is None:
                    return None
                if n == 0:
                    return ["HashMap", "::", "new", "(", ")"]
                pairs = [["(", f"@{seq.name}.e{j}.0", ",", f"@{seq.name}.e{j}.1", ")"] for j in range(n)]
                return (["["] + sep(pairs) + ["]", ".", "into_iter", "(", ")", ".", "collect", "::", "<", "HashMap", "<", "_", ",", "_", ">>", "(", ")"])
            if arm == "If":
                c, t, el = (kind.child("If", fidx("If", nm)) for nm in ("condition", "then_branch", "else_branch"))
                fo = o.state.facts.get(el.tag().term)
                toks = ["if", "@" + c.name, "{", "@" + t.name, "}"]
                if fo and fo[0] == "eq" and fo[1] == 1:
                    return toks + ["else", "{", "@" + el.child("Some", 0).name, "}"]
                if fo and fo[0] == "eq" and fo[1] == 0:
                    return toks
                return None
            if arm == "Block":
                stmts, val = kind.child("Block", fidx("Block", "stmts")), kind.child("Block", fidx("Block", "value"))
                n = ln(stmts, o)
                fo = o.state.facts.get(val.tag().term)
                if n is None or not fo or fo[0] != "eq":
                    return None
                return ["{"] + atoms(stmts, n) + (["@" + val.child("Some", 0).name] if fo[1] == 1 else []) + ["}"]
            if arm == "Await":
                return ["@" + kind.child("Await", 0).name, ".", "await"]
            if arm == "Try":
                return ["@" + kind.child("Try", 0).name, "?"]
            if arm == "Unit":
                return ["(", ")"]
            if arm == "Bool":
                b = kind.child("Bool", 0).term
                return ("ite", b, ["true"], ["false"])
            return None
        lbad = []
        for o in outs:
            if o.kind == "unsupported":
                lbad.append((conj(o.pc), f"{arm}: unsupported MIR: {o.info}"))
                continue
            if o.kind != "return":
                lbad.append((conj(o.pc), f"{arm}: panic: {o.info}"))
                continue
            toks = emit_props.tokens_of(ex, o)
            if toks is None:
                lbad.append((conj(o.pc), f"{arm}: no tokens returned ({mirx.show(o.value, ex, o.state)[:120]})"))
                continue
            w = want(o)
            if w is None:
                lbad.append((conj(o.pc), f"{arm}: the expression's parts were not all visited: emitted {' '.join(toks)}"))
                continue
            n_ok += 1
            per_arm[arm] = per_arm.get(arm, 0) + 1
            if per_arm[arm] <= 2 or (arm == "Dict" and per_arm[arm] <= 3):
                shapes.append(f"{arm}: {' '.join(toks)}"[:300])
            if isinstance(w, tuple):
                _, c, a, b = w
                if toks == a:
                    lbad.append((conj(o.pc + [symex.neg(c)]), f"{arm}: emitted `{' '.join(toks)}` for the other value"))
                elif toks == b:
                    lbad.append((conj(o.pc + [c]), f"{arm}: emitted `{' '.join(toks)}` for the other value"))
                else:
                    lbad.append((conj(o.pc), f"{arm}: emitted `{' '.join(toks)}`"))
            elif toks != w:
                lbad.append((conj(o.pc), f"{arm}: emitted `{' '.join(toks)}`, documented `{' '.join(w)}`"))
        exs.append((arm, ex, lbad))
    r = {"id": "E-emit-exprs", "engine": "E2-X mirsmt",
         "statement": "emission of collection literals and expression-level control flow: `[a, b, ..]` -> vec![a, b, ..]; tuples; sets; dict literals "
                      "as [(k0, v0), (k1, v1), ..] collected into a HashMap (each key next to ITS value, pairs in source order; empty -> "
                      "HashMap::new()); `if c { t } else { e }` expressions; blocks (statements in order, then the value); `.await`; `?`; unit; booleans",
         "bound": f"IrEmitter::emit_expr, arms {', '.join(arms)}; element / pair / statement lists of 0..={bound}; sub-expressions and statements are "
                  "atoms (their emission always succeeds)",
         "encoding": "IR expression as a symbolic ADT, element lists as symbolic sequences, quote! expansions (incl. #(..),* repetition) as token pushes",
         "functions_encoded": sorted(set(n + " (MIR)" for n in encoded)), "paths": paths, "samples_tokens": shapes, "compositions": per_arm}
    r["wall_s"] = round(time.time() - t0, 2)
    first = next((w for _, _, lb in exs for b, w in lb if b != "false"), None)
    if len(per_arm) < len(arms):
        r.update(status="inconclusive", reason=f"not every arm produced tokens ({per_arm}); first problem: {str(first)[:300]}")
        return r
    r["vacuity_ok"] = True
    nbad = 0
    for arm, ex, lbad in exs:
        for b, w in lbad:
            if b == "false":
                continue
            nbad += 1
            res_ = solver.check(mp.smt_lines(ex, [b]), [], "z3", 60)
            if res_.status != "unsat":
                return native_exprs(r, w, log_dir)
    r.update(status="held", solver=f"{n_ok} token sequences equal the documented ones" + (f"; {nbad} deviating paths infeasible (z3 unsat)" if nbad else " (syntactic)"))
    r["wall_s"] = round(time.time() - t0, 2)
    return r


EXPRS_PROGRAM = '''def f(a: int, b: int, c: int) -> int:
    xs = [a, b, c]
    t = (a, b, c)
    d = {a: b, b: c}
    return a
'''
EXPRS_WANT = ["vec ! [ a , b , c ]", "( a , b , c )", "[ ( a , b ) , ( b , c ) ]"]


def native_exprs(r, why, log_dir):
    import kani
    os.makedirs(log_dir, exist_ok=True)
    path = os.path.join(log_dir, "exprs_replay.incn")
    with open(path, "w") as fh:
        fh.write(EXPRS_PROGRAM)
    texts, broken = [], False
    for prof in ("dev", "release"):
        binp = kani.build_replay(prof, True, log_dir)
        rc, out, _, to = common.run([binp, "emitrust", path], timeout=120)
        src = re.sub(r"\s+", " ", re.sub(r"([{};.\[\](),!])", r" \1 ", out))
        miss = [w for w in EXPRS_WANT if re.sub(r"\s+", " ", w).strip() not in src]
        if rc != 0 or miss:
            broken = True
            texts.append(f"[{prof}] emitted Rust lacks {miss[:3]}: ...{out.strip()[-400:]}")
    text = "; ".join(texts) or "list, tuple, dict literals and the conditional expression are emitted with their parts in source order"
    r["native"] = text
    if broken:
        os.makedirs(os.path.join(common.REPLAYS_DIR, "MIRX"), exist_ok=True)
        rp = os.path.join(common.REPLAYS_DIR, "MIRX", r["id"] + ".replay")
        with open(rp, "w") as fh:
            fh.write(f"mirx emitexprs\n# {r['statement']}\n# solver: {why[:400]}\n# native: {text}\n")
        r.update(status="violated", replay=rp, counterexample={"path": why[:500], "native": text})
    else:
        r.update(status="inconclusive", reason=f"a feasible path deviates ({why[:300]}) but the literal program is emitted as documented")
    return r


# ---- the remaining statement arms: each IR field is the lowering of the source field of the same role -----------------------
def struct_fields(R, ty):
    td = R.resolve(ty)
    if td is None:
        raise Inconclusive(f"struct {ty} not found in the sources")
    return [x[0] for x in td.variants[0][1]]


def subst_lowerings(t, back):
    """Replace results of summarised lowering calls by L(<source term>) so that trees can be compared with static templates."""
    if isinstance(t, tuple):
        return tuple(subst_lowerings(x, back) for x in t)
    if isinstance(t, str):
        for ev, marker in back.items():
            if t == ev + ".Ok.0":
                return f"L({marker})"
            if t.startswith(ev + ".Ok.0."):
                return f"L({marker})" + t[len(ev) + 5:]
    return t


def run_simple_arms(P, R, mp, log_dir, bound=2):
    import tc_props
    t0 = time.time()
    f = tc_props.find_fn(P, "lower_stmt") if any(n.endswith("::lower_stmt") for n in P.fns) else tc_props.find_fn(P, "lower_statement")
    svars = mp.variants(R, "incan_syntax::ast::Statement")
    A = "incan_syntax::ast::"
    fa_f, ia_f, w_f, fo_f = (struct_fields(R, A + n) for n in ("FieldAssignmentStmt", "IndexAssignmentStmt", "WhileStmt", "ForStmt"))

    def templates(stmt):
        """arm -> (entry variant, function building the expected tree from the path, needs scope)"""
        def fa(o):
            b = stmt.child("FieldAssignment", 0)
            g = lambda n: b.child(None, fa_f.index(n)).name  # noqa: E731
            return ("Ok", ("Stmt", ("IrStmtKind", "Assign", ("AssignTarget", "Field", f"L({g('object')})", g("field")), f"L({g('value')})")))

        def ia(o):
            b = stmt.child("IndexAssignment", 0)
            g = lambda n: b.child(None, ia_f.index(n)).name  # noqa: E731
            return ("Ok", ("Stmt", ("IrStmtKind", "Assign", ("AssignTarget", "Index", f"L({g('object')})", f"L({g('index')})"), f"L({g('value')})")))

        def ret(o):
            opt = stmt.child("Return", 0)
            fo = o.state.facts.get(opt.tag().term)
            if fo and fo[0] == "eq" and fo[1] == 1:
                return ("Ok", ("Stmt", ("IrStmtKind", "Return", ("Some", f"L({opt.child('Some', 0).name})"))))
            if fo and fo[0] == "eq" and fo[1] == 0:
                return ("Ok", ("Stmt", ("IrStmtKind", "Return", "None")))
            return None

        def ex_(o):
            return ("Ok", ("Stmt", ("IrStmtKind", "Expr", f"L({stmt.child('Expr', 0).name})")))

        def wh(o):
            b = stmt.child("While", 0)
            g = lambda n: b.child(None, w_f.index(n)).name  # noqa: E731
            return ("Ok", ("Stmt", ("IrStmtKind", "While", "None", f"L({g('condition')})", f"L({g('body')})")))

        def fr(o):
            b = stmt.child("For", 0)
            g = lambda n: b.child(None, fo_f.index(n)).name  # noqa: E731
            return ("Ok", ("Stmt", ("IrStmtKind", "For", "None", ("Pattern", "Var", g("var")), f"L({g('iter')})", f"L({g('body')})")))
        return {"FieldAssignment": fa, "IndexAssignment": ia, "Return": ret, "Expr": ex_, "While": wh, "For": fr,
                "Break": lambda o: ("Ok", ("Stmt", ("IrStmtKind", "Break", "None"))),
                "Continue": lambda o: ("Ok", ("Stmt", ("IrStmtKind", "Continue", "None")))}
    bad, n_ok, per_arm, shapes, encoded, paths = [], 0, {}, [], [], 0
    exs = []
    arms = ["Expr", "FieldAssignment", "IndexAssignment", "Return", "While", "For", "Break", "Continue"]
    for arm in arms:
        if arm not in svars:
            continue
        ex = mirx.make_executor(P, R, max_paths=200000)
        ex.opaque_calls = mirx.slice_opaque
        ex.model_sequences = True
        ex.seq_bound = 2
        ex.recursion_bound = 1
        ex.tolerate_unsupported = True
        ex.summarize = tc_props.SUMMARIZE + [r"::lower_expr$", r"::lower_expr_spanned$", r"::lower_statements$", r"::lower_stmt$", r"::lower_statement$",
                                             r"HashMap::<.*>::(new|insert)$", r"Vec::<.*>::pop$", r"IrSpan as .*Default>::default$"]
        selfv = ex.sym_value("AstLowering", "self")
        stmt = ex.sym_value("incan_syntax::ast::Statement", "stmt")
        st0 = symex.State()
        k = svars.index(arm)
        st0.facts[stmt.tag().term] = ("eq", k)
        st0.pc.append(f"(= {stmt.tag().term} {k})")
        td = R.resolve("incan_syntax::ast::Statement")
        unit = not [v for v in td.variants if v[0] == arm][0][1]
        ex.call_stack = [f.name]
        try:
            if unit:
                outs = ex._run(f, [selfv, stmt], {}, 0, st0)      # unit variants: from the function entry (the match decides)
            else:
                outs = ex._run(f, [selfv, stmt], {}, 0, st0, entry=arm_entry(f, arm), preset={})
        finally:
            ex.call_stack = []
        encoded += ex.encoded
        paths += len(outs)
        lnames = struct_fields(R, "AstLowering")
        scopes_name = f"sym<{selfv.child(None, lnames.index('scopes')).name}:"
        tmpl = templates(stmt)[arm]
        lbad = []
        for o in outs:
            if o.kind == "unsupported":
                lbad.append((conj(o.pc), f"{arm}: unsupported MIR: {o.info}"))
                continue
            if o.kind != "return":
                lbad.append((conj(o.pc), f"{arm}: panic: {o.info}"))
                continue
            v = ex.deref(o.value, o.state)
            if isinstance(v, Adt) and v.variant == "Err":
                continue
            back, dup = {}, False
            for e in o.events:
                if e[0].endswith(("lower_expr_spanned", "lower_expr", "lower_statements")) and len(e[1]) >= 2:
                    m = re.match(r"^sym<([^:>]+):", e[1][1])
                    if m:
                        dup = dup or m.group(1) in back.values()
                        back[e[2]] = m.group(1)
            got = subst_lowerings(tree(v, ex, o.state), back)
            want = tmpl(o)
            n_ok += 1
            per_arm[arm] = per_arm.get(arm, 0) + 1
            if per_arm[arm] == 1:
                shapes.append(f"{arm}: {got}"[:260])
            problem = None
            if want is None or got != want or dup:
                problem = f"{arm}: lowering builds {got}, the source says {want}" + (" (a sub-term is lowered twice)" if dup else "")
            elif arm in ("While", "For"):
                # the body is lowered inside a scope of its own; for `for`, the iterable is lowered OUTSIDE it and the loop variable is recorded
                depth, ok = 0, True
                body_name = stmt.child(arm, 0).child(None, (w_f if arm == "While" else fo_f).index("body")).name
                iter_name = stmt.child("For", 0).child(None, fo_f.index("iter")).name if arm == "For" else None
                var_name = stmt.child("For", 0).child(None, fo_f.index("var")).name if arm == "For" else None
                var_recorded = False
                for e in o.events:
                    if e[0].endswith("Vec::push") and scopes_name in e[1][0]:
                        depth += 1
                    elif e[0].endswith("Vec::pop") and scopes_name in e[1][0]:
                        depth -= 1
                    elif e[0].endswith("lower_statements") and body_name in e[1][1]:
                        # (the scope chain's own growth is not modelled: with an empty chain before the loop, `last_mut()` of the
                        #  model is None and no insert is seen - only then is a missing record tolerated)
                        ok = ok and depth == 1 and (arm != "For" or var_recorded or o.state.facts.get("len:" + scopes_name[4:-1]) == 0)
                    elif iter_name and e[0].endswith(("lower_expr_spanned", "lower_expr")) and iter_name in e[1][1]:
                        ok = ok and depth == 0
                    elif var_name and e[0].endswith("HashMap::insert") and var_name in e[1][1]:
                        var_recorded = depth == 1
                if not ok or depth != 0:
                    problem = f"{arm}: scope discipline broken (events {[e[0].split('::')[-1] for e in o.events]})"
            if problem:
                lbad.append((conj(o.pc), problem))
        exs.append((arm, ex, lbad))
    r = {"id": "X-lower_stmts", "engine": "E2-X mirsmt (slice)",
         "statement": "lowering of the remaining statement forms keeps every part in its role: `o.f = v` -> Assign(Field(lower o, f), lower v); "
                      "`o[i] = v` -> Assign(Index(lower o, lower i), lower v); `return e` -> Return(Some(lower e)) / Return(None); expression "
                      "statements; `while c: body` -> While(lower c, lower body) with the body in its own scope; `for x in it: body` -> "
                      "For(Var x, lower it, lower body) with `it` lowered outside the loop scope and x recorded inside it; break / continue",
         "bound": f"arms {', '.join(per_arm)} of AstLowering::lower_statement; sub-expressions and bodies arbitrary (their lowering is summarised by "
                  "arbitrary results); error returns of sub-lowerings are not constrained",
         "encoding": "statement as a symbolic ADT; results as constructed values; scope operations as events",
         "functions_encoded": sorted(set(n + " (MIR)" for n in encoded)), "paths": paths, "shapes": shapes, "compositions": per_arm}
    r["wall_s"] = round(time.time() - t0, 2)
    first = next((w for _, _, lb in exs for b, w in lb if b != "false"), None)
    if len(per_arm) < len([a for a in arms if a in svars]):
        return native_stmts(r, f"not every arm produced an IR statement ({per_arm}); first problem: {str(first)[:300]}", log_dir)
    r["vacuity_ok"] = True
    nbad = 0
    for arm, ex, lbad in exs:
        for b, w in lbad:
            if b == "false":
                continue
            nbad += 1
            res_ = solver.check(mp.smt_lines(ex, [b]), [], "z3", 60)
            if res_.status != "unsat":
                return native_stmts(r, w, log_dir)
    r.update(status="held", solver=f"{n_ok} Ok paths match the templates" + (f"; {nbad} deviating paths infeasible (z3 unsat)" if nbad else " (syntactic)"))
    return r


STMTS_PROGRAM = '''model Box:
    width: int
    height: int

def f(n: int) -> int:
    mut b = Box(width=1, height=2)
    b.width = n + 40
    mut xs = [10, 20, 30]
    xs[1] = n + 7
    mut total = 0
    for x in xs:
        total = total + x
    mut i = 0
    while i < n:
        i = i + 1
        if i == 3:
            break
        continue
    if n > 1000:
        return
    print(total)
    return total + b.width + b.height + i
'''
STMTS_WANT = ["b . width = n + 40", "list_get_mut ( & mut xs , ( 1 ) as i64 ) = n + 7", "for x in", "total = total + x", "while i < n {", "i = i + 1", "break ;", "continue ;",
              "return total + b . width + b . height + i"]


def native_stmts(r, why, log_dir):
    import kani
    os.makedirs(log_dir, exist_ok=True)
    path = os.path.join(log_dir, "stmts_replay.incn")
    with open(path, "w") as fh:
        fh.write(STMTS_PROGRAM.replace("    if n > 1000:\n        return\n", ""))
    texts, broken = [], False
    for prof in ("dev", "release"):
        binp = kani.build_replay(prof, True, log_dir)
        rc, out, _, to = common.run([binp, "emitrust", path], timeout=120)
        src = re.sub(r"\s+", " ", re.sub(r"([{};.\[\](),&])", r" \1 ", out))
        pos, cur = [], 0
        for w in STMTS_WANT:
            w2 = re.sub(r"\s+", " ", re.sub(r"([{};.\[\](),&])", r" \1 ", w)).strip()
            j = src.find(w2, cur)
            pos.append(j)
            if j >= 0:
                cur = j
        if rc != 0 or -1 in pos:
            broken = True
            miss = [w for w, j in zip(STMTS_WANT, pos) if j < 0]
            texts.append(f"[{prof}] emitted Rust does not contain, in this order, {miss[:3]}: ...{out.strip()[-300:]}")
    text = "; ".join(texts) or "field / index assignment, for, while, break, continue and return are emitted with their parts in their roles"
    r["native"] = text
    if broken:
        os.makedirs(os.path.join(common.REPLAYS_DIR, "MIRX"), exist_ok=True)
        rp = os.path.join(common.REPLAYS_DIR, "MIRX", r["id"] + ".replay")
        with open(rp, "w") as fh:
            fh.write(f"mirx lowerstmts\n# {r['statement']}\n# solver: {why[:400]}\n# native: {text}\n")
        r.update(status="violated", replay=rp, counterexample={"path": why[:500], "native": text})
    else:
        r.update(status="inconclusive", reason=f"a feasible path deviates ({why[:300]}) but the statement program is emitted as documented")
    return r


# ---- `name = value`: new binding or mutation? ---------------------------------------------------------------------------------
def run_assign(P, R, mp, log_dir, bound):
    import tc_props
    t0 = time.time()
    f = tc_props.find_fn(P, "lower_stmt") if any(n.endswith("::lower_stmt") for n in P.fns) else tc_props.find_fn(P, "lower_statement")
    entry = arm_entry(f, "Assignment")
    ex = mirx.make_executor(P, R, max_paths=200000)
    ex.opaque_calls = mirx.slice_opaque
    ex.model_sequences = True
    ex.seq_bound = bound
    ex.recursion_bound = 1
    ex.tolerate_unsupported = True
    ex.summarize = tc_props.SUMMARIZE + [r"::lower_expr$", r"::lower_expr_spanned$", r"::lower_type$", r"HashMap::<.*>::(new|insert|get|contains_key)(::<.*>)?$",
                                         r"IrSpan as .*Default>::default$", r"fmt::rt::Argument", r"Arguments::<.*>::new", r"must_use"]
    selfv = ex.sym_value("AstLowering", "self")
    stmt = ex.sym_value("incan_syntax::ast::Statement", "stmt")
    svars = mp.variants(R, "incan_syntax::ast::Statement")
    st0 = symex.State()
    k = svars.index("Assignment")
    st0.facts[stmt.tag().term] = ("eq", k)
    st0.pc.append(f"(= {stmt.tag().term} {k})")
    ex.call_stack = [f.name]
    try:
        outs = ex._run(f, [selfv, stmt], {}, 0, st0, entry=entry, preset={})
    finally:
        ex.call_stack = []
    a = stmt.child("Assignment", 0)
    an = [x[0] for x in R.resolve("incan_syntax::ast::AssignmentStmt").variants[0][1]]
    binding, name, value = a.child(None, an.index("binding")), a.child(None, an.index("name")), a.child(None, an.index("value"))
    bvars = mp.variants(R, "incan_syntax::ast::BindingKind")
    lnames = [x[0] for x in R.resolve("AstLowering").variants[0][1]]
    scopes = selfv.child(None, lnames.index("scopes"))
    mvars = selfv.child(None, lnames.index("mutable_vars"))
    bad, n_ok, classes, shapes = [], 0, {}, []
    for o in outs:
        if o.kind == "unsupported":
            bad.append((conj(o.pc), f"unsupported MIR: {o.info}"))
            continue
        if o.kind != "return":
            bad.append((conj(o.pc), f"panic: {o.info}"))
            continue
        fo = o.state.facts.get(binding.tag().term)
        if not fo or fo[0] != "eq":
            v0 = ex.deref(o.value, o.state)
            if isinstance(v0, Adt) and v0.variant == "Err" and any(e[0].endswith(("lower_expr_spanned", "lower_expr")) for e in o.events):
                continue    # the value's own lowering failed: error return before the decision
            bad.append((conj(o.pc), "the binding kind is not examined"))
            continue
        bk = bvars[fo[1]]
        n = o.state.facts.get("len:" + scopes.name)
        v = ex.deref(o.value, o.state)
        # events: which scopes were asked for the name, what was recorded
        asked, inserted_scope, marked_mut, mut_answer, val_ev = [], [], False, None, None
        for e in o.events:
            if e[0].endswith("contains_key") and name.name in e[1][1]:
                m = re.match(r"^sym<" + re.escape(scopes.name) + r"\.e(\d+):", e[1][0])
                asked.append((int(m.group(1)) if m else None, e[2]))
            elif e[0].endswith("HashMap::insert") and e[1][0].startswith(f"sym<{scopes.name}.e") and name.name in e[1][1]:
                inserted_scope.append(int(re.match(r"^sym<" + re.escape(scopes.name) + r"\.e(\d+):", e[1][0]).group(1)))
            elif e[0].endswith("HashMap::insert") and e[1][0].startswith(f"sym<{mvars.name}:") and name.name in e[1][1]:
                marked_mut = e[1][2] == "true"
            elif e[0].endswith("HashMap::get") and e[1][0].startswith(f"sym<{mvars.name}:") and name.name in e[1][1]:
                mut_answer = e[2]
            elif e[0].endswith(("lower_expr_spanned", "lower_expr")) and value.name in e[1][1]:
                val_ev = e[2]
        is_err = isinstance(v, Adt) and v.variant == "Err"
        if val_ev is None:
            bad.append((conj(o.pc), f"{bk}: the assigned value is never lowered"))
            continue
        if is_err and bk != "Inferred":
            continue        # only the value's own lowering can fail here (error return)
        tr = tree(v, ex, o.state)
        text = str(tr)
        kind = "Err" if is_err else "Assign" if "'Assign'" in text else "Let" if "'Let'" in text else "?"
        let = tc_props.find_adt(v, ex, o.state, "Let")
        asg = tc_props.find_adt(v, ex, o.state, "Assign")
        def uses_value(adt):
            vv = ex.deref(tc_props.adt_field(adt, "value"), o.state)
            return isinstance(vv, Sym) and vv.name == ok_of(val_ev)
        def target_is_name(adt):
            t = ex.deref(tc_props.adt_field(adt, "target"), o.state)
            if not (isinstance(t, Adt) and t.variant == "Var"):
                return False
            x = ex.deref(t.fields[0][1] if isinstance(t.fields[0], tuple) else t.fields[0], o.state)
            return isinstance(x, Sym) and x.name == name.name
        def let_is(adt, mutability):
            nm = ex.deref(tc_props.adt_field(adt, "name"), o.state)
            mu = ex.deref(tc_props.adt_field(adt, "mutability"), o.state)
            return isinstance(nm, Sym) and nm.name == name.name and isinstance(mu, Adt) and mu.variant == mutability
        innermost = [n - 1] if n else []
        key = bk
        ok, extra_pc = True, []
        if bk == "Reassign":
            ok = asg is not None and target_is_name(asg) and uses_value(asg) and not inserted_scope
        elif bk in ("Mutable", "Let"):
            ok = (let is not None and let_is(let, "Mutable" if bk == "Mutable" else "Immutable") and uses_value(let)
                  and inserted_scope == innermost and (marked_mut if bk == "Mutable" else not marked_mut))
        elif bk == "Inferred":
            if n is None:
                bad.append((conj(o.pc), "Inferred: the scope chain is never searched"))
                continue
            # every scope must be consulted unless an inner one already answered yes: innermost to outermost
            idxs = [i for i, _ in asked]
            answers = {i: t for i, t in asked}
            want_order = list(range(n - 1, -1, -1))
            exists_known_true = any(t in o.state.pc for _, t in asked)
            if idxs != want_order[:len(idxs)] or (not exists_known_true and len(idxs) != n):
                ok = False
            elif exists_known_true:
                key = "Inferred/bound"
                if mut_answer is None:
                    ok = False
                else:
                    # mutable_vars says Some(true) -> Assign; otherwise -> error
                    bname = f"{mut_answer}.Some.0"
                    if not any(d.startswith(f"(declare-const {bname} ") for d in ex.enc.decls):
                        ex.enc.bool_var(bname)
                    tname = f"{mut_answer}!tag"
                    if not any(d.startswith(f"(declare-const {tname} ") for d in ex.enc.decls):
                        ex.enc.decls.append(f"(declare-const {tname} Int)")
                        ex.enc.side.append(f"(and (<= 0 {tname}) (< {tname} 2))")
                    is_mutable = f"(and (= {tname} 1) {bname})"
                    if kind == "Assign":
                        key = "Inferred/bound-mutable"
                        ok = asg is not None and target_is_name(asg) and uses_value(asg) and not inserted_scope
                        if ok:
                            bad.append((conj(o.pc + [symex.neg(is_mutable)]), "a plain assignment to a bound name NOT recorded as mutable is lowered to a mutation"))
                    elif kind == "Err":
                        key = "Inferred/bound-immutable"
                        ok = not inserted_scope
                        if ok:
                            bad.append((conj(o.pc + [is_mutable]), "a plain assignment to a bound mutable name is rejected"))
                    else:
                        ok = False
            else:
                key = "Inferred/new"
                ok = let is not None and let_is(let, "Immutable") and uses_value(let) and inserted_scope == innermost and not marked_mut
        n_ok += 1
        classes[key] = classes.get(key, 0) + 1
        if len(shapes) < 10 and classes[key] == 1:
            shapes.append(f"{key} ({n} scopes): {text[:160]}")
        if not ok:
            bad.append((conj(o.pc + extra_pc), f"{key} with {n} scopes: lowering builds {text[:200]}; scopes asked {idxs if bk == 'Inferred' else '-'}, "
                        f"recorded in scopes {inserted_scope}, marked mutable {marked_mut}"))
    r = {"id": "X-lower_assign", "engine": "E2-X mirsmt (slice)",
         "statement": "lowering of `name = value` decides binding vs mutation as documented: an explicit reassignment and a plain assignment to a "
                      "name bound in ANY enclosing scope (searched innermost to outermost, all of them) and recorded as mutable become "
                      "`name = value`; a plain assignment to a name bound in an enclosing scope but immutable is an error; otherwise (and for `let` / `mut`) it is a "
                      "new `let` (mutable exactly for `mut`) recorded in the innermost scope; the value is always the lowering of the source value",
         "bound": f"Statement::Assignment arm of AstLowering::lower_statement; all 4 binding kinds x scope chains of 0..={bound} scopes x every answer "
                  "of each scope's `contains_key` and of `mutable_vars.get` (HashMap operations are uninterpreted events)",
         "encoding": "statement and lowering state as symbolic ADTs; the scope chain as a symbolic sequence; map lookups as arbitrary booleans",
         "functions_encoded": [n_ + " (MIR)" for n_ in ex.encoded], "paths": len(outs), "shapes": shapes, "compositions": classes}
    r["wall_s"] = round(time.time() - t0, 2)
    need = {"Reassign", "Mutable", "Let", "Inferred/new", "Inferred/bound-mutable", "Inferred/bound-immutable"}
    if not need <= set(classes):
        return native_assign(r, f"not every documented case was reached ({sorted(classes)}); first problem: {(bad or [('', '-')])[0][1][:300]}", log_dir)
    r["vacuity_ok"] = True
    nbad = 0
    for b, w in bad:
        if b == "false":
            continue
        nbad += 1
        res_ = solver.check(mp.smt_lines(ex, [b]), [], "z3", 60)
        if res_.status != "unsat":
            return native_assign(r, w, log_dir)
    r.update(status="held", solver=f"{n_ok} paths follow the documented decision" + (f"; {nbad} deviating paths infeasible (z3 unsat)" if nbad else " (syntactic)"))
    return r


ASSIGN_PROGRAM = '''def f(n: int) -> int:
    mut total = 0
    fresh = 1
    if n > 0:
        if n > 1:
            total = 5
            inner = 2
            print(inner)
    let fixed = 3
    mut counter = 4
    counter = counter + fresh + fixed
    mut tag = b"ab"
    if n > 2:
        tag = b"cd"
    print(len(tag))
    return total + counter
'''
ASSIGN_WANT = ["let mut total = 0", "let fresh = 1", "if n > 1 { total = 5 ;", "let inner = 2", "let fixed = 3", "let mut counter = 4",
               "; counter = counter + fresh + fixed", 'let mut tag = b"ab"', 'if n > 2 { tag = b"cd" ;']
ASSIGN_BAD_PROGRAM = '''def g(n: int) -> int:
    fixed = 3
    if n > 0:
        fixed = 4
    return fixed
'''


def native_assign(r, why, log_dir):
    import kani
    os.makedirs(log_dir, exist_ok=True)
    path = os.path.join(log_dir, "assign_replay.incn")
    with open(path, "w") as fh:
        fh.write(ASSIGN_PROGRAM)
    path2 = os.path.join(log_dir, "assign_replay_bad.incn")
    with open(path2, "w") as fh:
        fh.write(ASSIGN_BAD_PROGRAM)
    texts, broken = [], False
    for prof in ("dev", "release"):
        binp = kani.build_replay(prof, True, log_dir)
        rc, out, _, to = common.run([binp, "emitrust", path], timeout=120)
        src = re.sub(r"\s+", " ", re.sub(r"([{};])", r" \1 ", out))
        miss = [w for w in ASSIGN_WANT if re.sub(r"\s+", " ", re.sub(r"([{};])", r" \1 ", w)).strip() not in src]
        if rc != 0 or miss:
            broken = True
            texts.append(f"[{prof}] emitted Rust lacks {miss[:3]}: ...{out.strip()[-400:]}")
        rc, out, _, to = common.run([binp, "emitrust", path2], timeout=120)
        if "RUST-END" in out and "fixed = 4" in out:
            broken = True
            texts.append(f"[{prof}] a plain assignment to an immutable outer variable is compiled instead of rejected: ...{out.strip()[-200:]}")
    text = "; ".join(texts) or "bindings and mutations are emitted as documented (outer mutable variable mutated from a nested scope, new names bound with let)"
    r["native"] = text
    if broken:
        os.makedirs(os.path.join(common.REPLAYS_DIR, "MIRX"), exist_ok=True)
        rp = os.path.join(common.REPLAYS_DIR, "MIRX", r["id"] + ".replay")
        with open(rp, "w") as fh:
            fh.write(f"mirx assign\n# {r['statement']}\n# solver: {why[:400]}\n# native: {text}\n")
        r.update(status="violated", replay=rp, counterexample={"path": why[:500], "native": text})
    else:
        r.update(status="inconclusive", reason=f"a feasible path deviates ({why[:300]}) but the binding/mutation program is emitted as documented")
    return r


# ---- emission of control-flow statements -----------------------------------------------------------------------------------
def seq_atoms(seq, n):
    return [f"@{seq.name}.e{k}" for k in range(n)]


def expected_stmt_tokens(arm, kind, ex, o, R, mp):
    """Documented Rust for one IR statement, over atoms `@<sub-term>` (the tokens of the emission of that sub-term)."""
    def fld(variant, name):
        td = R.resolve("IrStmtKind")
        for vn, fields in td.variants:
            if vn == variant:
                names = [x[0] for x in fields]
                return kind.child(variant, names.index(name) if name in names else int(name))
        raise Inconclusive(f"IrStmtKind::{variant} not found")
    def ln(seq):
        return o.state.facts.get("len:" + seq.name)
    if arm == "If":
        c, t, e = fld("If", "condition"), fld("If", "then_branch"), fld("If", "else_branch")
        n = ln(t)
        if n is None:
            return None
        toks = ["if", "@" + c.name, "{"] + seq_atoms(t, n) + ["}"]
        fo = o.state.facts.get(e.tag().term)
        if fo and fo[0] == "eq" and fo[1] == 1:
            es = e.child("Some", 0)
            m = ln(es)
            if m is None:
                return None
            toks += ["else", "{"] + seq_atoms(es, m) + ["}"]
        elif not (fo and fo[0] == "eq" and fo[1] == 0):
            return None
        return toks
    if arm == "While":
        c, b = fld("While", "condition"), fld("While", "body")
        n = ln(b)
        if n is None:
            return None
        # `while True` is an infinite loop: `loop { .. }`
        ck = c.child(None, [x[0] for x in R.resolve("TypedExpr").variants[0][1]].index("kind"))
        kt = o.state.facts.get(ck.tag().term)
        kb = mp.idx(R, "IrExprKind", "Bool")
        is_true = None
        if kt and kt[0] == "eq" and kt[1] == kb:
            is_true = ck.child("Bool", 0).term
        if is_true is None:
            return ["while", "@" + c.name, "{"] + seq_atoms(b, n) + ["}"]
        return ("ite", is_true, ["loop", "{"] + seq_atoms(b, n) + ["}"], ["while", "@" + c.name, "{"] + seq_atoms(b, n) + ["}"])
    if arm == "Loop":
        b = fld("Loop", "body")
        n = ln(b)
        return None if n is None else ["loop", "{"] + seq_atoms(b, n) + ["}"]
    if arm == "Block":
        b = fld("Block", "0")
        n = ln(b)
        return None if n is None else ["{"] + seq_atoms(b, n) + ["}"]
    if arm == "Expr":
        return ["@" + fld("Expr", "0").name, ";"]
    raise Inconclusive("arm " + arm)


def run_emit_stmt(P, R, mp, log_dir, bound):
    import emit_props
    t0 = time.time()
    fs = [v for k, v in P.fns.items() if re.search(r"(^|::)statements::<impl at [^>]*>::emit_stmt$", k)]
    if len(fs) != 1:
        raise Inconclusive("IrEmitter::emit_stmt not found (or ambiguous) in the MIR dump")
    f = fs[0]
    svars = mp.variants(R, "IrStmtKind")
    arms = [a for a in ("Expr", "If", "While", "Loop", "Block") if a in svars]
    bad, why, n_ok, per_arm, shapes, encoded, paths = [], [], 0, {}, [], [], 0
    exs = []
    for arm in arms:
        ex = emit_props.atom_executor(P, R)
        ex.model_sequences = True
        ex.seq_bound = bound
        ex.tolerate_unsupported = True

        def emit_stmt_atom(ex_, callee, args, st):
            e = ex_.deref(args[1], st)
            return [("return", Adt("Result", "Ok", [symex.Tokens(["@" + e.name])]), None, st)]
        ex.state_intrinsics[r"::emit_stmt$"] = emit_stmt_atom
        selfv = ex.sym_value("IrEmitter", "self")
        stmt = ex.sym_value("IrStmt", "s")
        kind = stmt.child(None, [x[0] for x in R.resolve("IrStmt").variants[0][1]].index("kind"))
        st0 = symex.State()
        k = svars.index(arm)
        st0.facts[kind.tag().term] = ("eq", k)
        st0.pc.append(f"(= {kind.tag().term} {k})")
        outs = ex.run(f, [selfv, stmt], state=st0)
        encoded += ex.encoded
        paths += len(outs)
        lbad = []
        for o in outs:
            if o.kind == "unsupported":
                lbad.append((conj(o.pc), f"{arm}: unsupported MIR: {o.info}"))
                continue
            if o.kind != "return":
                lbad.append((conj(o.pc), f"{arm}: panic: {o.info}"))
                continue
            toks = emit_props.tokens_of(ex, o)
            if toks is None:
                lbad.append((conj(o.pc), f"{arm}: no tokens returned ({mirx.show(o.value, ex, o.state)[:120]})"))
                continue
            want = expected_stmt_tokens(arm, kind, ex, o, R, mp)
            if want is None:
                lbad.append((conj(o.pc), f"{arm}: the statement's parts were not all visited: emitted {' '.join(toks)}"))
                continue
            n_ok += 1
            per_arm[arm] = per_arm.get(arm, 0) + 1
            if len(shapes) < 12 and per_arm[arm] <= 3:
                shapes.append(f"{arm}: {' '.join(toks)}"[:300])
            if isinstance(want, tuple):
                _, c, a, b = want
                if toks == a and toks == b:
                    continue
                if toks == a:
                    lbad.append((conj(o.pc + [symex.neg(c)]), f"{arm}: emitted `{' '.join(toks)}` although the condition is not the literal True"))
                elif toks == b:
                    lbad.append((conj(o.pc + [c]), f"{arm}: emitted `{' '.join(toks)}` for `while True`"))
                else:
                    lbad.append((conj(o.pc), f"{arm}: emitted `{' '.join(toks)}`, documented `{' '.join(a)}` / `{' '.join(b)}`"))
            elif toks != want:
                lbad.append((conj(o.pc), f"{arm}: emitted `{' '.join(toks)}`, documented `{' '.join(want)}`"))
        exs.append((arm, ex, lbad))
    r = {"id": "E-emit-stmt", "engine": "E2-X mirsmt",
         "statement": "emission of control-flow statements: `if c { then.. } else { else.. }` (no else when the IR has none), `while c { body.. }` "
                      "(`loop { body.. }` exactly for `while True`), `loop { .. }`, `{ .. }`, `e;` - every sub-statement's tokens appear once, "
                      "in IR order, in the branch they belong to",
         "bound": f"IrEmitter::emit_stmt, arms {', '.join(arms)}; statement lists of 0..={bound} statements; sub-expressions and sub-statements are "
                  "atoms (their emission always succeeds); Let / Assign / Return / For / Match arms are not included",
         "encoding": "IR statement as a symbolic ADT, statement lists as symbolic sequences, quote! expansions (incl. #(..)* repetition) as token pushes",
         "functions_encoded": sorted(set(n + " (MIR)" for n in encoded)), "paths": paths, "samples_tokens": shapes, "compositions": per_arm}
    r["wall_s"] = round(time.time() - t0, 2)
    if n_ok == 0 or len(per_arm) < len(arms):
        first = next((w for _, e_, lb in exs for _, w in lb), "-")
        return native_emit_stmt(r, f"not every arm produced tokens ({per_arm}); first problem: {first[:300]}", log_dir)
    r["vacuity_ok"] = True
    nbad = 0
    for arm, ex, lbad in exs:
        for b, w in lbad:
            if b == "false":
                continue
            nbad += 1
            res_ = solver.check(mp.smt_lines(ex, [b]), [], "z3", 60)
            if res_.status != "unsat":
                return native_emit_stmt(r, w, log_dir)
    r.update(status="held", solver=f"{n_ok} token sequences equal the documented ones" + (f"; {nbad} deviating paths infeasible (z3 unsat)" if nbad else " (syntactic)"))
    r["wall_s"] = round(time.time() - t0, 2)
    return r


EMIT_PROGRAM = '''def f(n: int) -> int:
    mut total = 0
    mut other = 0
    mut i = 0
    while i < n:
        if i == 2:
            total = total + 100
            other = other + 1000
        else:
            total = total + 1
            other = other + 10
        i = i + 1
    if n > 100:
        total = total + 7
    while True:
        total = total + 5
        break
    return total
'''
EMIT_WANT = ["while i < n {", "if i == 2 {", "total = total + 100", "other = other + 1000", "} else {", "total = total + 1 ;",
             "other = other + 10 ;", "i = i + 1", "if n > 100 {", "total = total + 7", "loop {", "total = total + 5", "break"]


def native_emit_stmt(r, why, log_dir):
    import kani
    os.makedirs(log_dir, exist_ok=True)
    path = os.path.join(log_dir, "emit_stmt_replay.incn")
    with open(path, "w") as fh:
        fh.write(EMIT_PROGRAM)
    texts, broken = [], False
    for prof in ("dev", "release"):
        binp = kani.build_replay(prof, True, log_dir)
        rc, out, _, to = common.run([binp, "emitrust", path], timeout=120)
        src = re.sub(r"\s+", " ", re.sub(r"([{};])", r" \1 ", out))
        pos, cur = [], 0
        for w in EMIT_WANT:
            w2 = re.sub(r"\s+", " ", re.sub(r"([{};])", r" \1 ", w)).strip()
            j = src.find(w2, cur)
            pos.append(j)
            if j >= 0:
                cur = j
        if rc != 0 or -1 in pos:
            broken = True
            miss = [w for w, j in zip(EMIT_WANT, pos) if j < 0]
            texts.append(f"[{prof}] emitted Rust does not contain, in this order, {miss[:3]}: ...{out.strip()[-300:]}")
    text = "; ".join(texts) or "the control-flow program is emitted with its statements in source order and in their own branches"
    r["native"] = text
    if broken:
        os.makedirs(os.path.join(common.REPLAYS_DIR, "MIRX"), exist_ok=True)
        rp = os.path.join(common.REPLAYS_DIR, "MIRX", r["id"] + ".replay")
        with open(rp, "w") as fh:
            fh.write(f"mirx emitstmt\n# {r['statement']}\n# solver: {why[:400]}\n# native: {text}\n")
        r.update(status="violated", replay=rp, counterexample={"path": why[:500], "native": text})
    else:
        r.update(status="inconclusive", reason=f"a feasible path deviates ({why[:300]}) but the control-flow program is emitted as documented")
    return r


def arm_entry(f, variant):
    for bn, b in f.blocks.items():
        if any(re.search(r"\(\(\*_2\) as " + variant + r"\)", s) for s in b.stmts):
            return bn
    raise Inconclusive(f"{f.name}: the arm for Statement::{variant} was not found")


def tree(v, ex, st, depth=0):
    """Canonical tree of a lowered value: If nodes, vectors, options; results of summarised calls by their event name."""
    v = ex.deref(v, st)
    if depth > 40:
        return "..."
    if isinstance(v, Sym):
        return v.name
    if isinstance(v, Adt):
        if v.variant == "If":
            d = {f[0]: f[1] for f in v.fields if isinstance(f, tuple)}
            return ("If", tree(d.get("condition"), ex, st, depth + 1), tree(d.get("then_branch"), ex, st, depth + 1),
                    tree(d.get("else_branch"), ex, st, depth + 1))
        if v.ty == "Vec" and v.variant == "lit":
            return ("Vec",) + tuple(tree(x, ex, st, depth + 1) for x in v.fields)
        if v.variant in ("Some", "Ok"):
            f = v.fields[0]
            return (v.variant, tree(f[1] if isinstance(f, tuple) else f, ex, st, depth + 1))
        if v.variant == "None":
            return "None"
        d = {f[0]: f[1] for f in v.fields if isinstance(f, tuple)}
        if "kind" in d and "span" in d:     # IrStmt { kind, span }
            return ("Stmt", tree(d["kind"], ex, st, depth + 1))
        return (v.ty, v.variant) + tuple(tree(f[1] if isinstance(f, tuple) else f, ex, st, depth + 1) for f in v.fields)
    return repr(v)


def ok_of(name):
    return name + ".Ok.0"


def run_if(P, R, mp, log_dir, bound):
    import tc_props
    t0 = time.time()
    f = tc_props.find_fn(P, "lower_stmt") if any(n.endswith("::lower_stmt") for n in P.fns) else tc_props.find_fn(P, "lower_statement")
    entry = arm_entry(f, "If")
    ex = mirx.make_executor(P, R, max_paths=200000)
    ex.opaque_calls = mirx.slice_opaque
    ex.model_sequences = True
    ex.seq_bound = bound
    ex.recursion_bound = 1
    ex.tolerate_unsupported = True
    ex.summarize = tc_props.SUMMARIZE + [r"::lower_expr$", r"::lower_expr_spanned$", r"::lower_statements$", r"::lower_stmt$",
                                         r"::lower_statement$", r"HashMap::<.*>::new$", r"Vec::<.*>::pop$", r"IrSpan as .*Default>::default$"]
    selfv = ex.sym_value("AstLowering", "self")
    stmt = ex.sym_value("incan_syntax::ast::Statement", "stmt")
    svars = mp.variants(R, "incan_syntax::ast::Statement")
    st0 = symex.State()
    k = svars.index("If")
    st0.facts[stmt.tag().term] = ("eq", k)
    st0.pc.append(f"(= {stmt.tag().term} {k})")
    ex.call_stack = [f.name]
    try:
        outs = ex._run(f, [selfv, stmt], {}, 0, st0, entry=entry, preset={})
    finally:
        ex.call_stack = []
    ifs = stmt.child("If", 0)
    names = [x[0] for x in R.resolve("incan_syntax::ast::IfStmt").variants[0][1]]
    ix = {n: names.index(n) for n in ("condition", "then_body", "elif_branches", "else_body")}
    cond0 = ifs.child(None, ix["condition"]).name
    then0 = ifs.child(None, ix["then_body"]).name
    elifs = ifs.child(None, ix["elif_branches"])
    else_opt = ifs.child(None, ix["else_body"])
    lnames = [x[0] for x in R.resolve("AstLowering").variants[0][1]]
    if "scopes" not in lnames:
        raise Inconclusive("AstLowering has no `scopes` field any more")
    scopes_name = f"sym<{selfv.child(None, lnames.index('scopes')).name}:"
    bad, why, n_ok, by_len, shapes = [], [], 0, {}, []
    for o in outs:
        if o.kind == "unsupported":
            bad.append(conj(o.pc)); why.append(f"unsupported MIR: {o.info}")
            continue
        if o.kind != "return":
            bad.append(conj(o.pc)); why.append(f"panic: {o.info}")
            continue
        v = ex.deref(o.value, o.state)
        if isinstance(v, Adt) and v.variant == "Err":
            continue
        n = o.state.facts.get("len:" + elifs.name)
        if n is None:
            bad.append(conj(o.pc)); why.append("the elif list is never iterated")
            continue
        # which summarised call lowered which piece of source
        res = {}
        for e in o.events:
            if e[0].endswith(("lower_expr_spanned", "lower_expr", "lower_statements")) and len(e[1]) >= 2:
                m = re.match(r"^sym<([^:>]+):", e[1][1])
                if m:
                    res.setdefault(m.group(1), []).append(e[2])
        def r_of(marker):
            names_ = res.get(marker, [])
            return ok_of(names_[0]) if len(names_) == 1 else f"<{len(names_)} lowerings of {marker}>"
        et = else_opt.tag().term
        fo = o.state.facts.get(et)
        has_else = fo is not None and fo[0] == "eq" and fo[1] == 1
        want_else = ("Some", r_of(else_opt.child("Some", 0).name)) if has_else else "None"
        for kk in range(n - 1, -1, -1):
            el = mirx.seq_elem(ex, elifs, kk)
            c, b = (el.items[0].name, el.items[1].name) if isinstance(el, symex.Tup) else (el.child(None, 0).name, el.child(None, 1).name)
            want_else = ("Some", ("Vec", ("Stmt", ("If", r_of(c), r_of(b), want_else))))
        want = ("Ok", ("Stmt", ("If", r_of(cond0), r_of(then0), want_else)))
        got = tree(v, ex, o.state)
        # scope discipline: every lower_statements call sits between a push and a pop of the scope stack; conditions do not
        depth, scoped = 0, True
        for e in o.events:
            if e[0].endswith("Vec::push") and scopes_name in e[1][0]:
                depth += 1
            elif e[0].endswith("Vec::pop") and scopes_name in e[1][0]:
                depth -= 1
            elif e[0].endswith("lower_statements"):
                scoped = scoped and depth == 1
        scoped = scoped and depth == 0
        n_ok += 1
        by_len[n] = by_len.get(n, 0) + 1
        if len(shapes) < 4:
            shapes.append(f"{n} elif, else={has_else}: {got}"[:400])
        if got != want:
            bad.append(conj(o.pc)); why.append(f"{n} elif branches, else={has_else}: lowering builds {got}, the source says {want}")
        elif not scoped:
            bad.append(conj(o.pc)); why.append(f"{n} elif branches: a branch body is not lowered inside its own scope (events {[e[0] for e in o.events]})")
    r = {"id": "X-lower_if", "engine": "E2-X mirsmt (slice)",
         "statement": "lowering of `if c0: b0 elif c1: b1 ... else: e`: the IR is If(c0, b0, else=[If(c1, b1, else=[... else=e])]) - branches are "
                      "tested in source order, each body is the lowering of its own source body, a missing else stays missing - and every "
                      "body is lowered between a push and the matching pop of the scope stack",
         "bound": f"Statement::If arm of AstLowering::lower_statement; 0..={bound} elif branches, with and without else; conditions and "
                  "bodies arbitrary (their lowering is summarised by arbitrary results); paths on which a sub-lowering fails are error returns",
         "encoding": "statement as a symbolic ADT, the elif list as a symbolic sequence whose length is fixed per path; results as constructed values",
         "functions_encoded": [n + " (MIR)" for n in ex.encoded], "paths": len(outs), "shapes": shapes,
         "compositions": {f"{k} elif": v for k, v in sorted(by_len.items())}}
    r["wall_s"] = round(time.time() - t0, 2)
    if n_ok == 0 or len(by_len) < bound + 1:
        return native_if(r, f"not every elif count up to {bound} produced an IR statement ({by_len}); first problem: {(why or ['-'])[0][:300]}", log_dir)
    r["vacuity_ok"] = True
    bad2 = [(b, w) for b, w in zip(bad, why) if b != "false"]
    if not bad2:
        r.update(status="held", solver=f"{n_ok} Ok paths, none deviates (syntactic)")
        return r
    for b, w in bad2:
        res_ = solver.check(mp.smt_lines(ex, [b]), [], "z3", 60)
        if res_.status != "unsat":
            return native_if(r, w, log_dir)
    r.update(status="held", solver=f"{n_ok} Ok paths; {len(bad2)} deviating paths are infeasible (z3 unsat)")
    return r


PROGRAM = '''def grade(n: int) -> str:
    if n >= 90:
        return "A"
    elif n >= 80:
        return "B"
    elif n >= 70:
        return "C"
    elif n >= 60:
        return "D"
    else:
        return "F"

def sign(n: int) -> int:
    mut r = 0
    if n > 100:
        r = 3
    elif n > 10:
        r = 2
    elif n > 0:
        r = 1
    return r

def main() -> None:
    print(grade(95))
    print(grade(85))
    print(grade(75))
    print(grade(65))
    print(grade(5))
    print(sign(1000))
    print(sign(50))
    print(sign(5))
    print(sign(-5))
'''
EXPECT_NEST = ["n >= 90", "n >= 80", "n >= 70", "n >= 60"]


def native_if(r, why, log_dir):
    """Replay: compile a ladder of thresholds with the real compiler and read the nesting order out of the emitted Rust."""
    import kani
    os.makedirs(log_dir, exist_ok=True)
    path = os.path.join(log_dir, "if_replay.incn")
    with open(path, "w") as fh:
        fh.write(PROGRAM)
    texts, broken = [], False
    for prof in ("dev", "release"):
        binp = kani.build_replay(prof, True, log_dir)
        rc, out, _, to = common.run([binp, "emitrust", path], timeout=120)
        src = re.sub(r"\s+", " ", out)
        pos = [src.find(c) for c in EXPECT_NEST]
        pos2 = [src.find(c) for c in ("n > 100", "n > 10 ", "n > 0")]
        if rc != 0 or -1 in pos or -1 in pos2:
            broken = True
            texts.append(f"[{prof}] the ladder program does not compile to Rust containing its conditions: rc={rc} {out.strip()[-200:]}")
            continue
        if pos != sorted(pos) or pos2 != sorted(pos2):
            broken = True
            order = [c for _, c in sorted(zip(pos, EXPECT_NEST))]
            texts.append(f"[{prof}] emitted Rust tests the conditions in the order {order}, the source in the order {EXPECT_NEST}")
    text = "; ".join(texts) or "the ladder program is emitted with its conditions in source order"
    r["native"] = text
    if broken:
        os.makedirs(os.path.join(common.REPLAYS_DIR, "MIRX"), exist_ok=True)
        rp = os.path.join(common.REPLAYS_DIR, "MIRX", r["id"] + ".replay")
        with open(rp, "w") as fh:
            fh.write(f"mirx lowerif\n# {r['statement']}\n# solver: {why[:400]}\n# native: {text}\n")
        r.update(status="violated", replay=rp, counterexample={"path": why[:500], "native": text})
    else:
        r.update(status="inconclusive", reason=f"a feasible path deviates ({why[:300]}) but the ladder program is emitted in source order")
    return r


def replay(pid, line, path):
    from common import say
    fn = {"emitstmt": native_emit_stmt, "assign": native_assign, "lowerstmts": native_stmts, "emitexprs": native_exprs, "callargs": native_call_args, "match": native_match}.get(line[1], native_if)
    r = fn({"id": "replay", "statement": ""}, "", os.path.join(common.WORK_DIR, pid, "replay"))
    say(r.get("native", ""))
    if r.get("status") == "violated":
        say(f"VIOLATION property={pid} replay={path}")
        return 1
    return 0
