#!/bin/sh
# Offline setup after a fresh restore: pre-build the harness crate's dependency graph under Kani and the native
# replay runner, so that the first check does not pay for it. Everything comes from files on disk.
set -e
cd "$(dirname "$0")"
export CARGO_NET_OFFLINE=true
mkdir -p work evidence replays
cp /repo/Cargo.lock kani/Cargo.lock
cp /repo/Cargo.lock replay/Cargo.lock
(cd kani && cargo kani -Z stubbing --only-codegen --target-dir target-0 >../work/setup_kani.log 2>&1) || { tail -30 work/setup_kani.log; exit 1; }
(cd replay && cargo build --target-dir target >../work/setup_replay.log 2>&1) || { tail -30 work/setup_replay.log; exit 1; }
echo "setup ok"
