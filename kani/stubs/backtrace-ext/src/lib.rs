//! Stand-in for `backtrace-ext` (verification build only).
use backtrace::{Backtrace, BacktraceFrame};
use std::ops::Range;

pub fn short_frames_strict(bt: &Backtrace) -> impl Iterator<Item = (&BacktraceFrame, Range<usize>)> {
    bt.frames().iter().map(|f| (f, 0..0))
}
