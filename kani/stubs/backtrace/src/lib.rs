//! Stand-in for `backtrace` used only by the Kani harness crate (the real crate does not
//! compile under kani-compiler). It only serves miette's panic-hook pretty printer.
use std::path::Path;

#[derive(Clone, Debug, Default)]
pub struct Backtrace {
    frames: Vec<BacktraceFrame>,
}
#[derive(Clone, Debug, Default)]
pub struct BacktraceFrame {
    symbols: Vec<BacktraceSymbol>,
}
#[derive(Clone, Debug, Default)]
pub struct BacktraceSymbol;

pub struct SymbolName;
impl core::fmt::Display for SymbolName {
    fn fmt(&self, _f: &mut core::fmt::Formatter<'_>) -> core::fmt::Result {
        Ok(())
    }
}

impl Backtrace {
    pub fn new() -> Self {
        Backtrace { frames: Vec::new() }
    }
    pub fn new_unresolved() -> Self {
        Backtrace { frames: Vec::new() }
    }
    pub fn frames(&self) -> &[BacktraceFrame] {
        &self.frames
    }
    pub fn resolve(&mut self) {}
}
impl BacktraceFrame {
    pub fn ip(&self) -> *mut core::ffi::c_void {
        core::ptr::null_mut()
    }
    pub fn symbol_address(&self) -> *mut core::ffi::c_void {
        core::ptr::null_mut()
    }
    pub fn symbols(&self) -> &[BacktraceSymbol] {
        &self.symbols
    }
}
impl BacktraceSymbol {
    pub fn name(&self) -> Option<SymbolName> {
        None
    }
    pub fn addr(&self) -> Option<*mut core::ffi::c_void> {
        None
    }
    pub fn filename(&self) -> Option<&Path> {
        None
    }
    pub fn lineno(&self) -> Option<u32> {
        None
    }
    pub fn colno(&self) -> Option<u32> {
        None
    }
}
