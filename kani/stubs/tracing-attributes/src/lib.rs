//! Stand-in for `tracing-attributes`: `#[instrument(...)]` leaves the item unchanged.
//! Reason: the real span guard's thread-local destructor makes kani-compiler 0.68 abort.
extern crate proc_macro;
use proc_macro::TokenStream;

#[proc_macro_attribute]
pub fn instrument(_args: TokenStream, item: TokenStream) -> TokenStream {
    item
}
