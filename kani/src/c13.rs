//! C13 (kernel only) — the table that decides which identifiers are written as raw identifiers (`r#name`) in the
//! generated Rust contains every Rust keyword an Incan identifier can collide with.
//!
//! Oracle: the Rust Reference's keyword lists for edition 2021 (the edition the generated manifest pins): strict
//! keywords, reserved keywords, 2018+ additions. `crate`, `self`, `super`, `Self` cannot be raw identifiers (and Incan
//! reserves them itself), so they are not required.
use crate::nd::Nd;
use incan_core::lang::rust_keywords::is_keyword;

const MUST_ESCAPE: [&str; 47] = [
    // strict
    "as", "break", "const", "continue", "else", "enum", "extern", "false", "fn", "for", "if", "impl", "in", "let", "loop",
    "match", "mod", "move", "mut", "pub", "ref", "return", "static", "struct", "trait", "true", "type", "unsafe", "use",
    "where", "while", "async", "await", "dyn",
    // reserved
    "abstract", "become", "box", "do", "final", "macro", "override", "priv", "typeof", "unsized", "virtual", "yield", "try",
];

const fn pack(w: &[u8]) -> u64 {
    let mut k = 0u64;
    let mut j = 0;
    while j < w.len() {
        k |= (w[j] as u64) << (8 * j);
        j += 1;
    }
    k
}

/// Membership in the oracle list, on names packed into a u64 (all keywords have at most 8 bytes).
fn in_oracle(name: &[u8]) -> bool {
    let key = pack(name);
    let mut k = 0;
    while k < MUST_ESCAPE.len() {
        let w = MUST_ESCAPE[k].as_bytes();
        if w.len() == name.len() && pack(w) == key {
            return true;
        }
        k += 1;
    }
    false
}

/// For EVERY identifier-shaped name of at most 8 bytes (the longest keywords, `abstract`/`continue`/`override`, have 8):
/// a Rust keyword is recognised; and a name that is recognised although it is no keyword is at worst a harmless
/// `r#name` — except for the names that cannot be raw identifiers, which must never be recognised... (`crate`/`super`
/// are Incan keywords and cannot reach the emitter, so only `self`, `Self` and `_` are required to be rejected).
pub fn keyword_table_body<N: Nd, const LEN: usize>(nd: &mut N) {
    let mut buf = [0u8; LEN];
    for k in 0..LEN {
        let b = nd.u8();
        nd.assume((b >= b'a' && b <= b'z') || b == b'_' || (b >= b'A' && b <= b'Z') || (b >= b'0' && b <= b'9'));
        buf[k] = b;
    }
    let len = LEN;
    // all bytes are ASCII by the assumption above, so this is valid UTF-8 (skips std's word-at-a-time validator)
    let name = unsafe { core::str::from_utf8_unchecked(&buf[..len]) };
    let got = is_keyword(name);
    if in_oracle(&buf[..len]) {
        assert!(got, "a Rust keyword is not recognised: it would be emitted unescaped");
    }
    let b = name.as_bytes();
    let is_self = len == 4 && ((b[0] == b's' || b[0] == b'S') && b[1] == b'e' && b[2] == b'l' && b[3] == b'f');
    let is_underscore = len == 1 && b[0] == b'_';
    if is_self || is_underscore {
        assert!(!got, "a name that cannot be a raw identifier is recognised as escapable");
    }
    vcover!(got, "a keyword of this length");
    vcover!(!got, "a non-keyword of this length");
}

harnesses! {
    #[kani::unwind(52)]
    fn c13_keyword_table_len2(nd) { keyword_table_body::<_, 2>(nd) }
    #[kani::unwind(52)]
    fn c13_keyword_table_len3(nd) { keyword_table_body::<_, 3>(nd) }
    #[kani::unwind(52)]
    fn c13_keyword_table_len4(nd) { keyword_table_body::<_, 4>(nd) }
    #[kani::unwind(52)]
    fn c13_keyword_table_len5(nd) { keyword_table_body::<_, 5>(nd) }
    #[kani::unwind(52)]
    fn c13_keyword_table_len6(nd) { keyword_table_body::<_, 6>(nd) }
    #[kani::unwind(52)]
    fn c13_keyword_table_len7(nd) { keyword_table_body::<_, 7>(nd) }
    #[kani::unwind(52)]
    fn c13_keyword_table_len8(nd) { keyword_table_body::<_, 8>(nd) }
}
